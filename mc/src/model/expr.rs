//! Reference recogniser / parser / evaluator for find expressions, written from the
//! property statement (C01), not from the code:
//!   list := or { ',' or }      or := and { -o and }     and := not { [-a] not }
//!   not  := '!' not | primary  primary := '(' list ')' | atom
//! Evaluation is left to right; -a / -o short-circuit; ',' evaluates both and yields the
//! right value; -quit stops everything; -print is added to the whole expression iff no
//! action token occurs anywhere.

#[derive(Clone, Copy, Debug, PartialEq, Eq, Hash)]
pub enum Tok {
    LP,
    RP,
    Not,
    And,
    Or,
    Comma,
    True,
    False,
    NameX, // -name 'x*'
    NameY, // -name '*y'
    PrA,   // -printf 'A:%p\n'
    PrB,   // -printf 'B:%p\n'
    Print,
    Prune,
    Quit,
    Noleaf, // an option: always-true primary
    Sorted, // -sorted extension: always-true primary
    // alternative spellings (spelling slice)
    NotWord, // -not
    AndWord, // -and
    OrWord,  // -or
}

pub const ALPHABET16: [Tok; 16] = [
    Tok::True,
    Tok::False,
    Tok::NameX,
    Tok::NameY,
    Tok::PrA,
    Tok::PrB,
    Tok::Print,
    Tok::Prune,
    Tok::Quit,
    Tok::Noleaf,
    Tok::Not,
    Tok::And,
    Tok::Or,
    Tok::Comma,
    Tok::LP,
    Tok::RP,
];

impl Tok {
    pub fn words(self) -> &'static [&'static str] {
        match self {
            Tok::LP => &["("],
            Tok::RP => &[")"],
            Tok::Not => &["!"],
            Tok::And => &["-a"],
            Tok::Or => &["-o"],
            Tok::Comma => &[","],
            Tok::True => &["-true"],
            Tok::False => &["-false"],
            Tok::NameX => &["-name", "x*"],
            Tok::NameY => &["-name", "*y"],
            Tok::PrA => &["-printf", "A:%p\n"],
            Tok::PrB => &["-printf", "B:%p\n"],
            Tok::Print => &["-print"],
            Tok::Prune => &["-prune"],
            Tok::Quit => &["-quit"],
            Tok::Noleaf => &["-noleaf"],
            Tok::Sorted => &["-sorted"],
            Tok::NotWord => &["-not"],
            Tok::AndWord => &["-and"],
            Tok::OrWord => &["-or"],
        }
    }
    pub fn is_not(self) -> bool {
        matches!(self, Tok::Not | Tok::NotWord)
    }
    pub fn is_and(self) -> bool {
        matches!(self, Tok::And | Tok::AndWord)
    }
    pub fn is_or(self) -> bool {
        matches!(self, Tok::Or | Tok::OrWord)
    }
    pub fn is_atom(self) -> bool {
        !matches!(
            self,
            Tok::LP
                | Tok::RP
                | Tok::Not
                | Tok::And
                | Tok::Or
                | Tok::Comma
                | Tok::NotWord
                | Tok::AndWord
                | Tok::OrWord
        )
    }
    pub fn is_action(self) -> bool {
        matches!(self, Tok::PrA | Tok::PrB | Tok::Print)
    }
}

pub fn argv(toks: &[Tok]) -> Vec<&'static str> {
    let mut v = vec![];
    for t in toks {
        v.extend_from_slice(t.words());
    }
    v
}

#[derive(Clone, Debug, PartialEq, Eq)]
pub enum Ex {
    Atom(Tok),
    Not(Box<Ex>),
    And(Box<Ex>, Box<Ex>),
    Or(Box<Ex>, Box<Ex>),
    Comma(Box<Ex>, Box<Ex>),
}

struct P<'a> {
    t: &'a [Tok],
    i: usize,
}

impl P<'_> {
    fn peek(&self) -> Option<Tok> {
        self.t.get(self.i).copied()
    }
    fn list(&mut self) -> Option<Ex> {
        let mut l = self.or()?;
        while self.peek() == Some(Tok::Comma) {
            self.i += 1;
            let r = self.or()?;
            l = Ex::Comma(Box::new(l), Box::new(r));
        }
        Some(l)
    }
    fn or(&mut self) -> Option<Ex> {
        let mut l = self.and()?;
        while self.peek().is_some_and(|t| t.is_or()) {
            self.i += 1;
            let r = self.and()?;
            l = Ex::Or(Box::new(l), Box::new(r));
        }
        Some(l)
    }
    fn and(&mut self) -> Option<Ex> {
        let mut l = self.not()?;
        loop {
            match self.peek() {
                Some(t) if t.is_and() => {
                    self.i += 1;
                    let r = self.not()?;
                    l = Ex::And(Box::new(l), Box::new(r));
                }
                Some(t) if t.is_not() || t == Tok::LP || t.is_atom() => {
                    let r = self.not()?;
                    l = Ex::And(Box::new(l), Box::new(r));
                }
                _ => return Some(l),
            }
        }
    }
    fn not(&mut self) -> Option<Ex> {
        match self.peek()? {
            t if t.is_not() => {
                self.i += 1;
                Some(Ex::Not(Box::new(self.not()?)))
            }
            Tok::LP => {
                self.i += 1;
                let e = self.list()?;
                if self.peek() != Some(Tok::RP) {
                    return None;
                }
                self.i += 1;
                Some(e)
            }
            t if t.is_atom() => {
                self.i += 1;
                Some(Ex::Atom(t))
            }
            _ => None,
        }
    }
}

/// Parse a complete token vector; None if it is not a sentence of the grammar.
/// The empty vector is a sentence (the empty expression, i.e. just the implicit -print).
pub fn parse(t: &[Tok]) -> Option<Option<Ex>> {
    if t.is_empty() {
        return Some(None);
    }
    let mut p = P { t, i: 0 };
    let e = p.list()?;
    if p.i == t.len() {
        Some(Some(e))
    } else {
        None
    }
}

pub struct Entry<'a> {
    pub path: &'a str,
    pub name: &'a str,
    pub is_dir: bool,
}

#[derive(Default)]
pub struct EvalState {
    pub out: Vec<u8>,
    pub quit: bool,
    pub prune: bool,
}

fn atom(t: Tok, e: &Entry, st: &mut EvalState) -> bool {
    match t {
        Tok::True | Tok::Noleaf | Tok::Sorted => true,
        Tok::False => false,
        Tok::NameX => e.name.starts_with('x'),
        Tok::NameY => e.name.ends_with('y'),
        Tok::PrA => {
            st.out.extend_from_slice(format!("A:{}\n", e.path).as_bytes());
            true
        }
        Tok::PrB => {
            st.out.extend_from_slice(format!("B:{}\n", e.path).as_bytes());
            true
        }
        Tok::Print => {
            st.out.extend_from_slice(format!("{}\n", e.path).as_bytes());
            true
        }
        Tok::Prune => {
            if e.is_dir {
                st.prune = true;
            }
            true
        }
        Tok::Quit => {
            st.quit = true;
            true
        }
        _ => unreachable!(),
    }
}

/// Evaluate; the value is meaningless once st.quit is set (nothing further is evaluated).
pub fn eval(x: &Ex, e: &Entry, st: &mut EvalState) -> bool {
    match x {
        Ex::Atom(t) => atom(*t, e, st),
        Ex::Not(a) => {
            let v = eval(a, e, st);
            !v
        }
        Ex::And(a, b) => {
            let v = eval(a, e, st);
            if st.quit || !v {
                return v;
            }
            eval(b, e, st)
        }
        Ex::Or(a, b) => {
            let v = eval(a, e, st);
            if st.quit || v {
                return v;
            }
            eval(b, e, st)
        }
        Ex::Comma(a, b) => {
            eval(a, e, st);
            if st.quit {
                return true;
            }
            eval(b, e, st)
        }
    }
}

/// Evaluate the whole command-line expression for one entry, including the implicit -print.
pub fn eval_top(x: &Option<Ex>, has_action: bool, e: &Entry, st: &mut EvalState) {
    let v = match x {
        Some(x) => eval(x, e, st),
        None => true,
    };
    if !has_action && v && !st.quit {
        st.out.extend_from_slice(format!("{}\n", e.path).as_bytes());
    }
}
