//! Shared by several checks: a tree of 150 directories (one file each, every file a hard link to the
//! same inode, plus a symbolic link to it) walked by the hooks-off binary under RLIMIT_NOFILE = 64.
//! Whatever a primary opens per entry, per directory or per batch must be released again: the
//! 150th directory is handled like the first.

use crate::engine::Ctx;
use std::ffi::OsStr;
use std::path::PathBuf;

pub const NDIRS: usize = 150;

/// Builds `lf/` in the sandbox (removing an older one) and returns its parent (the sandbox).
pub fn build(ctx: &Ctx) -> PathBuf {
    let sbx = ctx.sbx.clone();
    let base = sbx.join("lf");
    let _ = crate::sandbox::force_remove(&base);
    std::fs::create_dir_all(base.join("d000")).unwrap();
    std::fs::write(base.join("d000/f"), b"x").unwrap();
    std::os::unix::fs::symlink("f", base.join("d000/l")).unwrap();
    for i in 1..NDIRS {
        let d = base.join(format!("d{i:03}"));
        std::fs::create_dir(&d).unwrap();
        std::fs::hard_link(base.join("d000/f"), d.join("f")).unwrap();
        std::os::unix::fs::symlink("f", d.join("l")).unwrap();
    }
    sbx
}

pub fn remove(ctx: &Ctx) {
    let _ = crate::sandbox::force_remove(&ctx.sbx.join("lf"));
}

/// Runs the find binary in the sandbox with RLIMIT_NOFILE = `nofile`.
pub fn find(ctx: &Ctx, args: &[&str], nofile: u64, env: Vec<(String, String)>) -> crate::binrun::BinOut {
    let aos: Vec<&OsStr> = args.iter().map(OsStr::new).collect();
    crate::binrun::run(
        &crate::binrun::repo_bin("find"),
        &aos,
        &ctx.sbx,
        &crate::binrun::Opts { nofile: Some(nofile), timeout_s: 120, env: env.into_iter().map(|(k, v)| (k.into(), v.into())).collect(), ..Default::default() },
    )
}

pub fn lines(out: &[u8]) -> Vec<String> {
    String::from_utf8_lossy(out).lines().map(String::from).collect()
}
