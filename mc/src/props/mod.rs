pub mod c01;
pub mod c02;
pub mod c03;
pub mod c04;
pub mod c05;
pub mod c06;
pub mod c07;
pub mod c08;
pub mod c09;
pub mod c10;
pub mod c11;
pub mod c12;
pub mod c13;
pub mod c14;
pub mod c15;
pub mod c16;
pub mod c17;
pub mod labelled;
pub mod lowfd;
pub mod c18;
pub mod c19;
pub mod c20;
pub mod exprspace;

use crate::engine::Prop;

pub fn all() -> Vec<Prop> {
    vec![c01::PROP, c02::PROP, c03::PROP, c04::PROP, c05::PROP, c06::PROP, c07::PROP, c08::PROP, c09::PROP, c10::PROP, c11::PROP, c12::PROP, c13::PROP, c14::PROP, c15::PROP, c16::PROP, c17::PROP, c18::PROP, c19::PROP, c20::PROP]
}
