//! C09 -exec ... ; / -execdir ... ; — names over a nasty alphabet x argument templates x child
//! outcomes x positions of the action, real child processes (the recorder `vrec` logs argv
//! and cwd), find in-process plus a slice through the find binary.

use crate::engine::{Ctx, Prop, Spec, Tier};
use crate::findrun::{run_find, run_find_bin};
use crate::vreclog;
use serde_json::{json, Value};
use std::ffi::OsStr;
use std::os::unix::ffi::OsStrExt;
use std::path::Path;

pub const PROP: Prop = Prop { id: "C09", spec, run, replay };

const ALPHA: [&str; 17] = [" ", "\t", "\n", "\"", "'", "\\", "-", "*", "?", "[", "{", "}", "$", "(", "a", "\u{e9}", "."];
const PIECES: [&str; 8] = ["{}", "x", "{}{}", "a{}b", "{", "}", "{ }", ""];
const OUTCOMES: [&str; 8] = ["0", "1", "2", "255", "s15", "missing", "noexec", "isdir"];
const POSITIONS: [&str; 9] = ["alone", "before-printf", "under-not", "left-of-or", "after-false", "after-name-test", "in-group", "under-not-word", "left-of-or-word"];
/// arguments of CMD that look like words of find's own expression language
const OPERATOR_LIKE: [&[&str]; 8] = [&["(", "{}", ")"], &[")", "{}"], &["{}", "("], &["!", "{}"], &["-o", "{}", "-a"], &[",", "{}"], &["-print", "{}", "-quit"], &["+", "{}", "{}+"]];

fn spec(t: Tier) -> Spec {
    Spec {
        id: "C09",
        level: "exploration",
        rule: format!("files named by every string of <= {} characters over {:?} (plus '{{}}', '-a', 'a b', \"a'b\") in one directory, and a directory of names that are not valid UTF-8 (bytes ff, c3, a ff b); argument templates = every list of <= {} arguments over the pieces {:?}; child outcomes {:?} (scripted per invocation; 'missing' = command does not exist); positions of the action {:?}; -exec and -execdir. Slices: all templates x all names (outcome 0, both primaries); all outcomes x positions x primaries on 3 templates with outcomes alternating per file; a binary slice through the find binary. The recorder child logs its argv and cwd: there must be exactly one run per entry on which the action is reached, in visit order (-sorted), each argument = the template with every '{{}}' replaced by the path (t/NAME, or ./NAME with cwd = the parent directory for -execdir) and all other text unchanged, element for element byte-identical; a following labelled -printf fires exactly for the entries whose child exited 0; find's exit status stays 0 whatever the children do. evaluation = one child invocation checked; PATH slice: the command named without a slash, PATH listing first a directory with a non-executable file / a directory of that name and then the real command (-exec/-execdir, ; and +): it must be run as exec would; interleaving slice: `-printf '%p ' -exec echo X ;` (also -execdir, text before and after the action, the {{}} + form) through the binary with standard output a pipe — find's own text for an entry must precede the output of the command run for it; scale templates: one argument holding {{}} 5, 8, 9, 12 and 20 times, 30 arguments {{}}, 70 000 bytes of literal text before and 100 000 after a {{}}; low-descriptor slice: 150 directories (one file each, all hard links to one inode, plus a link to it) walked by the binary under RLIMIT_NOFILE 64: -exec/-execdir CMD {{}} ; runs for every file in its directory; several commands per file with find's own text between them on a shared standard output (order as evaluated); a command that cannot be started for some files only (-execdir ./tool on five directories of which the 1st, 3rd and 5th hold ./tool; -exec/-execdir with {{}} x 600 in one argument and one 250-byte name among short ones): the files before and after get their invocation, the action is false exactly where the command could not be started, find's status stays 0; non-trivial = name with a character other than a and .", t.pick(1, 2), ALPHA, t.pick(2, 3), PIECES, OUTCOMES, POSITIONS),
        bound: json!({"max_name_len": t.pick(1, 2), "max_template_args": t.pick(2, 3), "outcomes": OUTCOMES, "positions": POSITIONS}),
        assumptions: vec!["the labelled -printf (truth value) is only used on names that are valid UTF-8; tmpfs; -sorted pins the visit order; children are real processes (fork+exec per file)".into()],
        shards: 0,
        wall_cap_s: t.pick(300, 3600),
    }
}

fn names(maxlen: usize) -> Vec<Vec<u8>> {
    if maxlen == 0 {
        // the non-UTF-8 slice
        return vec![b"a\xffb".to_vec(), b"ok".to_vec(), b"\xc3".to_vec(), b"\xff".to_vec()];
    }
    names_utf8(maxlen).into_iter().map(|s| s.into_bytes()).collect()
}

fn names_utf8(maxlen: usize) -> Vec<String> {
    let mut out: Vec<String> = vec![];
    let mut cur: Vec<String> = vec![String::new()];
    for _ in 0..maxlen {
        cur = cur.iter().flat_map(|s| ALPHA.iter().map(move |a| format!("{s}{a}"))).collect();
        out.extend(cur.iter().filter(|n| *n != "." && *n != "..").cloned());
    }
    for extra in ["{}", "-a", "a b", "a'b", "{}{}"] {
        if !out.iter().any(|n| n == extra) {
            out.push(extra.to_string());
        }
    }
    out.sort_by(|a, b| a.as_bytes().cmp(b.as_bytes()));
    out
}

fn templates(maxargs: usize) -> Vec<Vec<&'static str>> {
    let mut out: Vec<Vec<&'static str>> = vec![vec![]];
    let mut cur: Vec<Vec<&'static str>> = vec![vec![]];
    for _ in 0..maxargs {
        cur = cur.iter().flat_map(|t| PIECES.iter().map(move |p| { let mut u = t.clone(); u.push(*p); u })).collect();
        out.extend(cur.iter().cloned());
    }
    out
}

fn build(sbx: &Path, ns: &[Vec<u8>]) -> Result<(), String> {
    crate::sandbox::clear_dir(sbx);
    std::fs::create_dir(sbx.join("t")).map_err(|e| e.to_string())?;
    for n in ns {
        std::fs::write(sbx.join("t").join(OsStr::from_bytes(n)), b"").map_err(|e| format!("{n:?}: {e}"))?;
    }
    Ok(())
}

struct Case<'a> {
    execdir: bool,
    template: &'a [&'static str],
    /// outcome script: outcome for the k-th invocation (cycled)
    script: Vec<&'static str>,
    position: &'static str,
    missing: bool,
    binary: bool,
    /// why the command cannot start ("" if it can): "missing", "noexec", "isdir"
    missing_kind: &'static str,
    /// walk variant: "plain", "depth" (-depth: the slash-less starting point is visited last) or
    /// "tworoots" (a second, slash-less starting point `u` after `t`)
    walk: &'static str,
}

fn subst(t: &str, path: &[u8]) -> Vec<u8> {
    let parts: Vec<&str> = t.split("{}").collect();
    let mut out = vec![];
    for (i, p) in parts.iter().enumerate() {
        if i > 0 {
            out.extend_from_slice(path);
        }
        out.extend_from_slice(p.as_bytes());
    }
    out
}

fn lossy(b: &[u8]) -> String {
    String::from_utf8_lossy(b).to_string()
}

fn check_case(ctx: &mut Ctx, ns: &[Vec<u8>], c: &Case) -> Option<(String, String)> {
    let sbx = ctx.sbx.clone();
    let vrec = crate::engine::self_bin_dir().join("vrec");
    let log = sbx.join(".mc-vrec.log");
    let _ = std::fs::remove_file(&log);
    let prim = if c.execdir { "-execdir" } else { "-exec" };
    // a command that cannot be started: missing, present without execute permission, or a directory
    let cmd = match c.missing_kind {
        "missing" => sbx.join("no-such-command").to_string_lossy().to_string(),
        "noexec" => {
            let p = sbx.join(".mc-noexec");
            let _ = std::fs::write(&p, b"#!/bin/sh\nexit 0\n");
            use std::os::unix::fs::PermissionsExt;
            let _ = std::fs::set_permissions(&p, std::fs::Permissions::from_mode(0o644));
            p.to_string_lossy().to_string()
        }
        "isdir" => {
            let p = sbx.join(".mc-dircmd");
            let _ = std::fs::create_dir(&p);
            p.to_string_lossy().to_string()
        }
        _ => vrec.to_string_lossy().to_string(),
    };
    let logs = log.to_string_lossy().to_string();
    let mut exec: Vec<String> = vec![prim.into(), cmd, logs];
    exec.extend(c.template.iter().map(|s| s.to_string()));
    exec.push(";".into());
    let mut argv: Vec<String> = vec!["t".into()];
    if c.walk == "tworoots" {
        let _ = std::fs::create_dir(sbx.join("u"));
        argv.push("u".into());
    }
    argv.push("-sorted".into());
    if c.walk == "depth" {
        argv.push("-depth".into());
    }
    // entries in visit order: t, then names sorted
    let mut entries: Vec<Vec<u8>> = vec![b"t".to_vec()];
    entries.extend(ns.iter().map(|n| [b"t/".as_slice(), n].concat()));
    if c.walk == "depth" {
        entries.rotate_left(1); // children first, the starting point last
    }
    if c.walk == "tworoots" {
        entries.push(b"u".to_vec());
    }
    let special = &ns[ns.len() / 2];
    let reached: Vec<&Vec<u8>> = match c.position {
        "after-false" => vec![],
        "after-name-test" => entries.iter().filter(|e| e.len() > 2 && &e[2..] == special.as_slice()).collect(),
        _ => entries.iter().collect(),
    };
    match c.position {
        "alone" => argv.extend(exec.clone()),
        "before-printf" => {
            argv.extend(exec.clone());
            argv.extend(["-printf".to_string(), "T %p\\0".to_string()]);
        }
        "under-not" | "under-not-word" => {
            argv.push(if c.position == "under-not" { "!" } else { "-not" }.into());
            argv.extend(exec.clone());
            argv.extend(["-printf".to_string(), "F %p\\0".to_string()]);
        }
        "left-of-or" | "left-of-or-word" => {
            argv.extend(exec.clone());
            argv.extend([if c.position == "left-of-or" { "-o" } else { "-or" }.to_string(), "-printf".to_string(), "F %p\\0".to_string()]);
        }
        "in-group" => {
            argv.push("(".into());
            argv.extend(exec.clone());
            argv.push(")".into());
            argv.extend(["-printf".to_string(), "T %p\\0".to_string()]);
        }
        "after-false" => {
            argv.push("-false".into());
            argv.extend(exec.clone());
        }
        _ => {
            // the name is passed through -path with every glob character escaped? simpler: use -samefile
            argv.extend(["-samefile".to_string(), format!("t/{}", lossy(special))]);
            argv.extend(exec.clone());
            argv.extend(["-printf".to_string(), "T %p\\0".to_string()]);
        }
    }
    let script: String = (0..reached.len().max(1)).map(|k| c.script[k % c.script.len()]).collect::<Vec<_>>().join(",");
    std::env::set_var("VREC_OUTCOMES", &script);
    let args: Vec<&str> = argv.iter().map(|s| s.as_str()).collect();
    let got = if c.binary {
        // the binary gets the script through its environment
        let exe = crate::binrun::repo_bin("find");
        let aos: Vec<&OsStr> = args.iter().map(OsStr::new).collect();
        let o = crate::binrun::run(&exe, &aos, &sbx, &crate::binrun::Opts { env: vec![("VREC_OUTCOMES".into(), script.clone().into())], timeout_s: 120, ..Default::default() });
        crate::findrun::FindOut { code: if o.died() { Err(format!("died: {:?} {:?}", o.code, o.signal)) } else { Ok(o.code.unwrap_or(-1)) }, out: o.out, err: o.err }
    } else {
        run_find(&args)
    };
    let _ = run_find_bin;
    std::env::remove_var("VREC_OUTCOMES");
    let tag = format!("{prim} {}", c.position);
    if got.panicked() {
        return Some((format!("C09 panic / crash [{tag}]"), format!("find {:?}\n{}", argv, got.brief())));
    }
    let recs = match vreclog::read(&log) {
        Ok(r) => r,
        Err(e) => {
            ctx.rep.machinery(format!("recorder log: {e}"));
            return None;
        }
    };
    let detail = |what: String| format!("{what}\nfind {:?}\nstatus {:?} stdout {:?} stderr {:?}", argv, got.code, String::from_utf8_lossy(&got.out), String::from_utf8_lossy(&got.err).chars().take(300).collect::<String>());
    // expected invocations
    let expected_runs: Vec<&Vec<u8>> = if c.missing { vec![] } else { reached.clone() };
    if recs.len() != expected_runs.len() {
        return Some((format!("C09 wrong number of runs [{tag}]"), detail(format!("{} runs recorded, expected {} (one per reached entry)", recs.len(), expected_runs.len()))));
    }
    let cwd_sbx = sbx.as_os_str().as_bytes().to_vec();
    for (k, (rec, path)) in recs.iter().zip(expected_runs.iter()).enumerate() {
        let (shown, want_cwd): (Vec<u8>, Vec<u8>) = if c.execdir {
            let base: &[u8] = if path.starts_with(b"t/") { &path[2..] } else { path };
            let cwd = if path.contains(&b'/') { [cwd_sbx.clone(), b"/t".to_vec()].concat() } else { cwd_sbx.clone() };
            ([b"./".as_slice(), base].concat(), cwd)
        } else {
            ((*path).clone(), cwd_sbx.clone())
        };
        let want: Vec<Vec<u8>> = c.template.iter().map(|t| subst(t, &shown)).collect();
        ctx.rep.evaluations += 1;
        if path.iter().any(|ch| !matches!(*ch, b'a' | b'.' | b't' | b'/')) {
            ctx.rep.nontrivial += 1;
        }
        if rec.args != want {
            let kind = if rec.args.len() != want.len() {
                "argument structure changed (different number of argv elements)"
            } else if rec.args.iter().zip(&want).any(|(a, w)| a != w && lossy(a) == lossy(w)) {
                "argument bytes differ only in bytes that are not valid UTF-8 (lossy conversion)"
            } else if rec.args.iter().zip(&want).any(|(a, w)| a != w && lossy(a).replace(&lossy(&shown), "{}") == lossy(w).replace(&lossy(&shown), "{}")) {
                "not every {} was replaced / wrong replacement count"
            } else {
                "argument bytes differ"
            };
            return Some((format!("C09 {kind} [{prim}]"), detail(format!("run #{k} for {:?}: argv {:?}, expected {:?}", lossy(path), rec.args.iter().map(|a| String::from_utf8_lossy(a).to_string()).collect::<Vec<_>>(), want.iter().map(|a| String::from_utf8_lossy(a).to_string()).collect::<Vec<_>>()))));
        }
        if rec.cwd != want_cwd {
            return Some((format!("C09 wrong working directory [{prim}]"), detail(format!("run #{k} for {:?}: cwd {:?}, expected {:?}", lossy(path), String::from_utf8_lossy(&rec.cwd), String::from_utf8_lossy(&want_cwd)))));
        }
    }
    // truth value as seen by the labelled -printf
    let ok_of = |k: usize| !c.missing && c.script[k % c.script.len()] == "0";
    let mut want_out: Vec<u8> = vec![];
    for (k, p) in reached.iter().enumerate() {
        let line = match c.position {
            "before-printf" | "after-name-test" | "in-group" if ok_of(k) => Some(format!("T {}\0", lossy(p))),
            "under-not" | "left-of-or" | "under-not-word" | "left-of-or-word" if !ok_of(k) => Some(format!("F {}\0", lossy(p))),
            _ => None,
        };
        if let Some(l) = line {
            want_out.extend_from_slice(l.as_bytes());
        }
    }
    if got.out != want_out {
        return Some((format!("C09 truth value of the action is not (exit status == 0) [{tag}]"), detail(format!("labelled output {:?}, expected {:?} (outcome script {script})", String::from_utf8_lossy(&got.out), String::from_utf8_lossy(&want_out)))));
    }
    if got.code != Ok(0) {
        return Some((format!("C09 find's exit status changed by the command [{tag}]"), detail(format!("outcome script {script}, missing command: {}", c.missing))));
    }
    if c.missing && !reached.is_empty() && got.err.is_empty() {
        return Some((format!("C09 no diagnostic for a command that cannot be started [{tag}]"), detail(String::new())));
    }
    ctx.rep.class(&format!("{tag} missing={} runs={}", c.missing, recs.len().min(2)));
    None
}

fn report(ctx: &mut Ctx, ns: &[Vec<u8>], c: &Case, maxlen: usize) {
    if let Some((sig, detail)) = check_case(ctx, ns, c) {
        match check_case(ctx, ns, c) {
            Some((s2, _)) if s2 == sig => ctx.rep.violation(&sig, detail, json!({"prop":"C09","execdir":c.execdir,"template":c.template,"script":c.script,"position":c.position,"missing":c.missing,"binary":c.binary,"maxlen":maxlen,"walk":c.walk,"missing_kind":c.missing_kind})),
            _ => ctx.rep.machinery(format!("nondeterministic verdict: {sig}")),
        }
    }
}

fn run(ctx: &mut Ctx) {
    let maxlen = ctx.tier.pick(1, 2);
    let ns = names(maxlen);
    if let Err(e) = build(&ctx.sbx.clone(), &ns) {
        ctx.rep.machinery(format!("sandbox: {e}"));
        return;
    }
    ctx.rep.count("names", if ctx.shard == 0 { ns.len() as u64 } else { 0 });
    let ts = templates(ctx.tier.pick(2, 3));
    let mut job = 0u64;
    // slice 1: all templates x all names
    for t in &ts {
        for execdir in [false, true] {
            job += 1;
            if !ctx.mine(job) {
                continue;
            }
            ctx.progress(job);
            let c = Case { execdir, template: t, script: vec!["0"], position: "before-printf", missing: false, binary: false, missing_kind: "", walk: "plain" };
            report(ctx, &ns, &c, maxlen);
            if job % 101 == 1 || ctx.rep.samples.is_empty() {
                ctx.rep.sample(json!({"primary": if execdir {"-execdir"} else {"-exec"}, "template": t, "names": ns.iter().take(10).map(|n| lossy(n)).collect::<Vec<_>>()}));
            }
        }
    }
    // slice 2: outcomes x positions x primaries on three templates
    let t3: [Vec<&'static str>; 3] = [vec!["{}"], vec!["x", "a{}b{}"], vec![]];
    for t in &t3 {
        for o in OUTCOMES {
            for pos in POSITIONS {
                for execdir in [false, true] {
                    for binary in [false, true] {
                        job += 1;
                        if !ctx.mine(job) {
                            continue;
                        }
                        if binary && !(pos == "before-printf" || pos == "left-of-or") {
                            continue;
                        }
                        ctx.progress(job);
                        let missing = matches!(o, "missing" | "noexec" | "isdir");
                        // outcomes alternate per file so that truth differs between neighbours
                        let script: Vec<&'static str> = if missing { vec!["0"] } else { vec![o, "0", o, o, "0"] };
                        let c = Case { execdir, template: t, script, position: pos, missing, binary, missing_kind: if missing { o } else { "" }, walk: "plain" };
                        report(ctx, &ns, &c, maxlen);
                        if binary {
                            ctx.rep.traces_validated += 1;
                        }
                    }
                }
            }
        }
    }
    // slice 2a': CMD arguments that look like words of find's own language ( ( ) ! -o , -print + ) are
    // arguments and nothing else, wherever the action stands (also inside a parenthesised group)
    for t in OPERATOR_LIKE {
        for pos in ["before-printf", "in-group", "under-not-word", "left-of-or"] {
            for execdir in [false, true] {
                job += 1;
                if !ctx.mine(job) {
                    continue;
                }
                let tv: Vec<&'static str> = t.to_vec();
                let c = Case { execdir, template: &tv, script: vec!["0", "1"], position: pos, missing: false, binary: false, missing_kind: "", walk: "plain" };
                report(ctx, &ns, &c, maxlen);
            }
        }
    }
    // slice 2b: the slash-less starting point visited after other entries (-depth, or a second
    // starting point): state must not leak from one run to the next (cwd of -execdir)
    let tsmall: [Vec<&'static str>; 4] = [vec![], vec!["x"], vec!["{}"], vec!["x", "a{}b"]];
    for t in &tsmall {
        for walk in ["depth", "tworoots"] {
            for execdir in [false, true] {
                job += 1;
                if !ctx.mine(job) {
                    continue;
                }
                let c = Case { execdir, template: t, script: vec!["0", "1"], position: "before-printf", missing: false, binary: false, missing_kind: "", walk };
                report(ctx, &ns, &c, maxlen);
            }
        }
    }
    // slice 2c: scale — one argument holding `{}` 5, 8, 9, 12 and 20 times, 30 arguments `{}`, and
    // arguments with 70 000 bytes of literal text before / 100 000 after the `{}`
    let leak = |s: String| -> &'static str { Box::leak(s.into_boxed_str()) };
    let mut big: Vec<Vec<&'static str>> = vec![];
    for k in [5usize, 8, 9, 12, 20] {
        big.push(vec!["pre", leak(format!("<{}", (0..k).map(|j| format!("{{}}{j}|")).collect::<String>()))]);
    }
    big.push(vec!["{}"; 30]);
    big.push(vec![leak(format!("{}{{}}y{{}}", "x".repeat(70_000)))]);
    big.push(vec![leak(format!("{{}}{}", "z".repeat(100_000))), "{}"]);
    for t in &big {
        for execdir in [false, true] {
            job += 1;
            if !ctx.mine(job) {
                continue;
            }
            let c = Case { execdir, template: t, script: vec!["0"], position: "before-printf", missing: false, binary: false, missing_kind: "", walk: "plain" };
            report(ctx, &ns, &c, maxlen);
            ctx.rep.count("scale_templates", 1);
        }
    }
    // slice 2d: "at that point of the evaluation" as seen from outside: what find itself wrote
    // before the action (-printf without a newline, so that it is still buffered) must reach the
    // shared standard output before the child's own output
    if ctx.shard == 3 % ctx.nshards {
        interleaving_slice(ctx);
    }
    // slice 2e: the command is looked up the way exec does: a PATH whose earlier directory holds a
    // file of that name that cannot be executed (no x bit / a directory) must not hide the real one
    if ctx.shard == 4 % ctx.nshards {
        path_lookup_slice(ctx);
    }
    // slice 2e': a command that cannot be started for some files only, between files for which it can
    if ctx.shard == 6 % ctx.nshards {
        start_failure_history(ctx, "C09", ";");
    }
    if ctx.shard == 7 % ctx.nshards {
        low_descriptor_exec(ctx, "C09", ";");
    }
    // slice 2f: -execdir on the root directory, however it is spelled, runs in the root directory
    if ctx.shard == 5 % ctx.nshards {
        let log = ctx.sbx.join(".mc-vrec.log");
        let vrec = crate::engine::self_bin_dir().join("vrec").to_string_lossy().to_string();
        for spelling in ["/", "//", "/.", "/./", "///"] {
            for term in [";", "+"] {
                let _ = std::fs::remove_file(&log);
                let _ = std::env::set_current_dir(&ctx.sbx);
                let logs = log.to_string_lossy().to_string();
                let args = [spelling, "-maxdepth", "0", "-execdir", vrec.as_str(), logs.as_str(), "{}", term];
                let got = crate::findrun::run_find(&args);
                let recs = crate::vreclog::read(&log).unwrap_or_default();
                ctx.rep.evaluations += 1;
                ctx.rep.nontrivial += 1;
                ctx.rep.count("root_directory_spellings", 1);
                if recs.len() != 1 || recs[0].cwd != b"/" || got.code != Ok(0) {
                    ctx.rep.violation(
                        "C09 -execdir on the root directory does not run in the root directory",
                        format!("find {:?}: {} invocation(s), cwd {:?}, args {:?}; {}", args, recs.len(), recs.first().map(|r| lossy(&r.cwd)), recs.first().map(|r| r.args.iter().map(|a| lossy(a)).collect::<Vec<_>>()), got.brief()),
                        json!({"prop":"C09","root_spelling":spelling}),
                    );
                }
            }
        }
        let _ = std::fs::remove_file(&log);
    }
    // slice 3: names that are not valid UTF-8 (argv bytes only: the labelled output is not used)
    nonutf8_slice(ctx, &mut job);
}

/// `find t -sorted -printf '%p ' -exec(dir) echo X ;` (and the `{} +` form, and -fprintf to the same
/// pipe is not possible, so standard output only) through the binary with standard output a pipe:
/// each entry's own text must come before the output of the command run for it.
fn interleaving_slice(ctx: &mut Ctx) {
    let sbx = ctx.sbx.clone();
    let t = sbx.join("il");
    let _ = crate::sandbox::force_remove(&t);
    std::fs::create_dir(&t).unwrap();
    for n in ["a", "b", "c"] {
        std::fs::write(t.join(n), b"").unwrap();
    }
    let cases: [(&[&str], &str); 8] = [
        // two commands on the same file with find's own text between them (and a third after a failing one)
        (&["il", "-sorted", "-printf", "[%f:", "-exec", "echo", "one", ";", "-printf", "<%f:", "-exec", "echo", "two", ";"], "[il:one\n<il:two\n[a:one\n<a:two\n[b:one\n<b:two\n[c:one\n<c:two\n"),
        (&["il", "-sorted", "-printf", "[%f:", "-exec", "echo", "one", ";", "-printf", "<%f:", "-execdir", "echo", "two", ";", "-printf", "{%f:", "-exec", "echo", "three", ";"], "[il:one\n<il:two\n{il:three\n[a:one\n<a:two\n{a:three\n[b:one\n<b:two\n{b:three\n[c:one\n<c:two\n{c:three\n"),
        (&["il", "-sorted", "-exec", "false", ";", "-o", "-printf", "no:", "-exec", "echo", "{}", ";"], "no:il\nno:il/a\nno:il/b\nno:il/c\n"),
        (&["il", "-sorted", "-exec", "true", ";", "-printf", "yes:", "-exec", "echo", "{}", ";"], "yes:il\nyes:il/a\nyes:il/b\nyes:il/c\n"),
        (&["il", "-sorted", "-printf", "%p ", "-exec", "echo", "X", ";"], "il X\nil/a X\nil/b X\nil/c X\n"),
        (&["il", "-sorted", "-printf", "%p ", "-execdir", "echo", "X", ";"], "il X\nil/a X\nil/b X\nil/c X\n"),
        (&["il", "-sorted", "-printf", "<%f>", "-exec", "echo", "{}", ";", "-printf", "."], "<il>il\n.<a>il/a\n.<b>il/b\n.<c>il/c\n."),
        (&["il", "-sorted", "-printf", "%p ", "-exec", "echo", "{}", "+"], "il il/a il/b il/c il il/a il/b il/c\n"),
    ];
    for (args, want) in cases {
        let got = crate::findrun::run_find_bin(args, &sbx, None);
        ctx.rep.evaluations += 1;
        ctx.rep.nontrivial += 1;
        ctx.rep.count("interleaving_cases", 1);
        if got.out != want.as_bytes() || got.code != Ok(0) {
            ctx.rep.violation(
                "C09 output written by find before the action appears after the command's output (not run at that point of the evaluation, as seen on the shared standard output)",
                format!("find {:?} | cat\n expected {:?}\n actual   {:?} status {:?}", args, want, String::from_utf8_lossy(&got.out), got.code),
                json!({"prop":"C09","interleaving":true}),
            );
        }
    }
    let _ = crate::sandbox::force_remove(&t);
}

fn path_lookup_slice(ctx: &mut Ctx) {
    use std::os::unix::fs::PermissionsExt;
    let sbx = ctx.sbx.clone();
    let base = sbx.join("pl");
    let _ = crate::sandbox::force_remove(&base);
    for d in ["pl/A", "pl/B", "pl/C", "pl/t"] {
        std::fs::create_dir_all(sbx.join(d)).unwrap();
    }
    std::fs::write(base.join("t/f"), b"").unwrap();
    // A: same name, not executable; C: same name, a directory; B: the real command
    std::fs::write(base.join("A/mccmd"), b"#!/bin/sh\nexit 7\n").unwrap();
    std::fs::set_permissions(base.join("A/mccmd"), std::fs::Permissions::from_mode(0o644)).unwrap();
    std::fs::create_dir(base.join("C/mccmd")).unwrap();
    std::fs::copy(crate::engine::self_bin_dir().join("vrec"), base.join("B/mccmd")).unwrap();
    std::fs::set_permissions(base.join("B/mccmd"), std::fs::Permissions::from_mode(0o755)).unwrap();
    let log = sbx.join(".mc-vrec.log");
    let (a, b, c) = (base.join("A").display().to_string(), base.join("B").display().to_string(), base.join("C").display().to_string());
    for path in [format!("{a}:{b}"), format!("{c}:{b}"), format!("{a}:{c}:{b}:/usr/bin"), format!("{b}:{a}"), format!("/nonexistent:{b}")] {
        for prim in ["-exec", "-execdir"] {
            for term in [";", "+"] {
                let _ = std::fs::remove_file(&log);
                let args: Vec<String> = vec!["t".into(), "-type".into(), "f".into(), prim.into(), "mccmd".into(), log.display().to_string(), "{}".into(), term.into(), "-print".into()];
                let aos: Vec<&OsStr> = args.iter().map(OsStr::new).collect();
                let o = crate::binrun::run(&crate::binrun::repo_bin("find"), &aos, &base, &crate::binrun::Opts { env: vec![("PATH".into(), path.clone().into())], timeout_s: 30, ..Default::default() });
                let recs = crate::vreclog::read(&log).unwrap_or_default();
                ctx.rep.evaluations += 1;
                ctx.rep.nontrivial += 1;
                ctx.rep.count("path_lookup_cases", 1);
                let printed = String::from_utf8_lossy(&o.out).lines().any(|l| l == "t/f");
                let want_arg: &[u8] = if prim == "-execdir" { b"./f" } else { b"t/f" };
                let ran = recs.len() == 1 && recs[0].args.len() == 1 && recs[0].args[0] == want_arg;
                if !ran || !printed || o.code != Some(0) {
                    ctx.rep.violation(
                        "C09 the command is not found through PATH as exec would find it (an earlier directory holds an unusable file of that name)",
                        format!("PATH={path} find {:?}: status {:?}, {} invocation(s) recorded, -print after the action reached: {printed}; stderr {:?}", args, o.code, recs.len(), String::from_utf8_lossy(&o.err)),
                        json!({"prop":"C09","path_lookup":true}),
                    );
                }
            }
        }
    }
    let _ = crate::sandbox::force_remove(&base);
}

/// A command that cannot be started for SOME files only, between files for which it can: under
/// -execdir the program `./tool` exists in the directories a, c and e but not in b and d; under -exec
/// one argument is `{}` 600 times, which exceeds the kernel's per-argument limit for one 250-byte
/// name only. Every file for which the command can be started gets its invocation (right argument,
/// right working directory), before and after the failures. `term` is ";" (C09: the action is false
/// where the command could not be started, find's status stays 0) or "+" (C08: the action is always
/// true, find's status is non-zero).
pub fn start_failure_history(ctx: &mut Ctx, prop: &str, term: &str) {
    use std::os::unix::fs::PermissionsExt;
    let sbx = ctx.sbx.clone();
    let base = sbx.join("sf");
    let _ = crate::sandbox::force_remove(&base);
    for d in ["a", "b", "c", "d", "e"] {
        std::fs::create_dir_all(base.join("t").join(d)).unwrap();
        std::fs::write(base.join("t").join(d).join(format!("f{d}")), b"").unwrap();
    }
    for d in ["a", "c", "e"] {
        let tool = base.join("t").join(d).join("tool");
        std::fs::copy(crate::engine::self_bin_dir().join("vrec"), &tool).unwrap();
        std::fs::set_permissions(&tool, std::fs::Permissions::from_mode(0o755)).unwrap();
    }
    let log = sbx.join(".mc-vrec.log");
    let run = |args: &[String]| {
        let _ = std::fs::remove_file(&log);
        let aos: Vec<&OsStr> = args.iter().map(OsStr::new).collect();
        let o = crate::binrun::run(&crate::binrun::repo_bin("find"), &aos, &base, &crate::binrun::Opts { timeout_s: 60, ..Default::default() });
        (o, crate::vreclog::read(&log).unwrap_or_default())
    };
    for order in ["-sorted", "-depth"] {
        let args: Vec<String> = ["t", "-sorted", order, "-type", "f", "!", "-name", "tool", "-execdir", "./tool", &log.display().to_string(), "{}", term, "-print"].iter().map(|s| s.to_string()).collect();
        let (o, recs) = run(&args);
        ctx.rep.evaluations += 1;
        ctx.rep.nontrivial += 1;
        ctx.rep.count("start_failure_history_cases", 1);
        let got: Vec<(String, String)> = recs.iter().map(|r| (String::from_utf8_lossy(&r.cwd).to_string(), r.args.iter().map(|a| String::from_utf8_lossy(a).to_string()).collect::<Vec<_>>().join(" "))).collect();
        let want: Vec<(String, String)> = ["a", "c", "e"].iter().map(|d| (base.join("t").join(d).display().to_string(), format!("./f{d}"))).collect();
        let printed: Vec<String> = String::from_utf8_lossy(&o.out).lines().map(String::from).collect();
        let want_printed: Vec<String> = if term == ";" { ["a", "c", "e"].iter().map(|d| format!("t/{d}/f{d}")).collect() } else { ["a", "b", "c", "d", "e"].iter().map(|d| format!("t/{d}/f{d}")).collect() };
        let status_ok = if term == ";" { o.code == Some(0) } else { matches!(o.code, Some(c) if c != 0) };
        if got != want || printed != want_printed || !status_ok {
            let what = if got != want {
                "the command is not run (or not in the right directory) for files met after one for which it could not be started"
            } else if printed != want_printed {
                "the action's truth value is wrong after a command that could not be started"
            } else {
                "find's exit status is wrong"
            };
            ctx.rep.violation(
                &format!("{prop} -execdir ./tool {{}} {term} where ./tool exists in some directories only: {what}"),
                format!("find {:?} (./tool exists in t/a, t/c, t/e): status {:?}\ninvocations (cwd, args) {:?}\nexpected {:?}\nprinted {:?} expected {:?}\nstderr {:?}", args, o.code, got, want, printed, want_printed, String::from_utf8_lossy(&o.err)),
                json!({"prop":prop,"start_failure_history":true}),
            );
        }
    }
    if term == ";" {
        let t2 = base.join("t2");
        std::fs::create_dir_all(&t2).unwrap();
        let long = format!("b{}", "x".repeat(249));
        for n in ["a1", long.as_str(), "c1", "d1"] {
            std::fs::write(t2.join(n), b"").unwrap();
        }
        let vrec = crate::engine::self_bin_dir().join("vrec");
        for prim in ["-exec", "-execdir"] {
            let args: Vec<String> = vec!["t2".into(), "-sorted".into(), "-type".into(), "f".into(), prim.into(), vrec.display().to_string(), log.display().to_string(), "{}".repeat(600), ";".into(), "-print".into()];
            let (o, recs) = run(&args);
            ctx.rep.evaluations += 1;
            ctx.rep.nontrivial += 1;
            ctx.rep.count("start_failure_history_cases", 1);
            let shown = |n: &str| if prim == "-exec" { format!("t2/{n}") } else { format!("./{n}") };
            let want: Vec<Vec<u8>> = ["a1", "c1", "d1"].iter().map(|n| shown(n).repeat(600).into_bytes()).collect();
            let got: Vec<Vec<u8>> = recs.iter().map(|r| r.args.concat()).collect();
            let printed: Vec<String> = String::from_utf8_lossy(&o.out).lines().map(String::from).collect();
            if got != want || printed != ["t2/a1", "t2/c1", "t2/d1"] || o.code != Some(0) {
                ctx.rep.violation(
                    &format!("{prop} {prim} with an argument too long for ONE file: the files met after it are not handled as before it"),
                    format!("find t2 -sorted -type f {prim} vrec LOG '{{}}'x600 ; -print (names a1, b+249 x, c1, d1): status {:?}, {} invocation(s) with argument lengths {:?} (expected 3 of {:?}), printed {:?}; stderr {:?}", o.code, got.len(), got.iter().map(|g| g.len()).collect::<Vec<_>>(), want.iter().map(|g| g.len()).collect::<Vec<_>>(), printed, String::from_utf8_lossy(&o.err).lines().take(3).collect::<Vec<_>>()),
                    json!({"prop":prop,"start_failure_history":true}),
                );
            }
        }
    }
    let _ = crate::sandbox::force_remove(&base);
}

/// 150 directories under RLIMIT_NOFILE = 64: `-execdir CMD {} ;` (C09) / `-execdir CMD {} +` and
/// `-exec CMD {} +` (C08) run CMD for the file of every directory, in that directory.
pub fn low_descriptor_exec(ctx: &mut Ctx, prop: &str, term: &str) {
    use crate::props::lowfd;
    let sbx = lowfd::build(ctx);
    let log = sbx.join(".mc-vrec.log");
    let vrec = crate::engine::self_bin_dir().join("vrec").display().to_string();
    for prim in ["-execdir", "-exec"] {
        let _ = std::fs::remove_file(&log);
        let logs = log.display().to_string();
        let args: Vec<&str> = vec!["lf", "-sorted", "-name", "f", prim, &vrec, &logs, "{}", term];
        let o = lowfd::find(ctx, &args, 64, vec![]);
        let recs = crate::vreclog::read(&log).unwrap_or_default();
        ctx.rep.evaluations += 1;
        ctx.rep.nontrivial += 1;
        ctx.rep.count("low_descriptor_limit_cases", 1);
        let delivered: Vec<(String, String)> = recs.iter().flat_map(|r| r.args.iter().map(|a| (String::from_utf8_lossy(&r.cwd).to_string(), String::from_utf8_lossy(a).to_string())).collect::<Vec<_>>()).collect();
        let want: Vec<(String, String)> = (0..lowfd::NDIRS)
            .map(|i| if prim == "-execdir" { (sbx.join(format!("lf/d{i:03}")).display().to_string(), "./f".to_string()) } else { (sbx.display().to_string(), format!("lf/d{i:03}/f")) })
            .collect();
        if o.died() || o.code != Some(0) || delivered != want {
            let firstbad = delivered.iter().zip(&want).position(|(a, b)| a != b).unwrap_or(delivered.len().min(want.len()));
            ctx.rep.violation(
                &format!("{prop} {prim} ... {{}} {term} over 150 directories with 64 file descriptors: not every file got its run in the right directory"),
                format!("find {:?} under RLIMIT_NOFILE=64: status {:?} signal {:?}; {} paths delivered, expected {}; first difference at #{firstbad}; stderr {:?}", args, o.code, o.signal, delivered.len(), want.len(), String::from_utf8_lossy(&o.err).lines().take(2).collect::<Vec<_>>()),
                json!({"prop":prop,"low_descriptor":true}),
            );
        }
    }
    lowfd::remove(ctx);
}

fn nonutf8_slice(ctx: &mut Ctx, job: &mut u64) {
    let ns = names(0);
    let ts = templates(2);
    let mut built = false;
    for t in &ts {
        for execdir in [false, true] {
            *job += 1;
            if !ctx.mine(*job) {
                continue;
            }
            if !built {
                if let Err(e) = build(&ctx.sbx.clone(), &ns) {
                    ctx.rep.machinery(format!("sandbox: {e}"));
                    return;
                }
                built = true;
            }
            let c = Case { execdir, template: t, script: vec!["0"], position: "alone", missing: false, binary: false, missing_kind: "", walk: "plain" };
            report(ctx, &ns, &c, 0);
            ctx.rep.count("runs_over_names_that_are_not_valid_utf8", 1);
        }
    }
}

fn replay(case: &Value, ctx: &mut Ctx) -> Option<String> {
    if case["path_lookup"] == true {
        path_lookup_slice(ctx);
        return ctx.rep.violations.keys().next().cloned();
    }
    if case["low_descriptor"] == true {
        low_descriptor_exec(ctx, "C09", ";");
        return ctx.rep.violations.keys().next().cloned();
    }
    if case["start_failure_history"] == true {
        start_failure_history(ctx, "C09", ";");
        return ctx.rep.violations.keys().next().cloned();
    }
    if case["interleaving"] == true {
        interleaving_slice(ctx);
        return ctx.rep.violations.keys().next().cloned();
    }
    let maxlen = case["maxlen"].as_u64()? as usize;
    let ns = names(maxlen);
    build(&ctx.sbx.clone(), &ns).ok()?;
    let template: Vec<&'static str> = case["template"].as_array()?.iter().filter_map(|v| PIECES.iter().chain(["a{}b{}", "(", ")", "!", "-o", "-a", ",", "-print", "-quit", "+", "{}+"].iter()).find(|p| Some(**p) == v.as_str()).copied()).collect();
    let script: Vec<&'static str> = case["script"].as_array()?.iter().filter_map(|v| OUTCOMES.iter().find(|p| Some(**p) == v.as_str()).copied()).collect();
    let position = POSITIONS.iter().find(|p| Some(**p) == case["position"].as_str())?;
    let c = Case { execdir: case["execdir"].as_bool()?, template: &template, script, position, missing: case["missing"].as_bool()?, binary: case["binary"].as_bool().unwrap_or(false), missing_kind: ["missing", "noexec", "isdir"].into_iter().find(|w| Some(*w) == case["missing_kind"].as_str()).unwrap_or(if case["missing"].as_bool().unwrap_or(false) { "missing" } else { "" }), walk: ["plain", "depth", "tworoots"].into_iter().find(|w| Some(*w) == case["walk"].as_str()).unwrap_or("plain") };
    match check_case(ctx, &ns, &c) {
        Some((sig, detail)) => {
            ctx.rep.violation(&sig, detail, case.clone());
            Some(sig)
        }
        None => None,
    }
}
