//! C20 xargs -I — lines x templates x replacement strings x spellings x option orders,
//! invocations intercepted by hook H2 in the real xargs_main; binary slice with a recorder.

use crate::engine::{Ctx, Prop, Spec, Tier};
use crate::model::xargs::{batch, tokenize, BatchCfg, Tokens};
use crate::xargsrun::{run_xargs, Outcome, XOut};
use serde_json::{json, Value};

pub const PROP: Prop = Prop {
    id: "C20",
    spec,
    run,
    replay,
};

const LINES: [&str; 8] = ["a", "a b", "", "{}", "R", "x{}y", "ab ", "c\td"];
const TEMPL: [&str; 10] = ["{}", "R", "x", "{}{}", "a{}b", "RR", "aab", "aaab", "aabaab", "{{{}}}"];

/// how the replace option is spelled; (argv words, replacement string)
fn spellings() -> Vec<(Vec<&'static str>, &'static str)> {
    vec![
        (vec!["-I", "{}"], "{}"),
        (vec!["-I", "R"], "R"),
        (vec!["-I", "%%"], "%%"),
        (vec!["-I{}"], "{}"),
        (vec!["-i"], "{}"),
        (vec!["--replace"], "{}"),
        (vec!["--replace=R"], "R"),
        (vec!["-i=R"], "R"),
        // replacement strings whose first byte repeats: an occurrence can start inside a partial match
        (vec!["-I", "aab"], "aab"),
        (vec!["-I", "{{}}"], "{{}}"),
    ]
}

#[derive(Clone, Debug)]
enum Opt {
    Replace(usize), // index into spellings()
    N(usize),
    L(usize),
}

fn bounds(t: Tier) -> (usize, usize) {
    // (max lines, max template args)
    t.pick((2, 2), (3, 3))
}

fn spec(t: Tier) -> Spec {
    let (l, a) = bounds(t);
    Spec {
        id: "C20",
        level: "exploration",
        rule: format!("every sequence of <= {l} input lines over {:?} x every list of 1..{a} initial arguments over {:?} x 10 spellings of the replace option (-I R, -IR, -i, -i=R, --replace, --replace=R; R in {{}}, R, %%, aab, {{{{}}}}) is run through the real xargs_main (hook H2 records each invocation): one run per non-empty line, in order, every occurrence of R in every initial argument replaced by the whole line, nothing appended, other arguments unchanged, empty input runs nothing with status 0; plus every ordered subset of {{replace, -n k, -L k}} (k in 1,2): the option given last decides the mode (-I with -n 1 is replace mode); non-trivial = case with at least one non-empty line and a template containing R; every sequence of <= 3 lines that are not valid UTF-8 (bytes ff, fe, c3, f0 9f, e9, e8: pairs with the same lossy rendering) must be substituted byte for byte, each with its own bytes; scale slice: 600 lines (1..40 bytes with inner blanks and é, some empty, plus lines of 300, 1000, 4095..4097, 8191..8193 and 20000 bytes) substituted into one R, 20 arguments R, one argument holding R 1..12 times between literals, and an argument with 70000 + 40000 bytes of literal text around R (lines whose substitution would exceed 100 000 bytes in total are left out: that is C06's subject); binary slice through the xargs binary and a recorder child", LINES, TEMPL),
        bound: json!({"max_lines": l, "max_template_args": a}),
        assumptions: vec!["lines with quotes, backslashes or leading blanks are excluded by the statement".into()],
        shards: 0,
        wall_cap_s: t.pick(300, 1800),
    }
}

fn expected_replace(lines: &[&str], templ: &[&str], r: &str) -> Vec<Vec<Vec<u8>>> {
    lines
        .iter()
        .filter(|l| !l.is_empty())
        .map(|l| {
            let mut v = vec![b"cmd".to_vec()];
            v.extend(templ.iter().map(|t| t.replace(r, l).into_bytes()));
            v
        })
        .collect()
}

fn input_of(lines: &[&str], final_newline: bool) -> Vec<u8> {
    let mut s = lines.join("\n");
    if final_newline && !lines.is_empty() {
        s.push('\n');
    }
    s.into_bytes()
}

fn exec(file: &std::path::Path, opts: &[String], templ: &[&str], input: &[u8]) -> XOut {
    std::fs::write(file, input).unwrap();
    let mut av: Vec<String> = vec!["-a".into(), file.to_str().unwrap().into()];
    av.extend(opts.iter().cloned());
    av.push("cmd".into());
    av.extend(templ.iter().map(|s| s.to_string()));
    let args: Vec<&str> = av.iter().map(|s| s.as_str()).collect();
    run_xargs(&args, &mut |_, _| Outcome::Exit(0))
}

fn show(inv: &[Vec<Vec<u8>>]) -> String {
    format!("{:?}", inv.iter().map(|v| v.iter().map(|a| String::from_utf8_lossy(a).to_string()).collect::<Vec<_>>()).collect::<Vec<_>>())
}

fn judge_replace(want: &[Vec<Vec<u8>>], got: &XOut, tag: &str) -> Option<(String, String)> {
    if let Err(p) = &got.code {
        return Some((format!("C20 xargs panicked at {} ({tag})", p.split(':').take(2).collect::<Vec<_>>().join(":")), p.clone()));
    }
    let detail = || format!("expected {} status 0\n actual   {} status {:?} stderr {:?}", show(want), show(&got.inv), got.code, String::from_utf8_lossy(&got.err).lines().last().unwrap_or(""));
    if got.inv != want {
        let sig = if got.inv.len() != want.len() {
            if want.is_empty() { "C20 a command was run although there is no non-empty input line" } else { "C20 wrong number of runs (not one per non-empty line)" }
        } else if got.inv.iter().zip(want).any(|(a, w)| a.len() != w.len()) {
            "C20 arguments appended or dropped in replace mode"
        } else {
            "C20 replacement text wrong (not every occurrence replaced by the whole line, or other text changed)"
        };
        return Some((format!("{sig} ({tag})"), detail()));
    }
    if got.code != Ok(0) {
        return Some((format!("C20 non-zero exit status in replace mode ({tag})"), detail()));
    }
    None
}

fn lists<'a>(alpha: &[&'a str], min: usize, max: usize) -> Vec<Vec<&'a str>> {
    let mut out = vec![];
    fn rec<'a>(alpha: &[&'a str], min: usize, max: usize, cur: &mut Vec<&'a str>, out: &mut Vec<Vec<&'a str>>) {
        if cur.len() >= min {
            out.push(cur.clone());
        }
        if cur.len() == max {
            return;
        }
        for a in alpha {
            cur.push(a);
            rec(alpha, min, max, cur, out);
            cur.pop();
        }
    }
    rec(alpha, min, max, &mut vec![], &mut out);
    out
}

fn run(ctx: &mut Ctx) {
    let (maxl, maxa) = bounds(ctx.tier);
    let file = ctx.sbx.join(".mc-xin");
    let line_lists = lists(&LINES, 0, maxl);
    let templs = lists(&TEMPL, 1, maxa);
    let sp = spellings();
    // ---- 1. pure replace mode
    for ll in &line_lists {
        for tp in &templs {
            for (si, (words, r)) in sp.iter().enumerate() {
                if !ctx.next_mine() {
                    continue;
                }
                for final_nl in [true, false] {
                    if !final_nl && (ll.is_empty() || ll.last().is_some_and(|l| l.is_empty())) {
                        continue;
                    }
                    let input = input_of(ll, final_nl);
                    let opts: Vec<String> = words.iter().map(|s| s.to_string()).collect();
                    let got = exec(&file, &opts, tp, &input);
                    let want = expected_replace(ll, tp, r);
                    ctx.rep.evaluations += 1;
                    if !want.is_empty() && tp.iter().any(|t| t.contains(r)) {
                        ctx.rep.nontrivial += 1;
                    }
                    ctx.rep.class(&format!("replace runs={} status={:?}", got.inv.len().min(4), got.code.as_ref().map(|c| *c).unwrap_or(101)));
                    if ctx.rep.evaluations % 3000 == 5 {
                        ctx.rep.sample(json!({"options": opts, "initial_args": tp, "lines": ll, "expected_invocations": show(&want)}));
                    }
                    if let Some((sig, detail)) = judge_replace(&want, &got, if si >= 4 { "-i/--replace spelling" } else { "-I spelling" }) {
                        ctx.rep.violation(&sig, format!("xargs {:?} cmd {:?} < {:?}\n {detail}", opts, tp, String::from_utf8_lossy(&input)), json!({"prop":"C20","opts":opts,"templ":tp,"input":String::from_utf8_lossy(&input),"mode":"replace","r":r}));
                    }
                }
            }
        }
    }
    // ---- 2. option precedence: every ordered subset of {replace, -n k, -L k}
    let mut optsets: Vec<Vec<Opt>> = vec![];
    for si in [0usize, 1, 4, 6, 7] {
        for k in [1usize, 2] {
            let items = vec![Opt::Replace(si), Opt::N(k), Opt::L(k)];
            // ordered subsets of size 2 and 3 that contain Replace
            for a in 0..3 {
                for b in 0..3 {
                    if a == b {
                        continue;
                    }
                    let two = vec![items[a].clone(), items[b].clone()];
                    if two.iter().any(|o| matches!(o, Opt::Replace(_))) {
                        optsets.push(two);
                    }
                    for c in 0..3 {
                        if c == a || c == b {
                            continue;
                        }
                        optsets.push(vec![items[a].clone(), items[b].clone(), items[c].clone()]);
                    }
                }
            }
        }
    }
    let plines: Vec<Vec<&str>> = vec![vec!["a b", "c"], vec!["a", "b", "c d"], vec!["x{}y"], vec![]];
    let ptempl: Vec<Vec<&str>> = vec![vec!["{}"], vec!["R", "x"], vec!["a{}b", "RR"]];
    for os in &optsets {
        for ll in &plines {
            for tp in &ptempl {
                if !ctx.next_mine() {
                    continue;
                }
                let mut opts: Vec<String> = vec![];
                let mut r = "{}";
                for o in os {
                    match o {
                        Opt::Replace(si) => {
                            opts.extend(sp[*si].0.iter().map(|s| s.to_string()));
                            r = sp[*si].1;
                        }
                        Opt::N(k) => opts.push(format!("-n{k}")),
                        Opt::L(k) => opts.push(format!("-L{k}")),
                    }
                }
                let input = input_of(ll, true);
                let got = exec(&file, &opts, tp, &input);
                ctx.rep.evaluations += 1;
                ctx.rep.nontrivial += 1;
                ctx.rep.count("precedence_cases", 1);
                // which option decides? the last one; but -n 1 does not conflict with replace
                let last = os.last().unwrap();
                let only_n1 = os.iter().all(|o| matches!(o, Opt::Replace(_) | Opt::N(1)));
                let verdict = if matches!(last, Opt::Replace(_)) || only_n1 {
                    judge_replace(&expected_replace(ll, tp, r), &got, "option order: replace decides")
                } else {
                    // normal batching by the last of -n/-L, default splitting, nothing replaced
                    let (n, l) = match last {
                        Opt::N(k) => (Some(*k), None),
                        Opt::L(k) => (None, Some(*k)),
                        _ => unreachable!(),
                    };
                    let toks = match tokenize(&input) {
                        Tokens::Ok(t) => t,
                        _ => continue,
                    };
                    let mut base = vec![b"cmd".to_vec()];
                    base.extend(tp.iter().map(|t| t.as_bytes().to_vec()));
                    let want = batch(&BatchCfg { max_args: n, max_lines: l, max_chars: None, exit_if_too_long: false, no_run_if_empty: false, base: base.clone() }, &toks);
                    let want_inv: Vec<Vec<Vec<u8>>> = want.batches.iter().map(|b| base.iter().cloned().chain(b.iter().cloned()).collect()).collect();
                    if got.code.is_err() {
                        Some((format!("C20 xargs panicked ({:?})", got.code), String::new()))
                    } else if got.inv != want_inv {
                        Some((
                            format!("C20 option given last (-{}) does not decide the mode", if n.is_some() { "n" } else { "L" }),
                            format!("expected {}\n actual   {}", show(&want_inv), show(&got.inv)),
                        ))
                    } else {
                        None
                    }
                };
                if let Some((sig, detail)) = verdict {
                    ctx.rep.violation(&sig, format!("xargs {:?} cmd {:?} < {:?}\n {detail}", opts, tp, String::from_utf8_lossy(&input)), json!({"prop":"C20","opts":opts,"templ":tp,"input":String::from_utf8_lossy(&input),"mode":"precedence"}));
                }
            }
        }
    }
    // lines that are not valid UTF-8 must be substituted byte for byte
    if ctx.shard == 0 {
        // (sequences of such lines: two different lines may have the same lossy rendering)
        let alpha: [&[u8]; 7] = [b"a\xffb", b"a\xfeb", b"\xc3", b"x\xf0\x9f", b"\xe9t\xe9", b"\xe8t\xe8", b"ab"];
        let mut seqs: Vec<Vec<&[u8]>> = vec![];
        for a in alpha {
            seqs.push(vec![a]);
            for b in alpha {
                seqs.push(vec![a, b]);
                for c in alpha {
                    seqs.push(vec![a, b, c]);
                }
            }
        }
        for lines in &seqs {
            for (opts, r) in [(vec!["-I".to_string(), "{}".to_string()], "{}"), (vec!["-i".to_string()], "{}"), (vec!["-I".to_string(), "R".to_string()], "R")] {
                for tp in [vec!["{}"], vec!["x{}y", "{}{}"], vec!["R", "aRb"]] {
                    if lines.len() == 3 && (r == "R") != (tp[0] == "R") {
                        continue;
                    }
                    let mut input = vec![];
                    let mut want = vec![];
                    for line in lines {
                        input.extend_from_slice(line);
                        input.push(b'\n');
                        let mut want_one = vec![b"cmd".to_vec()];
                        for t in &tp {
                            let parts: Vec<&str> = t.split(r).collect();
                            let mut a = vec![];
                            for (i, p) in parts.iter().enumerate() {
                                if i > 0 {
                                    a.extend_from_slice(line);
                                }
                                a.extend_from_slice(p.as_bytes());
                            }
                            want_one.push(a);
                        }
                        want.push(want_one);
                    }
                    let got = exec(&file, &opts, &tp, &input);
                    ctx.rep.evaluations += 1;
                    ctx.rep.nontrivial += 1;
                    ctx.rep.count("non_utf8_line_sequences", 1);
                    if got.inv != want || got.code != Ok(0) {
                        let same_lossy = show(&got.inv) == show(&want);
                        let first_bad = got.inv.iter().zip(&want).position(|(a, b)| a != b).unwrap_or(0);
                        ctx.rep.violation(
                            if first_bad > 0 {
                                "C20 a line that is not valid UTF-8 is substituted with the bytes of an earlier line"
                            } else if same_lossy {
                                "C20 a line that is not valid UTF-8 is not substituted byte for byte (lossy conversion)"
                            } else {
                                "C20 replacement text wrong for a line that is not valid UTF-8"
                            },
                            format!("xargs {:?} cmd {:?} < {:?}\n expected {:?}\n actual   {:?} status {:?}", opts, tp, input, want, got.inv, got.code),
                            json!({"prop":"C20","mode":"raw","opts":opts,"templ":tp,"lines_hex":lines.iter().map(|l| l.iter().map(|b| format!("{b:02x}")).collect::<String>()).collect::<Vec<_>>()}),
                        );
                    }
                }
            }
        }
    }
    // a line that is too long once substituted ends the run with status 1 — after every line before it
    // has had its run (in every spelling of the option), not instead of them
    if ctx.shard == 0 {
        for opts in [vec!["-I", "{}"], vec!["-i"], vec!["--replace"], vec!["-I{}"], vec!["--replace=R"]] {
            let r = if opts[0] == "--replace=R" { "R" } else { "{}" };
            let t1 = format!("x{r}");
            let t2 = format!("{r}{r}");
            let tp = vec![t1.as_str(), t2.as_str()];
            let mut o: Vec<String> = vec!["-s".into(), "40".into()];
            o.extend(opts.iter().map(|s| s.to_string()));
            let input = b"aa\nb b\nqqqqqqqqqqqqqqqqqqqq\nzz\n";
            let got = exec(&file, &o, &tp, input);
            ctx.rep.evaluations += 1;
            ctx.rep.nontrivial += 1;
            let want: Vec<Vec<Vec<u8>>> = vec![vec![b"cmd".to_vec(), b"xaa".to_vec(), b"aaaa".to_vec()], vec![b"cmd".to_vec(), b"xb b".to_vec(), b"b bb b".to_vec()]];
            if got.inv != want || got.code != Ok(1) {
                ctx.rep.violation(
                    "C20 a line too long after substitution: the lines before it are not all run (or the status is not 1)",
                    format!("xargs {:?} cmd {:?} < {:?}\n expected runs {} then status 1\n actual   {} status {:?} stderr {:?}", o, tp, String::from_utf8_lossy(input), show(&want), show(&got.inv), got.code, String::from_utf8_lossy(&got.err)),
                    json!({"prop":"C20","mode":"too_long_line"}),
                );
            }
        }
    }
    scale_slice(ctx);
    binary_slice(ctx);
    let _ = std::fs::remove_file(&file);
}

/// 600 lines of cycling lengths (1..40 bytes, inner blanks, é, some empty), with lines of 300, 1000,
/// 4095, 4096, 4097, 8191, 8192, 8193 and 20000 bytes among them, substituted into: one `{}`; one
/// argument holding `{}` 1..12 times between literal text; 20 arguments `{}`; an argument with 70000
/// bytes of literal text before and 40000 after `{}` (shorter lines only); R = `{}` and R = `%%`.
fn scale_slice(ctx: &mut Ctx) {
    let file = ctx.sbx.join(".mc-xin");
    let mut lines: Vec<String> = vec![];
    for i in 0..600usize {
        let len = match i {
            50 => 300,
            100 => 1000,
            150 => 4095,
            151 => 4096,
            152 => 4097,
            300 => 8191,
            301 => 8192,
            302 => 8193,
            450 => 20000,
            _ => (i * 7) % 41,
        };
        let mut l = String::new();
        for j in 0..len {
            l.push(match (i + j) % 29 {
                7 if j > 0 && j + 1 < len => ' ',
                11 => '\u{e9}',
                _ => (b'a' + (i % 26) as u8) as char,
            });
        }
        lines.push(l);
    }
    let short: Vec<String> = lines.iter().filter(|l| l.len() < 100).take(40).cloned().collect();
    let mut templs: Vec<(Vec<String>, bool)> = vec![(vec!["R".into()], false), (vec!["R".to_string(); 20], false)];
    for k in 1..=12usize {
        let mut t = String::from("<");
        for j in 0..k {
            t.push_str("R");
            t.push_str(&format!("{j}|"));
        }
        templs.push((vec!["pre".into(), t, "post".into()], false));
    }
    templs.push((vec![format!("{}R{}", "x".repeat(70000), "y".repeat(40000))], true));
    let mut job = 0u64;
    for (templ, short_only) in &templs {
        for r in ["{}", "%%"] {
            job += 1;
            if job % ctx.nshards != ctx.shard {
                continue;
            }
            // (the substituted command line must stay well below xargs' 128 KiB default budget)
            let occ: usize = templ.iter().map(|t| t.matches('R').count()).sum::<usize>().max(1);
            let ls: Vec<&str> = if *short_only { short.iter().map(|s| s.as_str()).collect() } else { lines.iter().filter(|l| l.len() * occ < 100_000).map(|s| s.as_str()).collect() };
            let tp_owned: Vec<String> = templ.iter().map(|t| t.replace('R', r)).collect();
            let tp: Vec<&str> = tp_owned.iter().map(|s| s.as_str()).collect();
            let input = input_of(&ls, true);
            let got = exec(&file, &["-I".to_string(), r.to_string()], &tp, &input);
            let want = expected_replace(&ls, &tp, r);
            ctx.rep.evaluations += 1;
            ctx.rep.nontrivial += 1;
            ctx.rep.count("scale_runs", 1);
            ctx.rep.count("scale_invocations_checked", want.len() as u64);
            if got.inv != want || got.code != Ok(0) {
                let first = got.inv.iter().zip(&want).position(|(a, w)| a != w).unwrap_or(got.inv.len().min(want.len()));
                let brief = |v: &[Vec<Vec<u8>>]| v.get(first).map(|inv| inv.iter().map(|a| { let s = String::from_utf8_lossy(a); if s.len() > 120 { format!("{}...({} bytes)", s.chars().take(120).collect::<String>(), a.len()) } else { s.to_string() } }).collect::<Vec<_>>());
                ctx.rep.violation(
                    "C20 replacement wrong on long input (many lines, long lines, many occurrences or long literal text)",
                    format!("xargs -I {r:?} cmd {:?} over {} lines: {} invocations (expected {}), status {:?}, stderr {:?}; first difference at invocation #{first}:\n expected {:?}\n actual   {:?}", tp.iter().map(|t| if t.len() > 60 { format!("{}...({} bytes)", &t[..60], t.len()) } else { t.to_string() }).collect::<Vec<_>>(), ls.len(), got.inv.len(), want.len(), got.code, String::from_utf8_lossy(&got.err).lines().last().unwrap_or(""), brief(&want), brief(&got.inv)),
                    json!({"prop":"C20","mode":"scale"}),
                );
            }
        }
    }
}

fn binary_slice(ctx: &mut Ctx) {
    use std::io::Write;
    let vrec = crate::engine::self_bin_dir().join("vrec");
    let log = ctx.sbx.join(".mc-vrec.log");
    let cases: Vec<(Vec<&str>, Vec<&str>, &str)> = vec![
        (vec!["-I", "{}"], vec!["a", "a b", "x{}y"], "{}"),
        (vec!["-i"], vec!["ab ", "", "c"], "{}"),
        (vec!["--replace=R"], vec!["R", "{}"], "R"),
        (vec!["-I", "%%"], vec![], "%%"),
        (vec!["-n2", "-I", "R"], vec!["a b", "c"], "R"),
    ];
    for (opts, lines, r) in cases {
        for tp in [vec!["{}"], vec!["a{}b", "RR", "x"], vec!["%%%%"]] {
            if !ctx.next_mine() {
                continue;
            }
            let _ = std::fs::remove_file(&log);
            let mut av: Vec<std::ffi::OsString> = opts.iter().map(|s| s.into()).collect();
            av.push(vrec.clone().into());
            av.push(log.clone().into());
            av.extend(tp.iter().map(|s| s.into()));
            let os: Vec<&std::ffi::OsStr> = av.iter().map(|s| s.as_os_str()).collect();
            let input = input_of(&lines, true);
            let (code, _o, err) = crate::xargsrun::run_xargs_bin(&os, &ctx.sbx, &[], &mut |si| {
                let _ = si.write_all(&input);
            });
            ctx.rep.evaluations += 1;
            let recs = crate::vreclog::read(&log).unwrap_or_default();
            let got: Vec<Vec<Vec<u8>>> = recs.into_iter().map(|r| r.args).collect();
            let want: Vec<Vec<Vec<u8>>> = expected_replace(&lines, &tp, r).into_iter().map(|v| v[1..].to_vec()).collect();
            if got != want || code != Ok(0) {
                ctx.rep.violation(
                    "C20 binary level: recorded invocations differ from the reference",
                    format!("xargs {:?} vrec LOG {:?} < {:?}: expected {} got {} status {:?} stderr {:?}", opts, tp, String::from_utf8_lossy(&input), show(&want), show(&got), code, String::from_utf8_lossy(&err)),
                    json!({"prop":"C20","binary":true}),
                );
            } else {
                ctx.rep.traces_validated += 1;
            }
        }
    }
    let _ = std::fs::remove_file(&log);
}

fn replay(case: &Value, ctx: &mut Ctx) -> Option<String> {
    if case["binary"] == true {
        println!("binary-level cases are replayed by re-running the check");
        return None;
    }
    if case["mode"] == "scale" {
        let (s0, n0) = (ctx.shard, ctx.nshards);
        ctx.shard = 0;
        ctx.nshards = 1;
        scale_slice(ctx);
        ctx.shard = s0;
        ctx.nshards = n0;
        return ctx.rep.violations.keys().next().cloned();
    }
    let file = ctx.sbx.join(".mc-xin");
    let opts: Vec<String> = case["opts"].as_array()?.iter().map(|v| v.as_str().unwrap_or("").to_string()).collect();
    let templ: Vec<String> = case["templ"].as_array()?.iter().map(|v| v.as_str().unwrap_or("").to_string()).collect();
    let tp: Vec<&str> = templ.iter().map(|s| s.as_str()).collect();
    if case["mode"] == "raw" {
        let unhex = |h: &str| -> Vec<u8> { (0..h.len() / 2).filter_map(|i| u8::from_str_radix(&h[2 * i..2 * i + 2], 16).ok()).collect() };
        let lines: Vec<Vec<u8>> = match case["lines_hex"].as_array() {
            Some(a) => a.iter().map(|v| unhex(v.as_str().unwrap_or(""))).collect(),
            None => vec![unhex(case["line_hex"].as_str()?)],
        };
        let r = if opts.iter().any(|o| o == "R") { "R" } else { "{}" };
        let mut input = vec![];
        let mut want = vec![];
        for line in &lines {
            input.extend_from_slice(line);
            input.push(b'\n');
            let mut one = vec![b"cmd".to_vec()];
            for t in &tp {
                one.push(t.split(r).enumerate().flat_map(|(i, p)| if i > 0 { [line.as_slice(), p.as_bytes()].concat() } else { p.as_bytes().to_vec() }).collect());
            }
            want.push(one);
        }
        let got = exec(&file, &opts, &tp, &input);
        println!("xargs {:?} cmd {:?} < {:?} -> {:?} status {:?}", opts, tp, input, got.inv, got.code);
        if got.inv != want || got.code != Ok(0) {
            let sig = "C20 replayed case (lines that are not valid UTF-8) still differs".to_string();
            ctx.rep.violation(&sig, format!("expected {want:?}"), case.clone());
            return Some(sig);
        }
        return None;
    }
    let input = case["input"].as_str()?.as_bytes().to_vec();
    let got = exec(&file, &opts, &tp, &input);
    println!("xargs {:?} cmd {:?} < {:?} -> {} status {:?}", opts, tp, String::from_utf8_lossy(&input), show(&got.inv), got.code);
    if case["mode"] == "replace" {
        let r = case["r"].as_str()?;
        let s = String::from_utf8_lossy(&input).to_string();
        let lines: Vec<&str> = s.split('\n').collect();
        let want = expected_replace(&lines, &tp, r);
        if let Some((sig, detail)) = judge_replace(&want, &got, "replay") {
            ctx.rep.violation(&sig, detail, case.clone());
            return Some(sig);
        }
    }
    None
}
