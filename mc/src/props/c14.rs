//! C14 numeric operands: N / +N / -N trichotomy and -size unit rounding — boundary grids of
//! measured values x operands x units x the three forms, every numeric primary, in-process.

use crate::engine::{Ctx, Prop, Spec, Tier};
use crate::findrun::default_now;
use crate::props::labelled::{self as lb, St, Test};
use serde_json::{json, Value};
use std::collections::{BTreeMap, BTreeSet};
use std::path::Path;
use std::time::{Duration, SystemTime, UNIX_EPOCH};

pub const PROP: Prop = Prop { id: "C14", spec, run, replay };

const UNITS: [(&str, u64); 7] = [("c", 1), ("w", 2), ("b", 512), ("", 512), ("k", 1 << 10), ("M", 1 << 20), ("G", 1 << 30)];

fn spec(t: Tier) -> Spec {
    Spec {
        id: "C14",
        level: "exploration",
        rule: format!(
            "sandbox of sparse files whose sizes are {{0,1,2,3}} and k*u-1, k*u, k*u+1 for u in {{2,512,2^10,2^20,2^30}}, k<={k}{big}; files with 1..4 hard links; files owned by ids {{0,1,54321,2^31,2^32-2}}; files whose a/m timestamps are k*P-1s, k*P-1ns, k*P, k*P+1ns, k*P+1s old (P in {{60,86400}}, k<={kt}) under an injected clock. For every numeric primary (-size x 7 unit spellings, -links, -inum, -uid, -gid, -atime/-ctime/-mtime, -amin/-cmin/-mmin) the operand list is {{m-1,m,m+1 : m a measured value present in the sandbox}} + {{0, 2^31, 2^63-1, 2^63, 2^64-1}} (+ zero-padded spellings, also to 25 and 40 digits), and for every (entry, N) the three forms N, +N, -N are evaluated by the real find in one comma-list run; each must equal (measured ==,>,< N) with measured = ceil(size/unit), st_nlink, st_ino, st_uid, st_gid, floor((now-timestamp)/P) computed from lstat() read back from the sandbox; trichotomy and monotonicity in N are also checked directly on the outputs. low-descriptor slice: 150 directories (one file each, all hard links to one inode, plus a link to it) walked by the binary under RLIMIT_NOFILE 64: for nine (primary, N) pairs the three forms partition the 451 entries; removed-entry slice: an entry removed by an earlier -exec rm in the same expression before the test looks at it: standard output is exactly the entries the test selects (the diagnostic belongs on standard error). The six time tests also run under -daystart (trichotomy and monotonicity only). A second directory holds entries that are not regular files (directory, fifo, links to a file and to a directory, dangling links whose own length is 1, 511..513, 1024, 1025, links whose contents are not valid UTF-8): -size (c, b, k), -links and -inum are judged on them with and without -L, against stat() resp. lstat(). evaluation = (entry, N, form); non-trivial = |measured-N| <= 1",
            k = t.pick(3, 4),
            big = " plus 2^31+-1, 2^32+-1, 5*2^30+1, 2^40+1, 2^62+1",
            kt = t.pick(2, 5)
        ),
        bound: json!({"units": UNITS.iter().map(|u| u.0).collect::<Vec<_>>(), "size_k_max": t.pick(3, 4), "time_k_max": t.pick(2, 5), "big_N": ["2^31", "2^63-1", "2^63", "2^64-1"]}),
        assumptions: vec![
            "conjunction slice: 40 -size operands (5 units x 8 numbers/forms) pairwise in one expression over 16 files with repeated lengths select the intersection of what each selects alone (binary)".into(),
            "operands >= 2^64 are outside the check (rejected by the code, which C11 judges)".into(),
            "ages are >= 0 (scope of the statement); tmpfs keeps nanosecond timestamps and sparse sizes".into(),
        ],
        shards: 0,
        wall_cap_s: t.pick(300, 1800),
    }
}

#[derive(Clone)]
struct Prim {
    name: &'static str,
    /// operand suffix (size unit)
    unit: &'static str,
    dir: &'static str,
    kind: MKind,
    /// "" or "-L": the record consulted is lstat() resp. stat() (lstat() for links that do not resolve)
    pre: &'static str,
}

#[derive(Clone, Copy, PartialEq)]
enum MKind {
    Size(u64),
    Links,
    Inum,
    Uid,
    Gid,
    /// (which timestamp: 0 a, 1 c, 2 m; period seconds)
    Age(u8, u64),
}

fn prims() -> Vec<Prim> {
    let mut v = vec![];
    for (u, bytes) in UNITS {
        v.push(Prim { name: "-size", unit: u, dir: "s", kind: MKind::Size(bytes), pre: "" });
    }
    v.push(Prim { name: "-links", unit: "", dir: "h", kind: MKind::Links, pre: "" });
    v.push(Prim { name: "-inum", unit: "", dir: "h", kind: MKind::Inum, pre: "" });
    v.push(Prim { name: "-uid", unit: "", dir: "o", kind: MKind::Uid, pre: "" });
    v.push(Prim { name: "-gid", unit: "", dir: "o", kind: MKind::Gid, pre: "" });
    for (n, w, p) in [("-atime", 0u8, 86400u64), ("-ctime", 1, 86400), ("-mtime", 2, 86400), ("-amin", 0, 60), ("-cmin", 1, 60), ("-mmin", 2, 60)] {
        v.push(Prim { name: n, unit: "", dir: if p == 60 { "tm" } else { "td" }, kind: MKind::Age(w, p), pre: "" });
    }
    // the time tests once more under -daystart: no reference value is computed (the statement does not
    // define the day's start), but exactly one of N, +N, -N holds for every file and every N, and +N / -N
    // are monotone in N
    for (n, w, p) in [("-atime", 0u8, 86400u64), ("-ctime", 1, 86400), ("-mtime", 2, 86400), ("-amin", 0, 60), ("-cmin", 1, 60), ("-mmin", 2, 60)] {
        v.push(Prim { name: n, unit: "", dir: if p == 60 { "tm" } else { "td" }, kind: MKind::Age(w, p), pre: "-daystart" });
    }
    // entries that are not regular files (k/: directory, fifo, links to a file / a directory, dangling
    // links whose own length sits on the 512 boundary), with and without -L
    for pre in ["", "-L"] {
        for (u, bytes) in [("c", 1u64), ("b", 512), ("k", 1 << 10)] {
            v.push(Prim { name: "-size", unit: u, dir: "k", kind: MKind::Size(bytes), pre });
        }
        v.push(Prim { name: "-links", unit: "", dir: "k", kind: MKind::Links, pre });
        v.push(Prim { name: "-inum", unit: "", dir: "k", kind: MKind::Inum, pre });
    }
    v
}

fn now_of() -> SystemTime {
    default_now() + Duration::new(0, 500_000_000)
}

fn measured(k: MKind, st: &St, now: SystemTime) -> Option<u64> {
    Some(match k {
        MKind::Size(u) => st.size.div_ceil(u),
        MKind::Links => st.nlink,
        MKind::Inum => st.ino,
        MKind::Uid => st.uid as u64,
        MKind::Gid => st.gid as u64,
        MKind::Age(w, p) => {
            let ts = match w {
                0 => st.atime,
                1 => st.ctime,
                _ => st.mtime,
            };
            let n = now.duration_since(UNIX_EPOCH).unwrap();
            let now_ns = n.as_secs() as i128 * 1_000_000_000 + n.subsec_nanos() as i128;
            let ts_ns = ts.0 as i128 * 1_000_000_000 + ts.1 as i128;
            let age = now_ns - ts_ns;
            if age < 0 {
                return None;
            }
            (age / (p as i128 * 1_000_000_000)) as u64
        }
    })
}

fn sizes(t: Tier) -> Vec<u64> {
    let mut s: BTreeSet<u64> = [0u64, 1, 2, 3].into_iter().collect();
    for u in [2u64, 512, 1 << 10, 1 << 20, 1 << 30] {
        for k in 1..=t.pick(3u64, 4) {
            s.extend([k * u - 1, k * u, k * u + 1]);
        }
    }
    {
        s.extend([(1u64 << 31) - 1, 1 << 31, (1 << 31) + 1, (1u64 << 32) - 1, 1 << 32, (1u64 << 32) + 1, 5 * (1u64 << 30) + 1, (1u64 << 40) + 1, (1u64 << 62) + 1]);
    }
    s.into_iter().collect()
}

fn build(ctx: &mut Ctx) -> Result<(), String> {
    let sbx = ctx.sbx.clone();
    crate::sandbox::clear_dir(&sbx);
    let e = |x: std::io::Error| x.to_string();
    std::fs::create_dir(sbx.join("s")).map_err(e)?;
    for z in sizes(ctx.tier) {
        let f = std::fs::File::create(sbx.join(format!("s/z{z}"))).map_err(e)?;
        if f.set_len(z).is_err() {
            drop(f);
            let _ = std::fs::remove_file(sbx.join(format!("s/z{z}")));
            ctx.rep.count("sizes_the_filesystem_refused", 1);
        }
    }
    std::fs::create_dir(sbx.join("h")).map_err(e)?;
    for (g, n) in [("a", 1), ("b", 2), ("c", 3), ("d", 4)] {
        let first = sbx.join(format!("h/{g}1"));
        std::fs::write(&first, b"x").map_err(e)?;
        for i in 2..=n {
            std::fs::hard_link(&first, sbx.join(format!("h/{g}{i}"))).map_err(e)?;
        }
    }
    std::fs::create_dir(sbx.join("h/sub")).map_err(e)?;
    std::fs::create_dir(sbx.join("h/sub/x")).map_err(e)?;
    std::fs::create_dir(sbx.join("k")).map_err(e)?;
    std::fs::create_dir(sbx.join("k/d")).map_err(e)?;
    std::fs::write(sbx.join("k/f1025"), vec![b'x'; 1025]).map_err(e)?;
    std::fs::hard_link(sbx.join("k/f1025"), sbx.join("k/f1025b")).map_err(e)?;
    std::os::unix::fs::symlink("f1025", sbx.join("k/lf")).map_err(e)?;
    std::os::unix::fs::symlink("d", sbx.join("k/ld")).map_err(e)?;
    for n in [1usize, 511, 512, 513, 1024, 1025] {
        // (components of at most 199 bytes: a longer one makes stat() fail with ENAMETOOLONG, which is
        // an error to report and not a dangling link)
        let target: String = (0..n).map(|i| if i % 200 == 199 { '/' } else { 'n' }).collect();
        std::os::unix::fs::symlink(target, sbx.join(format!("k/dang{n}"))).map_err(e)?;
    }
    // links whose contents are not valid UTF-8 (their size is the number of bytes of the contents)
    {
        use std::os::unix::ffi::OsStrExt;
        for (i, t) in [&b"a\xffb"[..], b"\x80\x80x", b"ab\xe2\x82", b"caf\xe9", b"\xff"].iter().enumerate() {
            std::os::unix::fs::symlink(std::ffi::OsStr::from_bytes(t), sbx.join(format!("k/lbad{i}"))).map_err(e)?;
        }
    }
    {
        let c = std::ffi::CString::new(sbx.join("k/fifo").to_str().unwrap()).unwrap();
        if unsafe { libc::mkfifo(c.as_ptr(), 0o644) } != 0 {
            return Err("mkfifo".into());
        }
    }
    std::fs::create_dir(sbx.join("o")).map_err(e)?;
    let ids: [u32; 5] = [0, 1, 54321, 1 << 31, u32::MAX - 1];
    for (i, u) in ids.iter().enumerate() {
        for (j, g) in ids.iter().enumerate() {
            if (i + j) % 2 == 0 || i == j {
                let p = sbx.join(format!("o/u{u}g{g}"));
                std::fs::write(&p, b"").map_err(e)?;
                lb::chown(&p, *u, *g)?;
            }
        }
    }
    // ages: a and m carry different ages so that consulting the wrong one changes the answer
    let now = now_of().duration_since(UNIX_EPOCH).unwrap();
    let now_ns = now.as_secs() as i128 * 1_000_000_000 + now.subsec_nanos() as i128;
    for (dir, p) in [("tm", 60i128), ("td", 86400)] {
        std::fs::create_dir(sbx.join(dir)).map_err(e)?;
        let kmax = ctx.tier.pick(2, 5);
        let mut ages: Vec<i128> = vec![0, 1, 999_999_999];
        for k in 0..=kmax {
            let b = k as i128 * p * 1_000_000_000;
            for d in [-1_000_000_000i128, -1, 0, 1, 1_000_000_000] {
                if b + d >= 0 {
                    ages.push(b + d);
                }
            }
        }
        ages.sort();
        ages.dedup();
        let n = ages.len();
        for (i, age) in ages.iter().enumerate() {
            let other = ages[(i + n / 2) % n];
            let path = sbx.join(format!("{dir}/f{i}"));
            std::fs::write(&path, b"").map_err(e)?;
            let split = |x: i128| ((x.div_euclid(1_000_000_000)) as i64, (x.rem_euclid(1_000_000_000)) as i64);
            lb::set_times(&path, split(now_ns - other), split(now_ns - age))?;
        }
    }
    Ok(())
}

/// (value, spelling) operands for one primitive given the measured values present
fn operands(ms: &BTreeSet<u64>, tier: Tier) -> Vec<(u64, String)> {
    let mut vals: BTreeSet<u64> = [0u64, 1u64 << 31, (1u64 << 63) - 1, 1u64 << 63, u64::MAX].into_iter().collect();
    for &m in ms {
        vals.insert(m);
        vals.insert(m.saturating_sub(1));
        vals.insert(m.saturating_add(1));
    }
    let mut out: Vec<(u64, String)> = vals.iter().map(|v| (*v, v.to_string())).collect();
    // zero-padded spellings of a few values
    for v in vals.iter().take(tier.pick(3, 8)) {
        out.push((*v, format!("00{v}")));
    }
    // ... and padded far beyond the 20 digits of 2^64-1
    for v in vals.iter().take(3).chain(vals.iter().rev().take(1)) {
        out.push((*v, format!("{v:025}")));
        out.push((*v, format!("{v:040}")));
    }
    out
}

struct Job {
    prim: Prim,
    /// index of the primitive: all chunks of one primitive go to the same shard, because the operand
    /// list is derived from values measured in the shard's own sandbox (ctimes differ between shards)
    prim_index: usize,
    ops: Vec<(u64, String)>,
}

fn entries_of(dir: &str, pre: &str) -> Vec<(String, St)> {
    let follow = if pre == "-L" { 'L' } else { 'P' };
    lb::list_tree(dir).into_iter().filter(|(_, d)| *d >= 1).filter_map(|(p, d)| lb::record(Path::new(&p), d, follow).map(|s| (p, s))).collect()
}

fn jobs(tier: Tier) -> Vec<Job> {
    let mut out = vec![];
    for (prim_index, prim) in prims().into_iter().enumerate() {
        let ents = entries_of(prim.dir, prim.pre);
        let ms: BTreeSet<u64> = ents.iter().filter_map(|(_, s)| measured(prim.kind, s, now_of())).collect();
        let ops = operands(&ms, tier);
        for chunk in ops.chunks(24) {
            out.push(Job { prim: prim.clone(), prim_index, ops: chunk.to_vec() });
        }
    }
    out
}

fn tests_for(job: &Job) -> Vec<Test> {
    let mut v = vec![];
    for (_, sp) in &job.ops {
        for form in ["", "+", "-"] {
            v.push(vec![job.prim.name.to_string(), format!("{form}{sp}{}", job.prim.unit)]);
        }
    }
    v
}

fn rel(m: u64, n: u64) -> &'static str {
    match m.cmp(&n) {
        std::cmp::Ordering::Less => "measured<N",
        std::cmp::Ordering::Equal => "measured=N",
        std::cmp::Ordering::Greater => "measured>N",
    }
}

/// Returns violations (sig, detail) for one job.
fn run_job(ctx: &mut Ctx, job: &Job) -> Vec<(String, String, Value)> {
    let mut bad = vec![];
    let tests = tests_for(job);
    let now = now_of();
    let ents = entries_of(job.prim.dir, job.prim.pre);
    let pname = format!("{}{}{}", job.prim.name, if job.prim.name == "-size" { format!(" unit '{}'", job.prim.unit) } else { String::new() }, if job.prim.dir == "k" { format!(" on entries that are not regular files{}", if job.prim.pre.is_empty() { "" } else { " under -L" }) } else if job.prim.pre == "-daystart" { " under -daystart".to_string() } else { String::new() });
    let case = |tst: &Test, path: &str| json!({"prop":"C14","dir": job.prim.dir, "test": tst, "path": path, "prim": job.prim.name, "unit": job.prim.unit, "pre": job.prim.pre});
    let daystart = job.prim.pre == "-daystart";
    let pre: Vec<&str> = if job.prim.pre.is_empty() || daystart { vec![] } else { vec![job.prim.pre] };
    let globals: &[&str] = if daystart { &["-mindepth", "1", "-daystart"] } else { &["-mindepth", "1"] };
    let sel = match lb::run_labelled(&pre, &[job.prim.dir], globals, &tests, now) {
        Ok(s) => s,
        Err((why, out, argv)) => {
            let sig = if out.panicked() { format!("C14 panic in {pname}") } else { format!("C14 {pname}: output not attributable") };
            bad.push((sig, format!("{why}\nfind {:?}\n{}", argv, out.brief()), json!({"prop":"C14","argv":argv})));
            return bad;
        }
    };
    if !matches!(job.prim.kind, MKind::Age(..)) && job.ops.len() % 5 == 4 {
        match lb::cross_check(&sel) {
            Ok(()) => ctx.rep.traces_validated += 1,
            Err(e) => ctx.rep.machinery(e),
        }
    }
    if sel.out.code != Ok(0) {
        bad.push((
            format!("C14 {pname}: valid operand rejected or non-zero status"),
            format!("find {:?}\n{}", sel.argv, sel.out.brief()),
            json!({"prop":"C14","argv":sel.argv}),
        ));
        return bad;
    }
    for (path, st) in &ents {
        let m = match measured(job.prim.kind, st, now) {
            Some(m) => m,
            None if daystart => 0,
            None => continue,
        };
        for (oi, (n, sp)) in job.ops.iter().enumerate() {
            let got: Vec<bool> = (0..3).map(|f| sel.sel[oi * 3 + f].contains(path)).collect();
            // (under -daystart no reference value: the three answers are only checked against each other)
            let want = if daystart { [got[0], got[1], got[2]] } else { [m == *n, m > *n, m < *n] };
            ctx.rep.evaluations += 3;
            if m.abs_diff(*n) <= 1 {
                ctx.rep.nontrivial += 3;
            }
            ctx.rep.class(&format!("{} {} sel={}{}{}", job.prim.name, rel(m, *n), got[0] as u8, got[1] as u8, got[2] as u8));
            let bigtag = if *n >= (1u64 << 63) { " (N>=2^63)" } else { "" };
            for f in 0..3 {
                if got[f] != want[f] {
                    let form = ["N", "+N", "-N"][f];
                    bad.push((
                        format!("C14 {pname} {form} {} when {}{bigtag}", if got[f] { "true" } else { "false" }, rel(m, *n)),
                        format!("{path}: measured value {m} (size {} nlink {} ino {} uid {} gid {}), operand {:?}: find says {}, {} N requires {}", st.size, st.nlink, st.ino, st.uid, st.gid, tests[oi * 3 + f][1], got[f], form, want[f]),
                        case(&tests[oi * 3 + f], path),
                    ));
                }
            }
            if got.iter().filter(|b| **b).count() != 1 {
                bad.push((
                    format!("C14 {pname} trichotomy broken ({} of N,+N,-N true){bigtag}", got.iter().filter(|b| **b).count()),
                    format!("{path}: operand {sp}{}: N={} +N={} -N={} (measured {m})", job.prim.unit, got[0], got[1], got[2]),
                    case(&tests[oi * 3], path),
                ));
            }
        }
        // monotonicity inside this chunk: +N true => +N' true for N' < N ; -N true => -N' true for N' > N
        let mut by_n: BTreeMap<u64, (bool, bool)> = BTreeMap::new();
        for (oi, (n, _)) in job.ops.iter().enumerate() {
            by_n.insert(*n, (sel.sel[oi * 3 + 1].contains(path), sel.sel[oi * 3 + 2].contains(path)));
        }
        let v: Vec<(u64, (bool, bool))> = by_n.into_iter().collect();
        for w in v.windows(2) {
            if w[1].1 .0 && !w[0].1 .0 {
                bad.push((format!("C14 {pname} +N not monotone in N"), format!("{path}: +{} true but +{} false", w[1].0, w[0].0), case(&vec![job.prim.name.into(), format!("+{}{}", w[1].0, job.prim.unit)], path)));
            }
            if w[0].1 .1 && !w[1].1 .1 {
                bad.push((format!("C14 {pname} -N not monotone in N"), format!("{path}: -{} true but -{} false", w[0].0, w[1].0), case(&vec![job.prim.name.into(), format!("-{}{}", w[0].0, job.prim.unit)], path)));
            }
        }
    }
    if ctx.rep.samples.len() < 4 {
        ctx.rep.sample(json!({"find": sel.argv.iter().take(14).collect::<Vec<_>>(), "entries": ents.iter().take(5).map(|e| &e.0).collect::<Vec<_>>(), "operands": job.ops.iter().map(|o| &o.1).collect::<Vec<_>>()}));
    }
    bad
}

/// 150 directories with 64 file descriptors: for -size, -links, -uid and -mmin exactly one of N, +N, -N
/// selects each of the 451 entries (the binary, real clock; N far from every measured value for -mmin).
fn low_descriptor_slice(ctx: &mut Ctx) {
    use crate::props::lowfd;
    let _ = lowfd::build(ctx);
    let total = 1 + 3 * lowfd::NDIRS;
    for (prim, n) in [("-size", "1c"), ("-size", "0"), ("-links", "150"), ("-links", "1"), ("-uid", "0"), ("-gid", "7"), ("-mmin", "100000"), ("-mtime", "0"), ("-inum", "1")] {
        let mut counts = vec![];
        let mut bad = None;
        for form in ["", "+", "-"] {
            let op = format!("{form}{n}");
            let args = ["lf", prim, op.as_str()];
            let o = lowfd::find(ctx, &args, 64, vec![]);
            if o.died() || o.code != Some(0) {
                bad = Some(format!("find {:?}: status {:?}; stderr {:?}", args, o.code, String::from_utf8_lossy(&o.err).lines().take(2).collect::<Vec<_>>()));
            }
            counts.push(lowfd::lines(&o.out).len());
        }
        ctx.rep.evaluations += 3;
        ctx.rep.nontrivial += 3;
        ctx.rep.count("low_descriptor_limit_cases", 1);
        if bad.is_some() || counts.iter().sum::<usize>() != total {
            ctx.rep.violation(
                &format!("C14 {prim} over 150 directories with 64 file descriptors: the three forms do not partition the entries"),
                format!("find lf {prim} N/+N/-N with N={n} under RLIMIT_NOFILE=64: {:?} entries selected (sum must be {total}); {}", counts, bad.unwrap_or_default()),
                json!({"prop":"C14","low_descriptor":true}),
            );
        }
    }
    lowfd::remove(ctx);
}

/// An entry removed by an earlier action before the test looks at it: the diagnostic goes to standard
/// error, standard output lists exactly the entries the test selects.
fn removed_entry_slice(ctx: &mut Ctx) {
    let cases: Vec<(Vec<&str>, bool, Vec<&str>)> = vec![(vec!["-size", "-1000k"], false, vec!["ec/d", "ec/d/keep"]), (vec!["-links", "-100"], false, vec!["ec/d", "ec/d/keep"]), (vec!["-mmin", "-99999999"], false, vec!["ec/d", "ec/d/keep"]), (vec!["-mtime", "-99999"], true, vec!["ec/d", "ec/d/keep"]), (vec!["-uid", "-1"], false, vec!["ec/d", "ec/d/keep"]), (vec!["-inum", "+0"], false, vec!["ec/d", "ec/d/keep"])];
    for (test, victim_is_dir, expect) in cases {
        ctx.rep.evaluations += 1;
        ctx.rep.nontrivial += 1;
        ctx.rep.count("removed_entry_cases", 1);
        if let Err(d) = crate::props::labelled::removed_entry_case(&ctx.sbx.clone(), &test, victim_is_dir, &expect) {
            ctx.rep.violation(&format!("C14 {} on an entry that was removed just before: standard output is not exactly the selected entries (a diagnostic belongs on standard error)", test[0]), d, json!({"prop":"C14","removed_entry":true}));
        }
    }
}

/// Two -size tests with (possibly) different units in one expression, on files several of which have
/// the same length: the conjunction selects exactly the intersection of what each test selects alone
/// (each test is a function of the entry and its own operand only — nothing carried from test to test
/// or from entry to entry). The single tests themselves are decided against the model by the main grid.
fn conjunction_slice(ctx: &mut Ctx) {
    use std::ffi::OsStr;
    let sbx = ctx.sbx.clone();
    let dir = sbx.join("cj");
    let _ = std::fs::remove_dir_all(&dir);
    std::fs::create_dir_all(&dir).unwrap();
    for (i, sz) in [0u64, 1, 1, 2, 511, 512, 512, 513, 1023, 1024, 1025, 5000, 5000, 1 << 20, (1 << 20) + 1, 5 << 20].iter().enumerate() {
        let f = std::fs::File::create(dir.join(format!("f{i:02}"))).unwrap();
        f.set_len(*sz).unwrap();
    }
    let find = crate::binrun::repo_bin("find");
    let run = |tests: &[&str]| -> Option<BTreeSet<String>> {
        let mut a: Vec<&OsStr> = vec![OsStr::new("cj"), OsStr::new("-type"), OsStr::new("f")];
        for t in tests {
            a.push(OsStr::new("-size"));
            a.push(OsStr::new(t));
        }
        let o = crate::binrun::run(&find, &a, &sbx, &crate::binrun::Opts::default());
        if o.code != Some(0) {
            return None;
        }
        Some(String::from_utf8_lossy(&o.out).lines().map(|s| s.to_string()).collect())
    };
    let mut ops: Vec<String> = vec![];
    for u in ["c", "w", "b", "k", "M"] {
        for n in ["1", "+1", "-2", "5", "+0", "5000", "-5001", "10"] {
            ops.push(format!("{n}{u}"));
        }
    }
    let singles: Vec<Option<BTreeSet<String>>> = ops.iter().map(|o| run(&[o])).collect();
    for (i, a) in ops.iter().enumerate() {
        for (j, b) in ops.iter().enumerate() {
            let (Some(sa), Some(sb)) = (&singles[i], &singles[j]) else {
                ctx.rep.machinery(format!("C14 conjunction slice: find -size {a} / {b} alone failed"));
                return;
            };
            let want: BTreeSet<String> = sa.intersection(sb).cloned().collect();
            let got = run(&[a, b]);
            ctx.rep.evaluations += 1;
            if !want.is_empty() && want.len() < 16 {
                ctx.rep.nontrivial += 1;
            }
            ctx.rep.count("conjunction_cases", 1);
            if got.as_ref() != Some(&want) {
                ctx.rep.violation(
                    "C14 two -size tests in one expression do not select the intersection of what each selects alone",
                    format!("find cj -type f -size {a} -size {b}: expected {:?}, got {:?}", want, got),
                    json!({"prop":"C14","conjunction":[a, b]}),
                );
                let _ = std::fs::remove_dir_all(&dir);
                return;
            }
        }
    }
    let _ = std::fs::remove_dir_all(&dir);
}

fn run(ctx: &mut Ctx) {
    if ctx.shard == 3 % ctx.nshards {
        low_descriptor_slice(ctx);
    }
    if ctx.shard == 8 % ctx.nshards {
        removed_entry_slice(ctx);
    }
    if ctx.shard == 5 % ctx.nshards {
        conjunction_slice(ctx);
    }
    if let Err(e) = build(ctx) {
        ctx.rep.machinery(format!("sandbox: {e}"));
        return;
    }
    let js = jobs(ctx.tier);
    ctx.rep.count("find_runs_planned_all_shards", js.len() as u64);
    for (i, job) in js.iter().enumerate() {
        if !ctx.mine(job.prim_index as u64) {
            continue;
        }
        ctx.progress(i as u64);
        let bad = run_job(ctx, job);
        if !bad.is_empty() {
            // determinism: same verdicts on a second run
            let again: BTreeSet<String> = run_job(ctx, job).into_iter().map(|b| b.0).collect();
            for (sig, detail, case) in bad {
                if again.contains(&sig) {
                    ctx.rep.violation(&sig, detail, case);
                } else {
                    ctx.rep.machinery(format!("nondeterministic verdict: {sig}"));
                }
            }
        }
    }
}

fn replay(case: &Value, ctx: &mut Ctx) -> Option<String> {
    if case["removed_entry"] == true {
        removed_entry_slice(ctx);
        return ctx.rep.violations.keys().next().cloned();
    }
    if case["low_descriptor"] == true {
        low_descriptor_slice(ctx);
        return ctx.rep.violations.keys().next().cloned();
    }
    ctx.tier = Tier::Thorough;
    build(ctx).ok()?;
    let s = |k: &str| case[k].as_str().unwrap_or("").to_string();
    let tst: Test = case["test"].as_array()?.iter().map(|v| v.as_str().unwrap_or("").to_string()).collect();
    let prim = prims().into_iter().find(|p| p.name == s("prim") && p.unit == s("unit") && p.dir == s("dir") && p.pre == s("pre"))?;
    let op = tst.get(1)?.clone();
    let body = op.trim_start_matches(['+', '-']);
    let digits: String = body.chars().take_while(|c| c.is_ascii_digit()).collect();
    let n: u64 = digits.parse().ok()?;
    let form = if op.starts_with('+') { 1 } else if op.starts_with('-') { 2 } else { 0 };
    let prev: Vec<&str> = if prim.pre.is_empty() { vec![] } else { vec![prim.pre] };
    let sel = lb::run_labelled(&prev, &[&s("dir")], &["-mindepth", "1"], &[tst.clone()], now_of()).ok()?;
    let path = s("path");
    let st = lb::record(Path::new(&path), 1, if prim.pre == "-L" { 'L' } else { 'P' })?;
    let m = measured(prim.kind, &st, now_of())?;
    let want = [m == n, m > n, m < n][form];
    let got = sel.sel[0].contains(&path);
    if got != want {
        let sig = "C14 replayed case still differs".to_string();
        ctx.rep.violation(&sig, format!("find {:?}: {path} measured {m}: selected={got}, required {want}", sel.argv), case.clone());
        Some(sig)
    } else {
        None
    }
}
