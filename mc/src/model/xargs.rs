//! Reference models for xargs, written from the property statements (C04, C05, C19, C20).

#[derive(Clone, Copy, Debug, PartialEq, Eq, Hash)]
pub enum Term {
    /// ended by a newline: the argument ends an input line
    Hard,
    /// ended by a blank (the line continues)
    Soft,
    /// ended by end of input
    Eof,
}

#[derive(Clone, Debug, PartialEq, Eq)]
pub enum Tokens {
    Ok(Vec<(Vec<u8>, Term)>),
    UnterminatedQuote,
    /// the statement is silent (lone trailing backslash, newline inside quotes, \r \f \v)
    Unjudged(&'static str),
}

/// Default-mode tokenizer: split at unquoted blanks and newlines; '...' and "..." literal;
/// backslash quotes the next character; a token is a maximal run of items.
pub fn tokenize(input: &[u8]) -> Tokens {
    let mut out = vec![];
    let mut cur: Vec<u8> = vec![];
    let mut started = false;
    let mut i = 0;
    while i < input.len() {
        let c = input[i];
        match c {
            b'\'' | b'"' => {
                started = true;
                let mut j = i + 1;
                loop {
                    if j >= input.len() {
                        return Tokens::UnterminatedQuote;
                    }
                    if input[j] == c {
                        break;
                    }
                    if input[j] == b'\n' {
                        return Tokens::Unjudged("newline inside quotes");
                    }
                    cur.push(input[j]);
                    j += 1;
                }
                i = j + 1;
            }
            b'\\' => {
                if i + 1 >= input.len() {
                    return Tokens::Unjudged("lone trailing backslash");
                }
                started = true;
                cur.push(input[i + 1]);
                i += 2;
            }
            b' ' | b'\t' | b'\n' => {
                if started {
                    out.push((std::mem::take(&mut cur), if c == b'\n' { Term::Hard } else { Term::Soft }));
                    started = false;
                }
                i += 1;
            }
            b'\r' | 0x0b | 0x0c => return Tokens::Unjudged("CR/VT/FF separators"),
            _ => {
                started = true;
                cur.push(c);
                i += 1;
            }
        }
    }
    if started {
        out.push((cur, Term::Eof));
    }
    Tokens::Ok(out)
}

/// -0 / -d C: split only at the delimiter, no quote or backslash processing. Empty fields may
/// be passed (GNU) or skipped (the mechanism the anchor names): both are accepted, so the
/// reference returns the non-empty fields and the caller filters empties out of the actual list.
pub fn split_delim(input: &[u8], d: u8) -> Vec<Vec<u8>> {
    input.split(|&b| b == d).filter(|f| !f.is_empty()).map(|f| f.to_vec()).collect()
}

// ---------------------------------------------------------------------------------------
// batching (C04)
// ---------------------------------------------------------------------------------------

#[derive(Clone, Debug)]
pub struct BatchCfg {
    pub max_args: Option<usize>,
    pub max_lines: Option<usize>,
    /// -s value (bytes, command + initial args + appended args, +1 each)
    pub max_chars: Option<usize>,
    pub exit_if_too_long: bool,
    pub no_run_if_empty: bool,
    /// command and initial arguments
    pub base: Vec<Vec<u8>>,
}

#[derive(Clone, Debug, PartialEq, Eq)]
pub struct Batches {
    pub batches: Vec<Vec<Vec<u8>>>,
    /// Some(reason) if the run must end with exit status 1 and a diagnostic after (a prefix of) the batches
    pub fatal: Option<&'static str>,
}

fn cost(a: &[u8]) -> usize {
    a.len() + 1
}

/// Greedy reference batcher. Lossless + every limit respected + maximal determine the batches.
/// Lines: an argument with Term::Hard ends an input line; a batch may draw from at most
/// max_lines lines.
pub fn batch(cfg: &BatchCfg, args: &[(Vec<u8>, Term)]) -> Batches {
    let base_cost: usize = cfg.base.iter().map(|a| cost(a)).sum();
    let mut out = Batches { batches: vec![], fatal: None };
    let mut cur: Vec<Vec<u8>> = vec![];
    let mut cur_cost = base_cost;
    let mut cur_lines_done = 0usize; // completed lines in the current batch
    let limited = cfg.max_args.is_some() || cfg.max_lines.is_some();
    for (a, term) in args {
        let fits_n = cfg.max_args.map_or(true, |n| cur.len() < n);
        let fits_l = cfg.max_lines.map_or(true, |l| cur_lines_done < l);
        let fits_s = cfg.max_chars.map_or(true, |s| cur_cost + cost(a) <= s);
        if !(fits_n && fits_l && fits_s) {
            if !fits_s && fits_n && fits_l && cfg.exit_if_too_long && limited {
                // -x: an -s overflow while -n/-L is in force ends the run
                out.fatal = Some("-x: size limit hit before -n/-L was satisfied");
                return out;
            }
            // (the batch pending at a fatal point is not listed: running it first or
            // stopping at once are both accepted by the caller)
            if cfg.max_chars.is_some_and(|s| base_cost + cost(a) > s) {
                out.fatal = Some("argument does not fit in an otherwise empty invocation");
                return out;
            }
            if !cur.is_empty() {
                out.batches.push(std::mem::take(&mut cur));
            }
            cur_cost = base_cost;
            cur_lines_done = 0;
        }
        cur_cost += cost(a);
        cur.push(a.clone());
        if *term == Term::Hard {
            cur_lines_done += 1;
        }
    }
    if !cur.is_empty() {
        out.batches.push(cur);
    } else if args.is_empty() && !cfg.no_run_if_empty {
        out.batches.push(vec![]);
    }
    out
}

// ---------------------------------------------------------------------------------------
// exit status (C19)
// ---------------------------------------------------------------------------------------

#[derive(Clone, Copy, Debug, PartialEq, Eq, Hash)]
pub enum Child {
    Exit(i32),
    Signal(i32),
    NotFound,
    CannotRun,
}

/// (expected exit status, number of invocations that are started) for a scripted outcome list,
/// or None where the statement is silent (child status 126..254).
pub fn exit_status(outcomes: &[Child]) -> Option<(i32, usize)> {
    let mut failed = false;
    for (i, o) in outcomes.iter().enumerate() {
        match o {
            Child::Exit(0) => {}
            Child::Exit(c) if (1..=125).contains(c) => failed = true,
            Child::Exit(255) => return Some((124, i + 1)),
            Child::Exit(_) => return None,
            Child::Signal(_) => return Some((125, i + 1)),
            Child::CannotRun => return Some((126, i + 1)),
            Child::NotFound => return Some((127, i + 1)),
        }
    }
    Some((if failed { 123 } else { 0 }, outcomes.len()))
}
