//! C08 -exec/-execdir ... {} + — (i) small trees x expression forms x starting points, in-process
//! with the recorder child; (ii) forced batching: thousands of long paths under a shrunk
//! RLIMIT_STACK through the find binary; (iii) every subset of invocations failing.

use crate::binrun;
use crate::engine::{Ctx, Prop, Spec, Tier};
use crate::findrun::{run_find, FindOut};
use crate::model::tree::{self, Follow, Fs, Leaf, Shape, WalkCfg, WalkNotes, K};
use crate::vreclog::{self, Rec};
use serde_json::{json, Value};
use std::ffi::OsStr;
use std::path::Path;

pub const PROP: Prop = Prop { id: "C08", spec, run, replay };

const FORMS: [&str; 10] = ["alone", "after-name", "then-quit", "quit-or-action", "two-actions", "under-not", "alone-mindepth1", "alone-mindepth2", "under-not-word", "under-not-word-group"];
const ROOTS: [&str; 4] = ["r", "./r", ".", "ABS"];

fn spec(t: Tier) -> Spec {
    Spec {
        id: "C08",
        level: "fault_enumeration",
        rule: format!("(i) every ordered forest of files and directories with <= {} nodes as r/ x expression forms {:?} x -exec/-execdir x starting points r, ./r, ., absolute (and / with -maxdepth 0): the recorder child logs argv and cwd of every invocation; the concatenation of the appended paths over all invocations must be the reference visit order of the entries on which the action is reached, each exactly once, after the fixed arguments; with -execdir each invocation holds entries of one directory only, each as ./basename, with that directory as cwd; a following labelled -printf fires for every reached entry (action true); every pending batch has run at exit, also after -quit; exit 0. (ii) forced batching through the find binary: directories of {} files with 1-, 100- and 250-byte names under RLIMIT_STACK 256 KiB / 8 MiB / unlimited (several invocations): no invocation is refused by the kernel, the paths arrive once each in order (verified by count + rolling hash per invocation, and with full argv+cwd for the -execdir case), >= 2 invocations observed. (iii) faults: every subset of the invocations (up to {} -execdir invocations, one per directory visit) exiting 1, and a command that cannot be started: all invocations still run, exit status != 0 iff some invocation failed. evaluation = one invocation (i, ii) or one fault placement (iii) checked; low-descriptor slice: 150 directories (one file each, all hard links to one inode, plus a link to it) walked by the binary under RLIMIT_NOFILE 64: -exec/-execdir ... {{}} + deliver every file from the right directory; find's own output unwritable (/dev/full) and pending (-printf without newline, -print0, -print) when a batch runs, with and without -quit: every pending invocation still runs with every path; several starting points with a -quit reached before the last one (three orders, succeeding and failing command): exactly the paths up to the -quit are delivered; -execdir ./tool {{}} + on five directories of which only the 1st, 3rd and 5th hold ./tool: these three get their invocation (./NAME, right directory), every file is true, status non-zero; non-trivial = run with more than one invocation or a fault", t.pick(4, 5), FORMS, t.pick("400 and 3000", "400, 3000 and 40000"), t.pick(5, 7)),
        bound: json!({"max_nodes": t.pick(4, 5), "forms": FORMS, "roots": ["r","./r",".","absolute","/ -maxdepth 0"], "stack_limits": ["256KiB","8MiB","unlimited"]}),
        assumptions: vec!["-sorted pins the visit order; tmpfs; the recorder is a real child process".into(), "for the starting point / only 'ran exactly once with one path, exit 0' is judged".into()],
        shards: 0,
        wall_cap_s: t.pick(300, 3600),
    }
}

fn vrec() -> String {
    crate::engine::self_bin_dir().join("vrec").to_string_lossy().to_string()
}

fn c08_fs(forest: &[Shape]) -> Fs {
    let mut fs = Fs::new();
    let r = fs.add(0, "r", K::Dir);
    tree::instantiate(&mut fs, r, forest, "../");
    fs
}

struct Reached {
    /// path as find prints it
    path: String,
    /// absolute directory that must be the cwd for -execdir, and "./basename"
    dir: String,
    base: String,
}

/// reference: entries on which the action is reached, in order
fn reached(fs: &Fs, root: &str, form: &str, w: &str) -> Vec<Reached> {
    let mindepth = match form {
        "alone-mindepth1" => 1,
        "alone-mindepth2" => 2,
        _ => 0,
    };
    let cfg = WalkCfg { follow: Follow::P, mindepth, maxdepth: usize::MAX, depth_first: false };
    let mut notes = WalkNotes::default();
    let real_root = if root == "ABS" { format!("{w}/r") } else { root.to_string() };
    // abstract fs: cwd is node 0 (= w); an absolute root is walked as "r" and re-prefixed
    let walk_root = if root == "ABS" { "r" } else { root };
    let mut out = vec![];
    let mut quit = false;
    tree::walk(fs, 0, walk_root, &cfg, &mut notes, &mut |v| {
        let path = if root == "ABS" { format!("{w}/{}", v.path) } else { v.path.clone() };
        let name = if v.depth == 0 { real_root.rsplit('/').next().unwrap_or("").to_string() } else { fs.nodes[v.node].name.clone() };
        let is_b = name == "b";
        let mut hit = match form {
            "after-name" => name == "a",
            _ => true,
        };
        if form == "quit-or-action" && is_b {
            hit = false;
            quit = true;
        }
        if hit {
            let (dir, base) = match path.rfind('/') {
                Some(i) => (path[..i].to_string(), path[i + 1..].to_string()),
                None => (String::new(), path.clone()),
            };
            // "." as a starting point: basename is "."
            let absdir = if dir.starts_with('/') {
                dir.clone()
            } else if dir.is_empty() {
                w.to_string()
            } else {
                format!("{w}/{dir}")
            };
            out.push(Reached { path: path.clone(), dir: absdir, base });
        }
        if form == "then-quit" && is_b {
            quit = true;
        }
        tree::Decision { prune: false, quit }
    });
    out
}

fn canon(p: &str) -> String {
    // normalise "/x/./y" and trailing "/." for cwd comparison
    let mut parts: Vec<&str> = vec![];
    for c in p.split('/') {
        if c.is_empty() || c == "." {
            continue;
        }
        parts.push(c);
    }
    format!("/{}", parts.join("/"))
}

fn lossy(b: &[u8]) -> String {
    String::from_utf8_lossy(b).to_string()
}

/// Compare recorded invocations with the reached list. Returns a violation (kind, detail).
fn compare(recs: &[Rec], fixed: &[&str], want: &[Reached], execdir: bool, w: &str) -> Option<(String, String)> {
    let mut flat: Vec<(String, String)> = vec![]; // (cwd, arg)
    for (k, r) in recs.iter().enumerate() {
        let args: Vec<String> = r.args.iter().map(|a| lossy(a)).collect();
        if args.len() < fixed.len() || args[..fixed.len()].iter().map(|s| s.as_str()).ne(fixed.iter().copied()) {
            return Some(("fixed arguments altered or not first".into(), format!("invocation #{k}: argv {:?}, fixed part {:?}", args, fixed)));
        }
        let appended = &args[fixed.len()..];
        let cwd = canon(&lossy(&r.cwd));
        if execdir {
            for a in appended {
                if !a.starts_with("./") || a[2..].contains('/') {
                    return Some(("-execdir argument is not ./basename".into(), format!("invocation #{k}: {:?}", appended)));
                }
            }
        } else if cwd != canon(w) {
            return Some(("-exec ran in a different working directory".into(), format!("invocation #{k}: cwd {cwd}")));
        }
        for a in appended {
            flat.push((cwd.clone(), a.clone()));
        }
    }
    let want_flat: Vec<(String, String)> = want.iter().map(|r| if execdir { (canon(&r.dir), format!("./{}", r.base)) } else { (canon(w), r.path.clone()) }).collect();
    if flat != want_flat {
        let gs: std::collections::BTreeSet<_> = flat.iter().collect();
        let ws: std::collections::BTreeSet<_> = want_flat.iter().collect();
        let kind = if flat.len() > want_flat.len() && ws.iter().all(|x| gs.contains(x)) && gs.len() == ws.len() {
            "a path was passed more than once"
        } else if gs == ws && flat.len() == want_flat.len() {
            "paths not in visit order"
        } else if execdir && flat.iter().map(|f| &f.1).eq(want_flat.iter().map(|f| &f.1)) {
            "-execdir invocation ran in the wrong directory"
        } else if ws.iter().any(|x| !gs.contains(x)) {
            "a reached path was never passed to the command (pending batch lost?)"
        } else {
            "paths passed that the action never reached"
        };
        return Some((kind.into(), format!("recorded (cwd, argument) sequence {:?}\nexpected {:?}", flat, want_flat)));
    }
    None
}

fn small_case(ctx: &mut Ctx, forest: &[Shape], root: &str, form: &str, execdir: bool) -> Option<(String, String)> {
    let w = ctx.sbx.join("w");
    let ws = w.to_string_lossy().to_string();
    let _ = crate::sandbox::force_remove(&w);
    std::fs::create_dir(&w).ok()?;
    let fs = c08_fs(forest);
    if let Err(e) = crate::sandbox::materialize(&fs, 0, &w) {
        ctx.rep.machinery(format!("tree builder: {e}"));
        return None;
    }
    std::env::set_current_dir(&w).ok()?;
    let log1 = ctx.sbx.join(".mc-vrec.log");
    let log2 = ctx.sbx.join(".mc-vrec2.log");
    let _ = std::fs::remove_file(&log1);
    let _ = std::fs::remove_file(&log2);
    let prim = if execdir { "-execdir" } else { "-exec" };
    let l1 = log1.to_string_lossy().to_string();
    let l2 = log2.to_string_lossy().to_string();
    let v = vrec();
    let act = |log: &str, fixed: &[&str]| -> Vec<String> {
        let mut a = vec![prim.to_string(), v.clone(), log.to_string()];
        a.extend(fixed.iter().map(|s| s.to_string()));
        a.extend(["{}".to_string(), "+".to_string()]);
        a
    };
    let real_root = if root == "ABS" { format!("{ws}/r") } else { root.to_string() };
    let mut argv: Vec<String> = vec![real_root.clone(), "-sorted".into()];
    let fixed1: Vec<&str> = vec!["FIX", "-x"];
    match form {
        "alone" | "alone-mindepth1" | "alone-mindepth2" => {
            if form != "alone" {
                argv.extend(["-mindepth".to_string(), form[form.len() - 1..].to_string()]);
            }
            argv.extend(act(&l1, &fixed1));
            argv.extend(["-printf".to_string(), "T %p\\n".to_string()]);
        }
        "after-name" => {
            argv.extend(["-name".to_string(), "a".to_string()]);
            argv.extend(act(&l1, &fixed1));
            argv.extend(["-printf".to_string(), "T %p\\n".to_string()]);
        }
        "then-quit" => {
            argv.extend(act(&l1, &fixed1));
            argv.extend(["-printf".to_string(), "T %p\\n".to_string(), "-name".to_string(), "b".to_string(), "-quit".to_string()]);
        }
        "quit-or-action" => {
            argv.extend(["(".to_string(), "-name".to_string(), "b".to_string(), "-quit".to_string(), ")".to_string(), "-o".to_string()]);
            argv.extend(act(&l1, &fixed1));
            argv.extend(["-printf".to_string(), "T %p\\n".to_string()]);
        }
        "two-actions" => {
            argv.extend(act(&l1, &fixed1));
            argv.extend(act(&l2, &[]));
            argv.extend(["-printf".to_string(), "T %p\\n".to_string()]);
        }
        "under-not-word-group" => {
            argv.extend(["-not".to_string(), "(".to_string()]);
            argv.extend(act(&l1, &fixed1));
            argv.push(")".into());
            argv.extend(["-printf".to_string(), "N %p\\n".to_string()]);
        }
        _ => {
            argv.push(if form == "under-not" { "!" } else { "-not" }.into());
            argv.extend(act(&l1, &fixed1));
            argv.extend(["-printf".to_string(), "N %p\\n".to_string()]);
        }
    }
    let args: Vec<&str> = argv.iter().map(|s| s.as_str()).collect();
    let got = run_find(&args);
    let _ = std::env::set_current_dir(&ctx.sbx);
    let tag = format!("{prim} {form}");
    if got.panicked() {
        return Some((format!("C08 panic [{tag}]"), format!("find {:?}\n{}", argv, got.brief())));
    }
    let want = reached(&fs, root, form, &ws);
    let detail = |what: String| format!("{what}\ntree {} ; find {:?}\nstatus {:?} stdout {:?} stderr {:?}", fs.describe(0), argv, got.code, lossy(&got.out), lossy(&got.err));
    let recs = match vreclog::read(&log1) {
        Ok(r) => r,
        Err(e) => {
            ctx.rep.machinery(format!("recorder log: {e}"));
            return None;
        }
    };
    ctx.rep.evaluations += recs.len().max(1) as u64;
    if recs.len() > 1 {
        ctx.rep.nontrivial += 1;
    }
    if let Some((kind, d)) = compare(&recs, &fixed1, &want, execdir, &ws) {
        return Some((format!("C08 {kind} [{tag}]"), detail(d)));
    }
    if form == "two-actions" {
        let recs2 = vreclog::read(&log2).unwrap_or_default();
        if let Some((kind, d)) = compare(&recs2, &[], &want, execdir, &ws) {
            return Some((format!("C08 {kind} [{tag}, second action]"), detail(d)));
        }
    }
    if recs.iter().any(|r| r.args.len() == fixed1.len()) {
        ctx.rep.count("invocations_without_any_path_(not_judged)", 1);
    }
    // truth: T line for every reached entry (N never, since the action is true)
    let want_out: String = if form.starts_with("under-not") { String::new() } else { want.iter().map(|r| format!("T {}\n", r.path)).collect() };
    if lossy(&got.out) != want_out {
        return Some((format!("C08 action not true for every reached entry [{tag}]"), detail(format!("labelled output {:?}, expected {:?}", lossy(&got.out), want_out))));
    }
    if got.code != Ok(0) {
        return Some((format!("C08 non-zero exit status although every invocation succeeded [{tag}]"), detail(String::new())));
    }
    ctx.rep.class(&format!("{tag} invocations={}", recs.len().min(3)));
    None
}

// ---------------------------------------------------------------------------------------------
// (iii) fault placements on -execdir (one invocation per directory) and (ii) forced batching
// ---------------------------------------------------------------------------------------------

fn run_bin(ctx: &Ctx, args: &[String], cwd: &Path, stack: Option<u64>, env: Vec<(String, String)>) -> FindOut {
    let exe = binrun::repo_bin("find");
    let aos: Vec<&OsStr> = args.iter().map(OsStr::new).collect();
    let o = binrun::run(&exe, &aos, cwd, &binrun::Opts { env: env.into_iter().map(|(k, v)| (k.into(), v.into())).collect(), stack, timeout_s: 300, ..Default::default() });
    let _ = ctx;
    FindOut { code: if o.died() { Err(format!("died: code {:?} signal {:?} timeout {}", o.code, o.signal, o.timed_out)) } else { Ok(o.code.unwrap_or(-1)) }, out: o.out, err: o.err }
}

fn fault_case(ctx: &mut Ctx, execdir: bool, ninv: usize, failing: u32, missing: bool) -> Option<(String, String)> {
    fault_case_how(ctx, execdir, ninv, failing, missing, "1")
}

/// `how`: the outcome of a failing invocation ("1", "255", "s15" = killed by SIGTERM, "s9")
fn fault_case_how(ctx: &mut Ctx, execdir: bool, ninv: usize, failing: u32, missing: bool, how: &str) -> Option<(String, String)> {
    // tree: r/{d0/{f},d1/{f},...}: with -execdir one invocation per directory visit
    let w = ctx.sbx.join("w");
    let _ = crate::sandbox::force_remove(&w);
    std::fs::create_dir_all(w.join("r")).ok()?;
    for k in 0..ninv.saturating_sub(2) {
        std::fs::create_dir(w.join(format!("r/d{k}"))).ok()?;
        std::fs::write(w.join(format!("r/d{k}/f")), b"").ok()?;
    }
    let log = ctx.sbx.join(".mc-vrec.log");
    let _ = std::fs::remove_file(&log);
    let prim = if execdir { "-execdir" } else { "-exec" };
    let cmd = if missing { ctx.sbx.join("no-such-command").to_string_lossy().to_string() } else { vrec() };
    let argv: Vec<String> = vec!["r".into(), "-sorted".into(), prim.into(), cmd, log.to_string_lossy().to_string(), "{}".into(), "+".into(), "-printf".into(), "T %p\\n".into()];
    // probe run without faults tells how many invocations this shape gives
    let script: String = (0..16).map(|k| if failing & (1 << k) != 0 { how } else { "0" }).collect::<Vec<_>>().join(",");
    let got = run_bin(ctx, &argv, &w, None, vec![("VREC_OUTCOMES".into(), script.clone())]);
    let recs = vreclog::read(&log).unwrap_or_default();
    let tag = if how == "1" { format!("{prim} faults") } else { format!("{prim} faults, failing outcome {how}") };
    let detail = |what: String| format!("{what}\nfind {:?} (outcome script {script})\n{} invocations recorded; status {:?} stderr {:?}", argv, recs.len(), got.code, lossy(&got.err));
    if got.panicked() {
        return Some((format!("C08 panic / crash [{tag}]"), detail(String::new())));
    }
    ctx.rep.evaluations += 1;
    ctx.rep.nontrivial += 1;
    let entries = 1 + 2 * ninv.saturating_sub(2);
    if missing {
        if got.code == Ok(0) {
            return Some((format!("C08 exit status 0 although the command could not be started [{tag}]"), detail(String::new())));
        }
        if got.err.is_empty() {
            return Some((format!("C08 no diagnostic for a command that cannot be started [{tag}]"), detail(String::new())));
        }
        return None;
    }
    let passed: usize = recs.iter().map(|r| r.args.len()).sum();
    if passed != entries {
        return Some((format!("C08 a failing invocation stopped later ones or lost paths [{tag}]"), detail(format!("{passed} paths delivered, {entries} entries"))));
    }
    let any_failed = (0..recs.len()).any(|k| failing & (1 << k) != 0);
    if any_failed && got.code == Ok(0) {
        let which: Vec<usize> = (0..recs.len()).filter(|k| failing & (1 << k) != 0).collect();
        let last = which.iter().all(|k| *k + 1 == recs.len());
        return Some((format!("C08 exit status 0 although an invocation failed ({}) [{tag}]", if last { "the last one" } else { "not the last one" }), detail(format!("failing invocations {:?}", which))));
    }
    if !any_failed && got.code != Ok(0) {
        return Some((format!("C08 non-zero exit status although every invocation succeeded [{tag}]"), detail(String::new())));
    }
    let want_out: usize = entries;
    if lossy(&got.out).lines().count() != want_out {
        return Some((format!("C08 action not true for every reached entry [{tag}]"), detail(format!("{} T lines, {want_out} entries", lossy(&got.out).lines().count()))));
    }
    ctx.rep.class(&format!("{tag} invocations={} failing={}", recs.len(), (failing as u64).count_ones().min(2)));
    None
}

fn nonutf8_case(ctx: &mut Ctx, execdir: bool) -> Option<(String, String)> {
    use std::os::unix::ffi::OsStrExt;
    let w = ctx.sbx.join("w");
    let _ = crate::sandbox::force_remove(&w);
    std::fs::create_dir_all(w.join("r")).ok()?;
    let names: [&[u8]; 4] = [b"caf\xe9.txt", b"x\xffy", b"\xc3", b"ok"];
    for n in names {
        std::fs::write(w.join("r").join(OsStr::from_bytes(n)), b"").ok()?;
    }
    let log = ctx.sbx.join(".mc-vrec.log");
    let _ = std::fs::remove_file(&log);
    let prim = if execdir { "-execdir" } else { "-exec" };
    let argv: Vec<String> = vec!["r".into(), "-sorted".into(), "-type".into(), "f".into(), prim.into(), vrec(), log.to_string_lossy().to_string(), "{}".into(), "+".into()];
    let got = run_bin(ctx, &argv, &w, None, vec![]);
    let recs = vreclog::read(&log).unwrap_or_default();
    ctx.rep.evaluations += 1;
    ctx.rep.nontrivial += 1;
    ctx.rep.count("nonutf8_name_cases", 1);
    let mut sorted: Vec<&[u8]> = names.to_vec();
    sorted.sort();
    let want: Vec<Vec<u8>> = sorted.iter().map(|n| [if execdir { &b"./"[..] } else { &b"r/"[..] }, n].concat()).collect();
    let delivered: Vec<Vec<u8>> = recs.iter().flat_map(|r| r.args.clone()).collect();
    if got.panicked() || got.code != Ok(0) || delivered != want {
        return Some((format!("C08 names that are not valid UTF-8 do not reach the command byte for byte [{prim}]"), format!("find {:?}: status {:?}; delivered {:?}, expected {:?}", argv, got.code, delivered.iter().map(|a| lossy(a)).collect::<Vec<_>>(), want.iter().map(|a| lossy(a)).collect::<Vec<_>>())));
    }
    None
}

fn exhausted_budget_case(ctx: &mut Ctx, execdir: bool, fixed: bool) -> Option<(String, String)> {
    let w = ctx.sbx.join("w");
    let _ = crate::sandbox::force_remove(&w);
    std::fs::create_dir_all(w.join("r/d")).ok()?;
    for n in ["r/f1", "r/f2", "r/d/g"] {
        std::fs::write(w.join(n), b"").ok()?;
    }
    let log = ctx.sbx.join(".mc-vrec.log");
    let _ = std::fs::remove_file(&log);
    let prim = if execdir { "-execdir" } else { "-exec" };
    let mut argv: Vec<String> = vec!["r".into(), "-sorted".into(), "-type".into(), "f".into(), prim.into(), vrec(), log.to_string_lossy().to_string()];
    if fixed {
        argv.push("fixed-argument".into());
    }
    argv.extend(["{}".to_string(), "+".to_string()]);
    let got = run_bin(ctx, &argv, &w, Some(512 * 1024), vec![("BALLAST".into(), "a".repeat(126_000))]);
    let recs = vreclog::read(&log).unwrap_or_default();
    ctx.rep.evaluations += 1;
    ctx.rep.nontrivial += 1;
    ctx.rep.count("exhausted_budget_cases", 1);
    let tag = format!("{prim}, environment leaves no room");
    let detail = format!("find {:?} with RLIMIT_STACK 512 KiB and 126000 bytes of environment: status {:?}, {} invocation(s) {:?}, stderr {:?}", argv, got.code, recs.len(), recs.iter().map(|r| r.args.iter().map(|a| lossy(a)).collect::<Vec<_>>()).collect::<Vec<_>>(), lossy(&got.err).chars().take(300).collect::<String>());
    if got.panicked() || got.code.is_err() {
        return Some((format!("C08 panic / crash [{tag}]"), detail));
    }
    let delivered: usize = recs.iter().map(|r| r.args.len() - usize::from(fixed)).sum();
    if recs.iter().any(|r| r.args.len() == usize::from(fixed)) {
        return Some((format!("C08 the command was run without any path [{tag}]"), detail));
    }
    if delivered < 3 && (got.code == Ok(0) || got.err.is_empty()) {
        return Some((format!("C08 paths not delivered, yet exit status 0 / no diagnostic [{tag}]"), detail));
    }
    None
}

/// `-exec A {} + -exec B {} +` (or joined by ',') where A and B are "ok" (recorder, exit 0), "bad"
/// (/bin/false) or "nostart" (missing command): exit status != 0 iff one of them is not ok, and the
/// ok one still receives every path.
fn two_action_case(ctx: &mut Ctx, execdir: bool, first: &str, second: &str, comma: bool) -> Option<(String, String)> {
    let w = ctx.sbx.join("w");
    let _ = crate::sandbox::force_remove(&w);
    std::fs::create_dir_all(w.join("r/d")).ok()?;
    std::fs::write(w.join("r/d/f"), b"").ok()?;
    std::fs::write(w.join("r/g"), b"").ok()?;
    let prim = if execdir { "-execdir" } else { "-exec" };
    let mut argv: Vec<String> = vec!["r".into(), "-sorted".into()];
    let mut logs = vec![];
    for (k, kind) in [first, second].iter().enumerate() {
        if k == 1 && comma {
            argv.push(",".into());
        }
        argv.push(prim.into());
        match *kind {
            "ok" => {
                let log = ctx.sbx.join(format!(".mc-vrec{k}.log"));
                let _ = std::fs::remove_file(&log);
                argv.push(vrec());
                argv.push(log.to_string_lossy().to_string());
                logs.push(log);
            }
            "bad" => argv.push("/bin/false".into()),
            _ => argv.push(ctx.sbx.join("no-such-command").to_string_lossy().to_string()),
        }
        argv.extend(["{}".to_string(), "+".to_string()]);
    }
    let got = run_bin(ctx, &argv, &w, None, vec![]);
    ctx.rep.evaluations += 1;
    ctx.rep.nontrivial += 1;
    let tag = format!("{prim} two actions {first}/{second}{}", if comma { " joined by ," } else { "" });
    let detail = format!("find {:?}\nstatus {:?} stderr {:?}", argv, got.code, lossy(&got.err));
    if got.panicked() {
        return Some((format!("C08 panic / crash [{tag}]"), detail));
    }
    for log in &logs {
        let recs = vreclog::read(log).unwrap_or_default();
        let passed: usize = recs.iter().map(|r| r.args.len()).sum();
        if passed != 4 {
            return Some((format!("C08 a failing action kept another action's paths from being delivered [{tag}]"), format!("{detail}\n{passed} of 4 paths reached the recorder")));
        }
    }
    let any_bad = first != "ok" || second != "ok";
    if any_bad && got.code == Ok(0) {
        return Some((format!("C08 exit status 0 although an invocation failed or could not start [{prim} two actions, {}]", if second != "ok" { "the later one" } else { "the earlier one" }), detail));
    }
    if !any_bad && got.code != Ok(0) {
        return Some((format!("C08 non-zero exit status although every invocation succeeded [{tag}]"), detail));
    }
    None
}

/// Several starting points and a -quit reached before the last of them: the paths collected so far are
/// delivered (in order, nothing from the starting points never reached), with a succeeding command
/// (status 0) and with a failing one (status non-zero).
fn multi_root_quit_case(ctx: &mut Ctx, execdir: bool, roots: &[&str], failing: bool) -> Option<(String, String)> {
    let w = ctx.sbx.join("w");
    let _ = crate::sandbox::force_remove(&w);
    for d in ["a", "b", "c"] {
        std::fs::create_dir_all(w.join(d)).ok()?;
        std::fs::write(w.join(d).join(format!("f{d}")), b"").ok()?;
    }
    std::fs::write(w.join("a/stop"), b"").ok()?;
    let prim = if execdir { "-execdir" } else { "-exec" };
    let log = ctx.sbx.join(".mc-vrec.log");
    let _ = std::fs::remove_file(&log);
    let mut argv: Vec<String> = roots.iter().map(|r| r.to_string()).collect();
    argv.extend(["-sorted".to_string(), prim.to_string(), vrec(), log.to_string_lossy().to_string(), "{}".to_string(), "+".to_string(), "-name".to_string(), "stop".to_string(), "-quit".to_string()]);
    let env = if failing { vec![("VREC_OUTCOMES".to_string(), "1".to_string())] } else { vec![] };
    let got = run_bin(ctx, &argv, &w, None, env);
    ctx.rep.evaluations += 1;
    ctx.rep.nontrivial += 1;
    // reference: the starting points in order, entries in name order, up to and including a/stop
    let mut want: Vec<(String, String)> = vec![];
    'outer: for r in roots {
        let names: &[&str] = match *r {
            "a" => &["", "fa", "stop"],
            "b" => &["", "fb"],
            _ => &["", "fc"],
        };
        for n in names {
            let path = if n.is_empty() { r.to_string() } else { format!("{r}/{n}") };
            let (dir, arg) = if !execdir {
                (w.to_string_lossy().to_string(), path.clone())
            } else if n.is_empty() {
                (w.to_string_lossy().to_string(), format!("./{r}"))
            } else {
                (w.join(r).to_string_lossy().to_string(), format!("./{n}"))
            };
            want.push((dir, arg));
            if path == "a/stop" {
                break 'outer;
            }
        }
    }
    let recs = vreclog::read(&log).unwrap_or_default();
    let gotv: Vec<(String, String)> = recs.iter().flat_map(|r| r.args.iter().map(|a| (lossy(&r.cwd), lossy(a))).collect::<Vec<_>>()).collect();
    let tag = format!("{prim}, starting points {}, -quit before the last{}", roots.join(" "), if failing { ", command exits 1" } else { "" });
    let detail = format!("find {:?}\nstatus {:?} stderr {:?}\ndelivered (cwd, path) {:?}\nexpected {:?}", argv, got.code, lossy(&got.err), gotv, want);
    if got.panicked() {
        return Some((format!("C08 panic / crash [{tag}]"), detail));
    }
    if gotv != want {
        return Some((format!("C08 paths collected before -quit are not all delivered, or others are [{tag}]"), detail));
    }
    if failing == (got.code == Ok(0)) {
        return Some((format!("C08 exit status wrong after -quit in an earlier starting point [{tag}]"), detail));
    }
    None
}

/// find's own standard output cannot be written (/dev/full) and holds pending text when a batch is
/// dispatched (-printf without a newline, -print0): every pending invocation still runs, with every path.
fn unwritable_stdout_case(ctx: &mut Ctx, execdir: bool, own: &[&str], quit: bool) -> Option<(String, String)> {
    use std::process::{Command, Stdio};
    let w = ctx.sbx.join("w");
    let _ = crate::sandbox::force_remove(&w);
    std::fs::create_dir_all(w.join("r/d")).ok()?;
    std::fs::write(w.join("r/d/f"), b"").ok()?;
    std::fs::write(w.join("r/a"), b"").ok()?;
    std::fs::write(w.join("r/g"), b"").ok()?;
    let log = ctx.sbx.join(".mc-vrec.log");
    let _ = std::fs::remove_file(&log);
    let prim = if execdir { "-execdir" } else { "-exec" };
    let mut argv: Vec<String> = vec!["r".into(), "-sorted".into()];
    argv.extend(own.iter().map(|s| s.to_string()));
    argv.extend([prim.to_string(), vrec(), log.to_string_lossy().to_string(), "{}".to_string(), "+".to_string()]);
    if quit {
        argv.extend(["-name".to_string(), "d".to_string(), "-quit".to_string()]);
    }
    let full = std::fs::OpenOptions::new().write(true).open("/dev/full").ok()?;
    let o = Command::new(crate::engine::repo_bin_dir().join("find")).args(&argv).current_dir(&w).env_clear().stdin(Stdio::null()).stdout(Stdio::from(full)).stderr(Stdio::piped()).output().ok()?;
    ctx.rep.evaluations += 1;
    ctx.rep.nontrivial += 1;
    let recs = vreclog::read(&log).unwrap_or_default();
    let mut got: Vec<String> = recs.iter().flat_map(|r| r.args.iter().map(|a| lossy(a)).collect::<Vec<_>>()).collect();
    // visit order (-sorted): r, r/a, r/d, [r/d/f, r/g]
    let reached: Vec<&str> = if quit { vec!["r", "r/a", "r/d"] } else { vec!["r", "r/a", "r/d", "r/d/f", "r/g"] };
    let mut want: Vec<String> = reached.iter().map(|p| if execdir { format!("./{}", p.rsplit('/').next().unwrap()) } else { p.to_string() }).collect();
    got.sort();
    want.sort();
    let tag = format!("{prim} after {} with standard output on /dev/full{}", own[0], if quit { ", then -quit" } else { "" });
    if matches!(o.status.code(), Some(101) | Some(134) | None) {
        return Some((format!("C08 panic / crash [{tag}]"), format!("find {:?}: {:?} stderr {:?}", argv, o.status, lossy(&o.stderr))));
    }
    if got != want {
        return Some((format!("C08 a pending invocation did not run (or lost paths) because find's own output could not be written [{tag}]"), format!("find {:?} >/dev/full: status {:?}; delivered {:?}, expected {:?}; stderr {:?}", argv, o.status.code(), got, want, lossy(&o.stderr))));
    }
    None
}

fn fnv_seg(args: &[Vec<u8>]) -> (u64, usize) {
    let mut h: u64 = 0xcbf29ce484222325;
    let mut bytes = 0;
    for a in args {
        for b in a {
            h ^= *b as u64;
            h = h.wrapping_mul(0x100000001b3);
        }
        h ^= 0xff;
        h = h.wrapping_mul(0x100000001b3);
        bytes += a.len();
    }
    (h, bytes)
}

/// forced batching: `nfiles` files with `namelen`-byte names in `ndirs` directories.
fn batch_case(ctx: &mut Ctx, execdir: bool, nfiles: usize, namelen: usize, ndirs: usize, stack: Option<u64>, failing: u32) -> Option<(String, String)> {
    let w = ctx.sbx.join("w");
    let _ = crate::sandbox::force_remove(&w);
    std::fs::create_dir_all(w.join("r")).ok()?;
    let mut expected: Vec<(String, String)> = vec![]; // (dir, path or ./base) in visit order
    let wabs = w.to_string_lossy().to_string();
    expected.push((wabs.clone(), if execdir { "./r".into() } else { "r".into() }));
    for d in 0..ndirs {
        let dn = format!("d{d}");
        std::fs::create_dir(w.join("r").join(&dn)).ok()?;
        expected.push((format!("{wabs}/r"), if execdir { format!("./{dn}") } else { format!("r/{dn}") }));
        let mut names: Vec<String> = (0..nfiles / ndirs).map(|i| format!("{:0>width$}", i, width = namelen)).collect();
        names.sort();
        for n in &names {
            std::fs::write(w.join("r").join(&dn).join(n), b"").ok()?;
            expected.push((format!("{wabs}/r/{dn}"), if execdir { format!("./{n}") } else { format!("r/{dn}/{n}") }));
        }
    }
    let log = ctx.sbx.join(".mc-vrec.log");
    let _ = std::fs::remove_file(&log);
    let prim = if execdir { "-execdir" } else { "-exec" };
    let argv: Vec<String> = vec!["r".into(), "-sorted".into(), prim.into(), vrec(), log.to_string_lossy().to_string(), "FIX".into(), "{}".into(), "+".into()];
    let script: String = (0..32).map(|k| if failing & (1 << k) != 0 { "1" } else { "0" }).collect::<Vec<_>>().join(",");
    let full = execdir || nfiles <= 3000;
    let mut env = vec![("VREC_OUTCOMES".to_string(), script.clone())];
    if !full {
        env.push(("VREC_MODE".into(), "count".into()));
    }
    let got = run_bin(ctx, &argv, &w, stack, env);
    let stk = match stack {
        None => "inherited".to_string(),
        Some(u64::MAX) => "unlimited".to_string(),
        Some(s) => format!("{} KiB", s / 1024),
    };
    let tag = format!("{prim} batching");
    let base_detail = format!("find r -sorted {prim} vrec LOG FIX {{}} + over {nfiles} files, {namelen}-byte names, {ndirs} directories, RLIMIT_STACK {stk}, failing-invocation mask {failing:#b}\nstatus {:?} stderr {:?}", got.code, lossy(&got.err).chars().take(400).collect::<String>());
    if got.panicked() {
        return Some((format!("C08 panic / crash [{tag}]"), base_detail));
    }
    if lossy(&got.err).contains("rgument list too long") || lossy(&got.err).contains("E2BIG") {
        return Some((format!("C08 an invocation was refused by the operating system (argument list too long) [{tag}]"), base_detail));
    }
    let ninv;
    if full {
        let recs = match vreclog::read(&log) {
            Ok(r) => r,
            Err(e) => {
                ctx.rep.machinery(format!("recorder log: {e}"));
                return None;
            }
        };
        ninv = recs.len();
        let mut flat: Vec<(String, String)> = vec![];
        for (k, r) in recs.iter().enumerate() {
            if r.args.first().map(|a| a.as_slice()) != Some(b"FIX".as_slice()) {
                return Some((format!("C08 fixed arguments altered or not first [{tag}]"), format!("{base_detail}\ninvocation #{k}")));
            }
            let cwd = canon(&lossy(&r.cwd));
            for a in &r.args[1..] {
                flat.push((if execdir { cwd.clone() } else { canon(&wabs) }, lossy(a)));
            }
            if !execdir && cwd != canon(&wabs) {
                return Some((format!("C08 -exec ran in a different working directory [{tag}]"), format!("{base_detail}\ninvocation #{k} cwd {cwd}")));
            }
        }
        let want: Vec<(String, String)> = expected.iter().map(|(d, p)| (if execdir { canon(d) } else { canon(&wabs) }, p.clone())).collect();
        if flat != want {
            let i = flat.iter().zip(&want).position(|(a, b)| a != b).unwrap_or(flat.len().min(want.len()));
            let kind = if flat.len() == want.len() && flat.iter().map(|f| &f.1).eq(want.iter().map(|f| &f.1)) {
                "-execdir invocation ran in the wrong directory"
            } else if flat.len() < want.len() {
                "a reached path was never passed to the command (pending batch lost?)"
            } else if flat.len() > want.len() {
                "a path was passed more than once"
            } else {
                "paths not in visit order"
            };
            return Some((format!("C08 {kind} [{tag}]"), format!("{base_detail}\n{} (cwd, argument) pairs recorded in {ninv} invocations, {} expected; first difference at #{i}: recorded {:?}, expected {:?}", flat.len(), want.len(), flat.get(i), want.get(i))));
        }
    } else {
        let recs = match std::fs::read(&log).map_err(|e| e.to_string()).and_then(|b| vreclog::parse_count(&b)) {
            Ok(r) => r,
            Err(e) => {
                ctx.rep.machinery(format!("recorder log: {e}"));
                return None;
            }
        };
        ninv = recs.len();
        let mut pos = 0usize;
        for (k, r) in recs.iter().enumerate() {
            let n = r.nargs.saturating_sub(1);
            if pos + n > expected.len() {
                return Some((format!("C08 a path was passed more than once [{tag}]"), format!("{base_detail}\ninvocation #{k} overruns the expected list")));
            }
            let mut seg: Vec<Vec<u8>> = vec![b"FIX".to_vec()];
            seg.extend(expected[pos..pos + n].iter().map(|e| e.1.clone().into_bytes()));
            let (h, bytes) = fnv_seg(&seg);
            if h != r.hash || bytes != r.bytes {
                return Some((format!("C08 paths not in visit order [{tag}]"), format!("{base_detail}\ninvocation #{k}: {} arguments whose hash differs from the expected segment starting at #{pos}", r.nargs)));
            }
            pos += n;
        }
        if pos != expected.len() {
            return Some((format!("C08 a reached path was never passed to the command (pending batch lost?) [{tag}]"), format!("{base_detail}\n{pos} of {} paths delivered in {ninv} invocations", expected.len())));
        }
    }
    ctx.rep.evaluations += ninv as u64;
    if ninv > 1 {
        ctx.rep.nontrivial += 1;
    }
    ctx.rep.count(&format!("batching runs with >=2 invocations ({prim})"), if ninv >= 2 + ndirs * execdir as usize { 1 } else { 0 });
    ctx.rep.extra.insert("max_invocations_in_one_run".into(), json!((ninv as u64).max(ctx.rep.extra.get("max_invocations_in_one_run").and_then(|v| v.as_u64()).unwrap_or(0))));
    let any_failed = (0..ninv).any(|k| failing & (1 << k) != 0);
    if any_failed && got.code == Ok(0) {
        return Some((format!("C08 exit status 0 although an invocation failed [{tag}]"), base_detail));
    }
    if !any_failed && got.code != Ok(0) {
        return Some((format!("C08 non-zero exit status although every invocation succeeded [{tag}]"), base_detail));
    }
    ctx.rep.class(&format!("{tag} stack={stk} invocations={}", ninv.min(9)));
    None
}

fn run(ctx: &mut Ctx) {
    let mut job = 0u64;
    // (i)
    let labels = [Leaf::File, Leaf::EmptyDir];
    for n in 0..=ctx.tier.pick(4, 5) {
        let mut todo: Vec<Vec<Shape>> = vec![];
        tree::forests(n, &labels, &mut |f| todo.push(f.to_vec()));
        for forest in todo {
            for root in ROOTS {
                for form in FORMS {
                    for execdir in [false, true] {
                        job += 1;
                        if !ctx.mine(job) {
                            continue;
                        }
                        ctx.progress(job);
                        let enc = tree::encode_forest(&forest);
                        ctx.progress_note(&format!("{enc} {root} {form} {execdir}"));
                        if let Some((sig, detail)) = small_case(ctx, &forest, root, form, execdir) {
                            match small_case(ctx, &forest, root, form, execdir) {
                                Some((s2, _)) if s2 == sig => ctx.rep.violation(&sig, detail, json!({"prop":"C08","part":"small","forest":enc,"root":root,"form":form,"execdir":execdir})),
                                _ => ctx.rep.machinery(format!("nondeterministic verdict: {sig}")),
                            }
                        }
                        if job % 701 == 5 || ctx.rep.samples.is_empty() {
                            ctx.rep.sample(json!({"part":"small","tree": c08_fs(&forest).describe(0), "root": root, "form": form, "primary": if execdir {"-execdir"} else {"-exec"}}));
                        }
                    }
                }
            }
        }
    }
    // the root directory as starting point, spelled /, //, /. and /./, with -maxdepth 0: one run, one
    // path, and under -execdir the run happens IN the root directory
    for execdir in [false, true] {
        for spelling in ["/", "//", "/.", "/./"] {
            job += 1;
            if !ctx.mine(job) {
                continue;
            }
            let log = ctx.sbx.join(".mc-vrec.log");
            let _ = std::fs::remove_file(&log);
            let prim = if execdir { "-execdir" } else { "-exec" };
            let argv: Vec<String> = vec![spelling.into(), "-maxdepth".into(), "0".into(), prim.into(), vrec(), log.to_string_lossy().to_string(), "{}".into(), "+".into()];
            let args: Vec<&str> = argv.iter().map(|s| s.as_str()).collect();
            let _ = std::env::set_current_dir(&ctx.sbx);
            let got = run_find(&args);
            let recs = vreclog::read(&log).unwrap_or_default();
            ctx.rep.evaluations += 1;
            let cwd_ok = !execdir || recs.first().is_some_and(|r| r.cwd == b"/");
            if recs.len() != 1 || recs[0].args.len() != 1 || got.code != Ok(0) || !cwd_ok {
                ctx.rep.violation(&format!("C08 starting point {spelling}: command not run exactly once with one path{} [{prim}]", if execdir { " in the root directory" } else { "" }), format!("find {:?}: {} invocations {:?} cwd {:?}; {}", argv, recs.len(), recs.iter().map(|r| r.args.iter().map(|a| lossy(a)).collect::<Vec<_>>()).collect::<Vec<_>>(), recs.first().map(|r| lossy(&r.cwd)), got.brief()), json!({"prop":"C08","part":"slash","execdir":execdir}));
            }
        }
    }
    // (iii) fault placements: d directories under r give 1+2d -execdir invocations; every subset fails
    for d in 1..=ctx.tier.pick(2usize, 3) {
        let ninv = 1 + 2 * d;
        for mask in 0u32..(1 << ninv) {
            job += 1;
            if !ctx.mine(job) {
                continue;
            }
            ctx.progress(job);
            if let Some((sig, detail)) = fault_case(ctx, true, d + 2, mask, false) {
                ctx.rep.violation(&sig, detail, json!({"prop":"C08","part":"fault","execdir":true,"ninv":d + 2,"mask":mask,"missing":false}));
            }
        }
    }
    // two {} + actions in one expression whose outcomes differ (one command fails or cannot start)
    for execdir in [false, true] {
        for (first, second) in [("bad", "ok"), ("ok", "bad"), ("nostart", "ok"), ("ok", "nostart"), ("ok", "ok"), ("bad", "bad")] {
            for comma in [false, true] {
                job += 1;
                if !ctx.mine(job) {
                    continue;
                }
                if let Some((sig, detail)) = two_action_case(ctx, execdir, first, second, comma) {
                    ctx.rep.violation(&sig, detail, json!({"prop":"C08","part":"two","execdir":execdir,"first":first,"second":second,"comma":comma}));
                }
            }
        }
    }
    for execdir in [false, true] {
        for (mask, missing) in [(0u32, false), (1, false), (0, true)] {
            job += 1;
            if !ctx.mine(job) {
                continue;
            }
            if let Some((sig, detail)) = fault_case(ctx, execdir, 3, mask, missing) {
                ctx.rep.violation(&sig, detail, json!({"prop":"C08","part":"fault","execdir":execdir,"ninv":3,"mask":mask,"missing":missing}));
            }
        }
        // an invocation that is killed by a signal, or exits 255 / 2, has failed too
        for how in ["s15", "s9", "255", "2"] {
            for mask in [1u32, 2, 4] {
                job += 1;
                if !ctx.mine(job) {
                    continue;
                }
                if let Some((sig, detail)) = fault_case_how(ctx, execdir, 4, mask, false, how) {
                    ctx.rep.violation(&sig, detail, json!({"prop":"C08","part":"fault","execdir":execdir,"ninv":4,"mask":mask,"missing":false,"how":how}));
                }
            }
        }
    }
    // (iv) an environment that leaves (almost) no room: a 512 KiB stack and 126 000 bytes of
    // environment. Whatever can still be passed must be passed correctly; what cannot must be
    // diagnosed with a non-zero status — no panic, and never the command without its paths.
    for execdir in [false, true] {
        for fixed in [false, true] {
            job += 1;
            if !ctx.mine(job) {
                continue;
            }
            if let Some((sig, detail)) = exhausted_budget_case(ctx, execdir, fixed) {
                ctx.rep.violation(&sig, detail, json!({"prop":"C08","part":"exhausted","execdir":execdir,"fixed":fixed}));
            }
        }
    }
    // (iv') -execdir ./tool {} + where ./tool exists in some directories only: the directories after
    // one in which the command could not be started still get their invocation
    job += 1;
    if ctx.mine(job) {
        crate::props::c09::start_failure_history(ctx, "C08", "+");
    }
    // (iv-d) find's own output unwritable and pending when the batch runs
    for execdir in [false, true] {
        for own in [vec!["-printf", "%p"], vec!["-print0"], vec!["-printf", "%p\\n"], vec!["-print"]] {
            for quit in [false, true] {
                job += 1;
                if !ctx.mine(job) {
                    continue;
                }
                if let Some((sig, detail)) = unwritable_stdout_case(ctx, execdir, &own, quit) {
                    ctx.rep.violation(&sig, detail, json!({"prop":"C08","part":"unwritable_stdout","execdir":execdir,"own":own,"quit":quit}));
                }
            }
        }
    }
    // (iv-c) 150 directories with 64 file descriptors
    job += 1;
    if ctx.mine(job) {
        crate::props::c09::low_descriptor_exec(ctx, "C08", "+");
    }
    // (iv'') several starting points, -quit before the last one
    for execdir in [false, true] {
        for roots in [vec!["a", "b", "c"], vec!["b", "a", "c"], vec!["c", "b", "a"], vec!["a"]] {
            for failing in [false, true] {
                job += 1;
                if !ctx.mine(job) {
                    continue;
                }
                if let Some((sig, detail)) = multi_root_quit_case(ctx, execdir, &roots, failing) {
                    ctx.rep.violation(&sig, detail, json!({"prop":"C08","part":"multi_root_quit","execdir":execdir,"roots":roots,"failing":failing}));
                }
            }
        }
    }
    // (v) names that are not valid UTF-8 reach the command byte for byte (as ./NAME under -execdir)
    for execdir in [false, true] {
        job += 1;
        if !ctx.mine(job) {
            continue;
        }
        if let Some((sig, detail)) = nonutf8_case(ctx, execdir) {
            ctx.rep.violation(&sig, detail, json!({"prop":"C08","part":"nonutf8","execdir":execdir}));
        }
    }
    // (ii) forced batching
    let kib = 1024u64;
    let mut cases: Vec<(bool, usize, usize, usize, Option<u64>, u32)> = vec![];
    for execdir in [false, true] {
        for (nfiles, namelen, ndirs) in [(400, 250, 1), (3000, 250, 1), (3000, 100, 3), (3000, 1, 2), (3000, 250, 3)] {
            if namelen == 1 && nfiles > 20 {
                // 1-byte names: at most 10 distinct digits per directory -> use 2-byte.. keep small
                cases.push((execdir, 18, 1, 2, Some(256 * kib), 0));
                continue;
            }
            cases.push((execdir, nfiles, namelen, ndirs, Some(256 * kib), 0));
        }
        cases.push((execdir, 3000, 250, 1, Some(8192 * kib), 0));
        // failing subsets over a run with several invocations
        for mask in [1u32, 2, 4, 6, 0b1000, 0b1111, 0b10101] {
            cases.push((execdir, 3000, 250, 1, Some(256 * kib), mask));
        }
        if ctx.tier == Tier::Thorough {
            cases.push((execdir, 40_000, 250, 2, Some(8192 * kib), 0));
            cases.push((execdir, 40_000, 250, 2, Some(u64::MAX), 0));
            cases.push((execdir, 40_000, 100, 4, Some(256 * kib), 0b100));
            for mask in 0u32..32 {
                cases.push((execdir, 3000, 250, 1, Some(256 * kib), mask));
            }
        }
    }
    for (execdir, nfiles, namelen, ndirs, stack, mask) in cases {
        job += 1;
        if !ctx.mine(job) {
            continue;
        }
        ctx.progress(job);
        ctx.progress_note(&format!("batch {execdir} {nfiles} {namelen} {ndirs} {stack:?} {mask}"));
        if let Some((sig, detail)) = batch_case(ctx, execdir, nfiles, namelen, ndirs, stack, mask) {
            ctx.rep.violation(&sig, detail, json!({"prop":"C08","part":"batch","execdir":execdir,"nfiles":nfiles,"namelen":namelen,"ndirs":ndirs,"stack":stack,"mask":mask}));
        }
        ctx.rep.traces_validated += 1;
    }
    let _ = std::env::set_current_dir(&ctx.sbx);
}

fn replay(case: &Value, ctx: &mut Ctx) -> Option<String> {
    if case["low_descriptor"] == true {
        crate::props::c09::low_descriptor_exec(ctx, "C08", "+");
        return ctx.rep.violations.keys().next().cloned();
    }
    if case["start_failure_history"] == true {
        crate::props::c09::start_failure_history(ctx, "C08", "+");
        return ctx.rep.violations.keys().next().cloned();
    }
    if case["part"] == "unwritable_stdout" {
        let own: Vec<String> = case["own"].as_array()?.iter().map(|v| v.as_str().unwrap_or("").to_string()).collect();
        let oo: Vec<&str> = own.iter().map(|s| s.as_str()).collect();
        return match unwritable_stdout_case(ctx, case["execdir"].as_bool()?, &oo, case["quit"].as_bool()?) {
            Some((sig, detail)) => {
                ctx.rep.violation(&sig, detail, case.clone());
                Some(sig)
            }
            None => None,
        };
    }
    if case["part"] == "multi_root_quit" {
        let roots: Vec<String> = case["roots"].as_array()?.iter().map(|v| v.as_str().unwrap_or("").to_string()).collect();
        let rr: Vec<&str> = roots.iter().map(|s| s.as_str()).collect();
        return match multi_root_quit_case(ctx, case["execdir"].as_bool()?, &rr, case["failing"].as_bool()?) {
            Some((sig, detail)) => {
                ctx.rep.violation(&sig, detail, case.clone());
                Some(sig)
            }
            None => None,
        };
    }
    if case["part"] == "nonutf8" {
        return match nonutf8_case(ctx, case["execdir"].as_bool()?) {
            Some((sig, detail)) => {
                ctx.rep.violation(&sig, detail, case.clone());
                Some(sig)
            }
            None => None,
        };
    }
    if case["part"] == "exhausted" {
        return match exhausted_budget_case(ctx, case["execdir"].as_bool()?, case["fixed"].as_bool()?) {
            Some((sig, detail)) => {
                ctx.rep.violation(&sig, detail, case.clone());
                Some(sig)
            }
            None => None,
        };
    }
    let r = match case["part"].as_str()? {
        "small" => {
            let forest = tree::decode_forest(case["forest"].as_str()?)?;
            let root = ROOTS.iter().find(|r| Some(**r) == case["root"].as_str())?;
            let form = FORMS.iter().find(|r| Some(**r) == case["form"].as_str())?;
            small_case(ctx, &forest, root, form, case["execdir"].as_bool()?)
        }
        "fault" => fault_case_how(ctx, case["execdir"].as_bool()?, case["ninv"].as_u64()? as usize, case["mask"].as_u64()? as u32, case["missing"].as_bool()?, ["s15", "s9", "255", "2"].into_iter().find(|h| Some(*h) == case["how"].as_str()).unwrap_or("1")),
        "two" => two_action_case(ctx, case["execdir"].as_bool()?, ["ok", "bad", "nostart"].into_iter().find(|x| Some(*x) == case["first"].as_str())?, ["ok", "bad", "nostart"].into_iter().find(|x| Some(*x) == case["second"].as_str())?, case["comma"].as_bool()?),
        "batch" => batch_case(ctx, case["execdir"].as_bool()?, case["nfiles"].as_u64()? as usize, case["namelen"].as_u64()? as usize, case["ndirs"].as_u64()? as usize, case["stack"].as_u64(), case["mask"].as_u64()? as u32),
        _ => return None,
    };
    let _ = std::env::set_current_dir(&ctx.sbx);
    match r {
        Some((sig, detail)) => {
            ctx.rep.violation(&sig, detail, case.clone());
            Some(sig)
        }
        None => None,
    }
}
