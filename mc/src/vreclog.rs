//! Parser for the recorder's log (see src/bin/vrec.rs).

#[derive(Clone, Debug, PartialEq, Eq)]
pub struct Rec {
    pub args: Vec<Vec<u8>>,
    pub cwd: Vec<u8>,
}

pub fn parse(b: &[u8]) -> Result<Vec<Rec>, String> {
    let mut i = 0;
    let mut out = vec![];
    fn line(b: &[u8], i: &mut usize) -> Result<String, String> {
        let s = *i;
        while *i < b.len() && b[*i] != b'\n' {
            *i += 1;
        }
        if *i >= b.len() {
            return Err("truncated log".into());
        }
        let l = String::from_utf8_lossy(&b[s..*i]).to_string();
        *i += 1;
        Ok(l)
    }
    while i < b.len() {
        let h = line(b, &mut i)?;
        let k: usize = h.strip_prefix("R ").ok_or("bad record header")?.trim().parse().map_err(|_| "bad count")?;
        let mut args = vec![];
        for _ in 0..k {
            let len: usize = line(b, &mut i)?.trim().parse().map_err(|_| "bad len")?;
            if i + len >= b.len() + 0 && i + len > b.len() {
                return Err("truncated arg".into());
            }
            args.push(b[i..i + len].to_vec());
            i += len + 1;
        }
        let c = line(b, &mut i)?;
        let len: usize = c.strip_prefix("C ").ok_or("bad cwd header")?.trim().parse().map_err(|_| "bad len")?;
        let cwd = b[i..i + len].to_vec();
        i += len + 1;
        out.push(Rec { args, cwd });
    }
    Ok(out)
}

pub fn read(path: &std::path::Path) -> Result<Vec<Rec>, String> {
    match std::fs::read(path) {
        Ok(b) => parse(&b),
        Err(e) if e.kind() == std::io::ErrorKind::NotFound => Ok(vec![]),
        Err(e) => Err(e.to_string()),
    }
}

#[derive(Clone, Debug, PartialEq, Eq)]
pub struct CountRec {
    pub nargs: usize,
    pub bytes: usize,
    pub hash: u64,
    pub first: Vec<u8>,
    pub last: Vec<u8>,
}

pub fn parse_count(b: &[u8]) -> Result<Vec<CountRec>, String> {
    let mut i = 0;
    let mut out = vec![];
    while i < b.len() {
        let s = i;
        while i < b.len() && b[i] != b'\n' {
            i += 1;
        }
        let h = String::from_utf8_lossy(&b[s..i]).to_string();
        i += 1;
        let p: Vec<&str> = h.split(' ').collect();
        if p.len() != 6 || p[0] != "N" {
            return Err(format!("bad count header {h:?}"));
        }
        let a: usize = p[4].parse().map_err(|_| "bad")?;
        let c: usize = p[5].parse().map_err(|_| "bad")?;
        let first = b[i..i + a].to_vec();
        i += a + 1;
        let last = b[i..i + c].to_vec();
        i += c + 1;
        out.push(CountRec {
            nargs: p[1].parse().map_err(|_| "bad")?,
            bytes: p[2].parse().map_err(|_| "bad")?,
            hash: u64::from_str_radix(p[3], 16).map_err(|_| "bad")?,
            first,
            last,
        });
    }
    Ok(out)
}
