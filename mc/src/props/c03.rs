//! C03 visit order and -prune — all small directory trees x every prune subset x expression
//! form x -depth / unreachable -delete / neither x depth bounds; exact -sorted visit sequence
//! against a reference DFS, order constraints and multiset without -sorted.

use crate::engine::{Ctx, Prop, Spec, Tier};
use crate::findrun::{run_find, FindOut};
use crate::model::tree::{self, Follow, Fs, Leaf, Shape, WalkCfg, WalkNotes, K};
use serde_json::{json, Value};

pub const PROP: Prop = Prop {
    id: "C03",
    spec,
    run,
    replay,
};

/// ascending in byte order, but not in case-folded / locale order
const NAMES3: [&str; 6] = ["B", "Z", "_", "a", "a.b", "\u{e9}"];

fn bounds(t: Tier) -> usize {
    t.pick(4, 6)
}

fn spec(t: Tier) -> Spec {
    let n = bounds(t);
    Spec {
        id: "C03",
        level: "exploration",
        rule: format!("every ordered forest of directories, files and links to a directory (walked under -P and -L) with <= {n} nodes (sibling names B,Z,_,a,a.b,é: byte order differs from case-folded order) x every subset of its directories (and the starting point) selected for pruning x 3 expression forms (path alternation before -prune -o -print; -print before the prune test; -name TEST -prune -o -print) x (pre-order | -depth | unreachable -delete, the latter two written before and after the expression holding -prune) x 5 depth windows x (-sorted: exact sequence | unsorted: multiset + parent/child order); file-system boundary slice: a tmpfs mounted on r/m inside the tree, -xdev and -mount, -prune on the mount point / on a sibling / before and after -print, -depth, -maxdepth 1 (the mount point is visited, nothing below it, its later siblings always); scale slice: one hand-built tree (sibling names of 1, 15, 16, 17, 32 and 33 bytes sharing 16-byte prefixes, a chain six directories deep, a link to a directory between later siblings, a directory of 40 files) with every single and every pair of directories/links pruned, every name, all forms and windows, pre-order/-depth/unreachable -delete, -sorted on/off, -P/-L; byte-wise slice: eleven sibling directories whose names are byte strings that are not all valid UTF-8 (0x80, truncated sequences, 0xff, U+FFFD itself) come out in byte order under -sorted (pre-order, -depth, -d, with a pruned sibling); -xdev slice: a tmpfs mounted inside the tree, also with several starting points on different file systems; non-trivial = case with a non-empty prune set"),
        bound: json!({"max_nodes": n, "forms": ["paths-prune-or-print", "print-then-prune", "name-prune-or-print"], "orders": ["pre", "-depth (spelled -d in half of the cases)", "unreachable -delete", "-depth after", "unreachable -delete after"], "windows": ["none","min1","max1","max2","min1 max2"]}),
        assumptions: vec!["-prune's truth value is true in both walk orders (the statement only fixes its effect on the walk)".into()],
        shards: 0,
        wall_cap_s: t.pick(300, 3600),
    }
}

fn instantiate(fs: &mut Fs, dir: usize, forest: &[Shape], up: &str) {
    for (i, s) in forest.iter().enumerate() {
        match s {
            Shape::Dir(sub) => {
                let d = fs.add(dir, NAMES3[i], K::Dir);
                instantiate(fs, d, sub, &format!("../{up}"));
            }
            Shape::Leaf(Leaf::EmptyDir) => {
                fs.add(dir, NAMES3[i], K::Dir);
            }
            Shape::Leaf(Leaf::LnDir) => {
                fs.add(dir, NAMES3[i], K::Link(format!("{up}out/d")));
            }
            Shape::Leaf(_) => {
                fs.add(dir, NAMES3[i], K::File);
            }
        }
    }
}

fn c03_fs(forest: &[Shape]) -> Fs {
    let mut fs = Fs::new();
    let out = fs.add(0, "out", K::Dir);
    let d = fs.add(out, "d", K::Dir);
    fs.add(d, "g", K::File);
    let r = fs.add(0, "r", K::Dir);
    instantiate(&mut fs, r, forest, "../");
    fs
}

#[derive(Clone, Copy, Debug, PartialEq)]
enum Form {
    PathsPruneOrPrint,
    PrintThenPrune,
    NamePruneOrPrint,
}
#[derive(Clone, Copy, Debug, PartialEq)]
enum Order {
    Pre,
    Depth,
    Delete,
    /// -depth written AFTER the expression that holds -prune
    DepthAfter,
    /// an unreachable -delete written AFTER the expression that holds -prune
    DeleteAfter,
}
const WINDOWS: [(Option<usize>, Option<usize>); 5] = [
    (None, None),
    (Some(1), None),
    (None, Some(1)),
    (None, Some(2)),
    (Some(1), Some(2)),
];

struct Case {
    form: Form,
    order: Order,
    win: (Option<usize>, Option<usize>),
    sorted: bool,
    follow: Follow,
    /// prune set: node ids (PathsPrune/PrintThenPrune) or the chosen name (NamePrune)
    set: Vec<usize>,
    name: String,
}

fn argv(fs: &Fs, c: &Case) -> Vec<String> {
    let mut a: Vec<String> = vec![];
    if c.follow == Follow::L {
        a.push("-L".into());
    }
    a.push("r".into());
    if c.sorted {
        a.push("-sorted".into());
    }
    if let Some(m) = c.win.0 {
        a.extend(["-mindepth".into(), m.to_string()]);
    }
    if let Some(m) = c.win.1 {
        a.extend(["-maxdepth".into(), m.to_string()]);
    }
    match c.order {
        Order::Pre | Order::DepthAfter | Order::DeleteAfter => {}
        // (-d is the other spelling of -depth: used for the cases without -sorted)
        Order::Depth => a.push(if c.sorted { "-depth" } else { "-d" }.into()),
        Order::Delete => a.extend(["(", "-false", "-delete", ")", "-o"].map(String::from)),
    }
    let paths = |a: &mut Vec<String>| {
        a.push("(".into());
        if c.set.is_empty() {
            a.push("-false".into());
        }
        for (i, &n) in c.set.iter().enumerate() {
            if i > 0 {
                a.push("-o".into());
            }
            a.push("-path".into());
            a.push(fs.path_of(n));
        }
        a.push(")".into());
    };
    match c.form {
        Form::PathsPruneOrPrint => {
            a.push("(".into());
            paths(&mut a);
            a.extend(["-prune", "-o", "-print", ")"].map(String::from));
        }
        Form::PrintThenPrune => {
            a.push("(".into());
            a.push("-print".into());
            paths(&mut a);
            a.extend(["-prune", ")"].map(String::from));
        }
        Form::NamePruneOrPrint => {
            a.extend(["(", "-name"].map(String::from));
            a.push(c.name.clone());
            a.extend(["-prune", "-o", "-print", ")"].map(String::from));
        }
    }
    match c.order {
        Order::DepthAfter => a.push(if c.sorted { "-d" } else { "-depth" }.into()),
        Order::DeleteAfter => a.extend(["(", "-true", "-o", "-delete", ")"].map(String::from)),
        _ => {}
    }
    a
}

fn expected(fs: &Fs, c: &Case) -> Vec<String> {
    let depth_first = c.order != Order::Pre;
    let cfg = WalkCfg {
        follow: c.follow,
        mindepth: c.win.0.unwrap_or(0),
        maxdepth: c.win.1.unwrap_or(usize::MAX),
        depth_first,
    };
    let mut notes = WalkNotes::default();
    let mut out = vec![];
    tree::walk(fs, 0, "r", &cfg, &mut notes, &mut |v| {
        let selected = match c.form {
            Form::NamePruneOrPrint => fs.nodes[v.node].name == c.name,
            _ => c.set.contains(&v.node),
        };
        match c.form {
            Form::PathsPruneOrPrint | Form::NamePruneOrPrint => {
                if !selected {
                    out.push(v.path.clone());
                }
            }
            Form::PrintThenPrune => out.push(v.path.clone()),
        }
        tree::Decision {
            prune: selected && !depth_first,
            quit: false,
        }
    });
    out
}

fn order_ok(actual: &[String], depth_first: bool) -> bool {
    for (i, p) in actual.iter().enumerate() {
        let prefix = format!("{p}/");
        for (j, q) in actual.iter().enumerate() {
            if q.starts_with(&prefix) && ((!depth_first && j < i) || (depth_first && j > i)) {
                return false;
            }
        }
    }
    true
}

fn judge(c: &Case, want: &[String], got: &FindOut) -> Option<(String, String)> {
    let tag = format!(
        "{}{:?} {:?}{}",
        if c.follow == Follow::L { "-L " } else { "" },
        c.form,
        c.order,
        if c.win != (None, None) { " with depth bounds" } else { "" }
    );
    if let Err(p) = &got.code {
        return Some((format!("C03 panic at {}", p.split(':').take(2).collect::<Vec<_>>().join(":")), p.clone()));
    }
    let actual: Vec<String> = String::from_utf8_lossy(&got.out).lines().map(|s| s.to_string()).collect();
    let detail = || format!("expected {:?}\nactual   {:?}\nstatus {:?} stderr {:?}", want, actual, got.code, String::from_utf8_lossy(&got.err));
    let (a, w) = (tree::multiset(&actual), tree::multiset(want));
    if a != w {
        let kind = if w.iter().all(|x| a.contains(x)) {
            "entries visited that pruning should have removed (or visited twice)"
        } else if a.iter().all(|x| w.contains(x)) {
            "entries lost (pruning removed more than the pruned directory's descendants)"
        } else {
            "wrong set of entries"
        };
        return Some((format!("C03 {kind} [{tag}]"), detail()));
    }
    if c.sorted {
        if actual != want {
            return Some((format!("C03 visit sequence differs from reference DFS [{tag}]"), detail()));
        }
    } else if !order_ok(&actual, c.order != Order::Pre) {
        return Some((format!("C03 parent/child order wrong without -sorted [{tag}]"), detail()));
    }
    if got.code != Ok(0) {
        return Some((format!("C03 non-zero exit status [{tag}]"), detail()));
    }
    None
}

fn run_tree(ctx: &mut Ctx, forest: &[Shape]) {
    let fs = c03_fs(forest);
    let sbx = ctx.sbx.clone();
    crate::sandbox::clear_dir(&sbx);
    if let Err(e) = crate::sandbox::materialize(&fs, 0, &sbx).and_then(|_| crate::sandbox::validate(&fs, 0, &sbx)) {
        ctx.rep.machinery(format!("tree builder: {e}"));
        return;
    }
    ctx.rep.count("trees", 1);
    let enc = tree::encode_forest(forest);
    ctx.progress_note(&enc);
    let r = fs.child(0, "r").unwrap();
    let mut dirs = vec![r];
    fn collect(fs: &Fs, n: usize, out: &mut Vec<usize>) {
        for &c in &fs.nodes[n].children {
            if fs.is_dir(c) {
                out.push(c);
                collect(fs, c, out);
            } else if fs.is_link(c) {
                out.push(c);
            }
        }
    }
    collect(&fs, r, &mut dirs);
    let follows: &[Follow] = if tree::forest_has_link(forest) { &[Follow::P, Follow::L] } else { &[Follow::P] };
    let nd = dirs.len().min(7);
    let mut names: Vec<String> = fs.nodes.iter().skip(1).map(|n| n.name.clone()).collect();
    names.sort();
    names.dedup();
    for form in [Form::PathsPruneOrPrint, Form::PrintThenPrune, Form::NamePruneOrPrint] {
        // prune sets
        let sets: Vec<(Vec<usize>, String)> = if form == Form::NamePruneOrPrint {
            names.iter().map(|n| (vec![], n.clone())).collect()
        } else {
            (0u32..(1 << nd))
                .map(|m| ((0..nd).filter(|i| m & (1 << i) != 0).map(|i| dirs[i]).collect(), String::new()))
                .collect()
        };
        for (set, name) in sets {
            for order in [Order::Pre, Order::Depth, Order::Delete, Order::DepthAfter, Order::DeleteAfter] {
                for win in WINDOWS {
                    for (sorted, follow) in [true, false].into_iter().flat_map(|s| follows.iter().map(move |f| (s, *f))) {
                        let c = Case { form, order, win, sorted, follow, set: set.clone(), name: name.clone() };
                        ctx.rep.evaluations += 1;
                        if !c.set.is_empty() || form == Form::NamePruneOrPrint {
                            ctx.rep.nontrivial += 1;
                        }
                        let want = expected(&fs, &c);
                        let av = argv(&fs, &c);
                        let args: Vec<&str> = av.iter().map(|s| s.as_str()).collect();
                        let got = run_find(&args);
                        ctx.rep.class(&format!("{:?}/{:?}/printed={}", form, order, want.len().min(8)));
                        if ctx.rep.evaluations % 30_000 == 11 {
                            ctx.rep.sample(json!({"tree": fs.describe(0), "argv": av, "expected": want}));
                        }
                        if let Some((sig, detail)) = judge(&c, &want, &got) {
                            let again = run_find(&args);
                            match judge(&c, &want, &again) {
                                Some((s2, _)) if s2 == sig => ctx.rep.violation(
                                    &sig,
                                    format!("tree {} ; find {:?}\n{}", fs.describe(0), av, detail),
                                    json!({"prop":"C03","forest":enc,"argv":av,"expected":want,"sorted":sorted,"depth_first": order != Order::Pre}),
                                ),
                                _ => ctx.rep.machinery(format!("nondeterministic verdict: {enc} {:?}", av)),
                            }
                        }
                    }
                }
            }
        }
    }
}

fn run(ctx: &mut Ctx) {
    let maxn = bounds(ctx.tier);
    let labels = [Leaf::File, Leaf::EmptyDir, Leaf::LnDir];
    for n in 0..=maxn {
        let mut todo: Vec<Vec<Shape>> = vec![];
        tree::forests(n, &labels, &mut |f| {
            // at most 6 siblings have names
            if f.len() <= NAMES3.len() && ctx.next_mine() {
                todo.push(f.to_vec());
            }
        });
        for f in todo {
            run_tree(ctx, &f);
        }
    }
    scale_slice(ctx);
    if ctx.shard == 0 {
        xdev_slice(ctx);
    }
    if ctx.shard == 1 % ctx.nshards {
        bytewise_order_slice(ctx);
    }
}

/// -xdev / -mount with a second file system mounted inside the tree (a tmpfs on r/m): the mount
/// point itself is visited, nothing below it; -prune on it, on a sibling directory, before and after
/// -print, pre-order and -depth: the siblings that come after the mount point must still be visited.
fn xdev_slice(ctx: &mut Ctx) {
    use std::ffi::CString;
    let sbx = ctx.sbx.clone();
    crate::sandbox::clear_dir(&sbx);
    let mk = |p: &str, dir: bool| {
        if dir {
            std::fs::create_dir_all(sbx.join(p)).unwrap();
        } else {
            std::fs::write(sbx.join(p), b"").unwrap();
        }
    };
    mk("r/a", true);
    mk("r/a/f", false);
    mk("r/m", true);
    mk("r/z", true);
    mk("r/z/q", false);
    let target = CString::new(sbx.join("r/m").to_string_lossy().as_bytes()).unwrap();
    let (src, fst) = (CString::new("none").unwrap(), CString::new("tmpfs").unwrap());
    let rc = unsafe { libc::mount(src.as_ptr(), target.as_ptr(), fst.as_ptr(), 0, std::ptr::null()) };
    if rc != 0 {
        ctx.rep.count("xdev_slice_skipped_(mount_not_permitted)", 1);
        return;
    }
    struct Unmount(CString);
    impl Drop for Unmount {
        fn drop(&mut self) {
            unsafe { libc::umount2(self.0.as_ptr(), libc::MNT_DETACH) };
        }
    }
    let _guard = Unmount(target.clone());
    mk("r/m/x", false);
    mk("r/m/d", true);
    mk("r/m/d/y", false);
    std::os::unix::fs::symlink("m", sbx.join("r/k")).unwrap();
    let all = ["r", "r/a", "r/a/f", "r/k", "r/m", "r/m/d", "r/m/d/y", "r/m/x", "r/z", "r/z/q"];
    let below_mount = |p: &str| p.starts_with("r/m/");
    let cases: Vec<(Vec<&str>, Vec<&str>)> = {
        let mut v: Vec<(Vec<&str>, Vec<&str>)> = vec![];
        for opt in ["-xdev", "-mount"] {
            let xdev: Vec<&str> = all.iter().copied().filter(|p| !below_mount(p)).collect();
            v.push((vec![opt, "-print"], xdev.clone()));
            v.push((vec![opt, "(", "-name", "m", "-prune", ")", "-o", "-print"], xdev.iter().copied().filter(|p| *p != "r/m").collect()));
            v.push((vec![opt, "-print", "-name", "m", "-prune"], xdev.clone()));
            v.push((vec![opt, "-name", "m", "-prune", "-print"], vec!["r/m"]));
            v.push((vec![opt, "(", "-name", "k", "-prune", ")", "-o", "-print"], xdev.iter().copied().filter(|p| *p != "r/k").collect()));
            v.push((vec![opt, "(", "-name", "a", "-prune", ")", "-o", "-print"], xdev.iter().copied().filter(|p| !p.starts_with("r/a")).collect()));
            v.push((vec![opt, "(", "-type", "d", "-name", "[am]", "-prune", ")", "-o", "-print"], vec!["r", "r/k", "r/z", "r/z/q"]));
            v.push((vec![opt, "-depth", "-print"], vec!["r/a/f", "r/a", "r/k", "r/m", "r/z/q", "r/z", "r"]));
            v.push((vec![opt, "-maxdepth", "1", "(", "-name", "m", "-prune", ")", "-o", "-print"], vec!["r", "r/a", "r/k", "r/z"]));
        }
        // under -L a link to a directory on the other file system is a directory that is not
        // entered: pruning it must leave the later siblings alone
        for opt in ["-xdev", "-mount"] {
            v.push((vec!["-L", opt, "(", "-name", "k", "-prune", ")", "-o", "-print"], vec!["r", "r/a", "r/a/f", "r/m", "r/z", "r/z/q"]));
            v.push((vec!["-L", opt, "-print"], vec!["r", "r/a", "r/a/f", "r/k", "r/m", "r/z", "r/z/q"]));
        }
        // without -xdev the mount is entered, and pruning it leaves its siblings alone too
        v.push((vec!["-print"], all.to_vec()));
        v.push((vec!["(", "-name", "m", "-prune", ")", "-o", "-print"], all.iter().copied().filter(|p| !p.starts_with("r/m")).collect()));
        v
    };
    std::env::set_current_dir(&sbx).unwrap();
    for (expr, want) in cases {
        let (flags, rest): (&[&str], &[&str]) = if expr[0] == "-L" { (&expr[..1], &expr[1..]) } else { (&[], &expr[..]) };
        let mut args: Vec<&str> = flags.to_vec();
        args.extend(["r", "-sorted"]);
        args.extend(rest.iter());
        let got = run_find(&args);
        ctx.rep.evaluations += 1;
        ctx.rep.nontrivial += 1;
        ctx.rep.count("xdev_cases", 1);
        let lines: Vec<String> = String::from_utf8_lossy(&got.out).lines().map(String::from).collect();
        if lines != want || got.code != Ok(0) {
            let lost_sibling = want.iter().any(|w| !lines.iter().any(|l| l == w) && (w.starts_with("r/z") || *w == "r/m"));
            ctx.rep.violation(
                if lost_sibling { "C03 with -xdev/-mount the entries after a mount point are lost when it is pruned" } else { "C03 -xdev/-mount: visit list differs from the reference" },
                format!("tree r/{{a/f, m (a mounted tmpfs holding x, d/y), z/q}}; find {:?}\nexpected {:?}\nactual   {:?} status {:?} stderr {:?}", args, want, lines, got.code, String::from_utf8_lossy(&got.err)),
                json!({"prop":"C03","xdev":true}),
            );
        }
    }
    // several starting points on different file systems in one run: what -xdev compares with is the
    // file system of the starting point the entry was found under
    mk("r/z/p", true);
    mk("r/z/p/w", false);
    mk("r/m/p", true);
    mk("r/m/p/w", false);
    let per_root = |root: &str, pruned: bool, xdev: bool| -> Vec<&'static str> {
        let v: Vec<&'static str> = match root {
            "r/m" => vec!["r/m", "r/m/d", "r/m/d/y", "r/m/p", "r/m/p/w", "r/m/x"],
            "r/z" => vec!["r/z", "r/z/p", "r/z/p/w", "r/z/q"],
            "r/a" => vec!["r/a", "r/a/f"],
            _ => vec!["r", "r/a", "r/a/f", "r/k", "r/m", "r/m/d", "r/m/d/y", "r/m/p", "r/m/p/w", "r/m/x", "r/z", "r/z/p", "r/z/p/w", "r/z/q"],
        };
        v.into_iter().filter(|p| !(pruned && (p.ends_with("/p") || p.ends_with("/p/w")))).filter(|p| !(xdev && root == "r" && p.starts_with("r/m/"))).collect()
    };
    for roots in [vec!["r/m", "r/z"], vec!["r/z", "r/m"], vec!["r/z", "r/m", "r/a", "r/m"], vec!["r", "r/m"], vec!["r/m", "r"], vec!["r/a", "r", "r/m", "r/z"]] {
        for opt in ["-xdev", "-mount", ""] {
            for pruned in [true, false] {
                let mut args: Vec<&str> = roots.clone();
                args.push("-sorted");
                if !opt.is_empty() {
                    args.push(opt);
                }
                if pruned {
                    args.extend(["(", "-name", "p", "-prune", ")", "-o", "-print"]);
                } else {
                    args.push("-print");
                }
                let want: Vec<&str> = roots.iter().flat_map(|r| per_root(r, pruned, !opt.is_empty())).collect();
                let got = run_find(&args);
                ctx.rep.evaluations += 1;
                ctx.rep.nontrivial += 1;
                ctx.rep.count("xdev_cases", 1);
                let lines: Vec<String> = String::from_utf8_lossy(&got.out).lines().map(String::from).collect();
                if lines != want || got.code != Ok(0) {
                    ctx.rep.violation(
                        "C03 -xdev/-mount with starting points on different file systems: visit list differs from the reference",
                        format!("tree r/{{a/f, m (a mounted tmpfs holding x, d/y, p/w), z/{{q, p/w}}}}; find {:?}\nexpected {:?}\nactual   {:?} status {:?} stderr {:?}", args, want, lines, got.code, String::from_utf8_lossy(&got.err)),
                        json!({"prop":"C03","xdev":true}),
                    );
                }
            }
        }
    }
}

/// -sorted is byte-wise name order for every name, also for names that are not valid UTF-8 (0x80 and a
/// truncated sequence sort before every well-formed multi-byte character, 0xff after all of them): eleven
/// sibling directories named by such byte strings, each holding one file named by its rank; the files
/// must come out 00..10 (pre-order, -depth, and with a -prune on one of them).
fn bytewise_order_slice(ctx: &mut Ctx) {
    use std::os::unix::ffi::OsStrExt;
    let base = ctx.sbx.join("bo");
    let _ = crate::sandbox::force_remove(&base);
    std::fs::create_dir_all(&base).unwrap();
    let mut names: Vec<&[u8]> = vec![b"k", b"k\x80", b"k\xc3\xa9", b"k\xe2\x82", b"k\xe3\x81\x82", b"k\xf0\x90\x80\x80", b"k\xff", b"ka", b"kZ", b"k\xc3", b"k\xef\xbf\xbd"];
    // created in an order unrelated to the expected one
    for n in names.iter().rev() {
        std::fs::create_dir(base.join(std::ffi::OsStr::from_bytes(n))).unwrap();
    }
    names.sort();
    for (rank, n) in names.iter().enumerate() {
        std::fs::write(base.join(std::ffi::OsStr::from_bytes(n)).join(format!("{rank:02}")), b"").unwrap();
    }
    std::env::set_current_dir(&ctx.sbx).unwrap();
    let want: Vec<String> = (0..names.len()).map(|r| format!("{r:02}")).collect();
    for (what, args, skip) in [
        ("pre-order", vec!["bo", "-sorted", "-type", "f", "-printf", "%f\\n"], None),
        ("-depth", vec!["bo", "-sorted", "-depth", "-type", "f", "-printf", "%f\\n"], None),
        ("-d", vec!["bo", "-d", "-sorted", "-type", "f", "-printf", "%f\\n"], None),
        ("with a pruned sibling", vec!["bo", "-sorted", "(", "-name", "ka", "-prune", ")", "-o", "-type", "f", "-printf", "%f\\n"], Some("ka")),
    ] {
        let got = run_find(&args);
        ctx.rep.evaluations += 1;
        ctx.rep.nontrivial += 1;
        ctx.rep.count("bytewise_order_cases", 1);
        let lines: Vec<String> = String::from_utf8_lossy(&got.out).lines().map(String::from).collect();
        let want: Vec<String> = match skip {
            Some(n) => {
                let r = names.iter().position(|x| *x == n.as_bytes()).unwrap();
                want.iter().filter(|w| **w != format!("{r:02}")).cloned().collect()
            }
            None => want.clone(),
        };
        if lines != want || got.code != Ok(0) {
            ctx.rep.violation(
                "C03 -sorted: siblings whose names are not all valid UTF-8 are not visited in byte-wise name order",
                format!("{what}: find {:?} printed {:?}, expected {:?} (directories named, in byte order, {:?}); status {:?}", args, lines, want, names.iter().map(|n| n.iter().map(|b| format!("{b:02x}")).collect::<String>()).collect::<Vec<_>>(), got.code),
                json!({"prop":"C03","bytewise":true}),
            );
        }
    }
    let _ = crate::sandbox::force_remove(&base);
}

/// One hand-built tree beyond the exhaustive bound: sibling names of 15, 16, 17, 32 and 33 bytes
/// sharing long prefixes next to 1-byte names (byte order must hold at every length), a chain six
/// directories deep with files at every level, a link to a directory between later siblings, 40
/// files in one directory. Prune sets: every single directory or link, and every pair; all forms,
/// orders, windows, -sorted on/off, -P/-L.
fn scale_slice(ctx: &mut Ctx) {
    let mut fs = Fs::new();
    let out = fs.add(0, "out", K::Dir);
    let d = fs.add(out, "d", K::Dir);
    fs.add(d, "g", K::File);
    let r = fs.add(0, "r", K::Dir);
    let a16 = "a".repeat(16);
    for n in ["b", "B", &format!("{a16}z"), &a16, &a16[..15], &format!("{a16}{}", "b".repeat(16)), &format!("{a16}{}", "b".repeat(17)), "z"] {
        fs.add(r, n, K::File);
    }
    let long_dir = fs.add(r, &format!("{a16}{a16}"), K::Dir);
    fs.add(long_dir, "in", K::File);
    let mut cur = fs.add(r, "c", K::Dir);
    for lvl in 0..6 {
        fs.add(cur, &format!("f{lvl}"), K::File);
        cur = fs.add(cur, "n", K::Dir);
    }
    fs.add(r, "l", K::Link("../out/d".into()));
    let sdir = fs.add(r, "s", K::Dir);
    let u = fs.add(sdir, "u", K::Dir);
    fs.add(u, "g", K::File);
    let many = fs.add(r, "m", K::Dir);
    for i in 0..40 {
        fs.add(many, &format!("e{i:02}"), K::File);
    }
    let sbx = ctx.sbx.clone();
    crate::sandbox::clear_dir(&sbx);
    if let Err(e) = crate::sandbox::materialize(&fs, 0, &sbx).and_then(|_| crate::sandbox::validate(&fs, 0, &sbx)) {
        ctx.rep.machinery(format!("tree builder (scale slice): {e}"));
        return;
    }
    let mut dirs = vec![r];
    fn collect(fs: &Fs, n: usize, out: &mut Vec<usize>) {
        for &c in &fs.nodes[n].children {
            if fs.is_dir(c) {
                out.push(c);
                collect(fs, c, out);
            } else if fs.is_link(c) {
                out.push(c);
            }
        }
    }
    collect(&fs, r, &mut dirs);
    let mut sets: Vec<Vec<usize>> = vec![vec![]];
    for i in 0..dirs.len() {
        sets.push(vec![dirs[i]]);
        for j in i + 1..dirs.len() {
            sets.push(vec![dirs[i], dirs[j]]);
        }
    }
    let mut names: Vec<String> = fs.nodes.iter().skip(1).map(|n| n.name.clone()).collect();
    names.sort();
    names.dedup();
    let mut job = 0u64;
    for form in [Form::PathsPruneOrPrint, Form::PrintThenPrune, Form::NamePruneOrPrint] {
        let these: Vec<(Vec<usize>, String)> = if form == Form::NamePruneOrPrint { names.iter().map(|n| (vec![], n.clone())).collect() } else { sets.iter().map(|s| (s.clone(), String::new())).collect() };
        for (set, name) in these {
            for order in [Order::Pre, Order::Depth, Order::DeleteAfter] {
                for win in WINDOWS {
                    for (sorted, follow) in [(true, Follow::P), (true, Follow::L), (false, Follow::P)] {
                        job += 1;
                        if job % ctx.nshards != ctx.shard {
                            continue;
                        }
                        let c = Case { form, order, win, sorted, follow, set: set.clone(), name: name.clone() };
                        ctx.rep.evaluations += 1;
                        ctx.rep.nontrivial += 1;
                        ctx.rep.count("scale_cases", 1);
                        let want = expected(&fs, &c);
                        let av = argv(&fs, &c);
                        let args: Vec<&str> = av.iter().map(|s| s.as_str()).collect();
                        let got = run_find(&args);
                        if let Some((sig, detail)) = judge(&c, &want, &got) {
                            let d: String = detail.chars().take(1500).collect();
                            ctx.rep.violation(&sig, format!("scale tree ; find {:?}\n{d}", av), json!({"prop":"C03","scale":true}));
                        }
                    }
                }
            }
        }
    }
}

fn replay(case: &Value, ctx: &mut Ctx) -> Option<String> {
    if case["bytewise"] == true {
        bytewise_order_slice(ctx);
        return ctx.rep.violations.keys().next().cloned();
    }
    if case["xdev"] == true {
        xdev_slice(ctx);
        return ctx.rep.violations.keys().next().cloned();
    }
    if case["scale"] == true {
        let (s0, n0) = (ctx.shard, ctx.nshards);
        ctx.shard = 0;
        ctx.nshards = 1;
        scale_slice(ctx);
        ctx.shard = s0;
        ctx.nshards = n0;
        return ctx.rep.violations.keys().next().cloned();
    }
    let forest = tree::decode_forest(case["forest"].as_str()?)?;
    let fs = c03_fs(&forest);
    let sbx = ctx.sbx.clone();
    crate::sandbox::clear_dir(&sbx);
    crate::sandbox::materialize(&fs, 0, &sbx).ok()?;
    let av: Vec<String> = case["argv"].as_array()?.iter().map(|v| v.as_str().unwrap_or("").to_string()).collect();
    let want: Vec<String> = case["expected"].as_array()?.iter().map(|v| v.as_str().unwrap_or("").to_string()).collect();
    let args: Vec<&str> = av.iter().map(|s| s.as_str()).collect();
    let got = run_find(&args);
    let actual: Vec<String> = String::from_utf8_lossy(&got.out).lines().map(|s| s.to_string()).collect();
    let sorted = case["sorted"].as_bool().unwrap_or(true);
    let bad = if sorted {
        actual != want
    } else {
        tree::multiset(&actual) != tree::multiset(&want) || !order_ok(&actual, case["depth_first"].as_bool().unwrap_or(false))
    } || got.code != Ok(0);
    if bad {
        let sig = "C03 replayed case still differs from the recorded reference".to_string();
        ctx.rep.violation(&sig, format!("find {:?}\nexpected {:?}\nactual   {:?}", av, want, actual), case.clone());
        Some(sig)
    } else {
        None
    }
}
