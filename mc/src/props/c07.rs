//! C07 -print0 / -print byte fidelity and the pipe into xargs -0 — every name up to a bound
//! over a nasty-character alphabet, as files, as directories with such files, as starting
//! points; in-process for the bytes, a real `find | xargs -0 vrec` pipeline for delivery.

use crate::binrun;
use crate::engine::{Ctx, Prop, Spec, Tier};
use crate::findrun::run_find;
use serde_json::{json, Value};
use std::ffi::OsStr;
use std::os::unix::ffi::OsStrExt;
use std::path::Path;

pub const PROP: Prop = Prop {
    id: "C07",
    spec,
    run,
    replay,
};

const ALPHA: [&str; 17] = [" ", "\t", "\n", "\"", "'", "\\", "-", "*", "?", "[", "{", "}", "$", "(", "a", "\u{e9}", "."];

fn maxlen(t: Tier) -> usize {
    t.pick(2, 4)
}

fn spec(t: Tier) -> Spec {
    Spec {
        id: "C07",
        level: "exploration",
        rule: format!("every name of <= {} characters over {:?} (except . and ..) is created as a file (t/f/NAME), as a directory holding another such name (t/d/NAME/NEXT), and used as a starting point (as given, and for directories respelled NAME/, NAME//, NAME/., ./NAME, .//NAME/ under -P, -H and -L (printed as given, the entry below joined with exactly one more '/' unless the spelling already ends in one); the starting-point lists also go through the real pipeline; the same directory under seven spellings one after the other in one run); find_main's -print0 and -print output must be, byte for byte, the starting point as given + '/'-joined names + one delimiter per entry and nothing else (reference list built from the names, sequence under -sorted); the same tree goes through a real `find -print0 | xargs -0 vrec LOG` pipeline and the recorder's argv must be that list exactly, each path once (every pipeline also runs with one of eight other spellings of the xargs side in turn: --null, -0 -i / --null --replace / -i -0 / -0 -I R / -IR --null / -0 --replace=@@ with the replace string as the command's argument, -0 -n 3); failing-command slice: the same pipeline with -n 3 and the recorder exiting 1, 125, 126, 127, 130, 254 on its first batches — every path is still delivered; extra slices: a directory holding dangling links and a link to a directory under nine spellings x -P/-H/-L x (plain, -follow, -depth); a path with a newline followed by >1024 bytes through real stdout (pipe and file), a listing arranged so that a multi-byte character straddles the 8192-byte buffer refill of xargs -0, and listings of 2500 entries arranged so that a NUL is exactly the last byte of a full 8192-byte buffer / the first byte of the next (pipeline and regular file); non-trivial = name containing a character other than 'a' and '.'; one entry of every printed length from 3 bytes up to about 510 (thorough: about 4000) bytes, each delimited on its own, through the pipeline", maxlen(t), ALPHA),
        bound: json!({"max_name_len": maxlen(t), "alphabet": ALPHA}),
        assumptions: vec!["names are valid UTF-8 (the statement's scope); tmpfs".into()],
        shards: 0,
        wall_cap_s: t.pick(300, 1800),
    }
}

fn names(maxlen: usize) -> Vec<String> {
    let mut out = vec![];
    fn rec(cur: &mut String, depth: usize, maxlen: usize, out: &mut Vec<String>) {
        if !cur.is_empty() && cur != "." && cur != ".." {
            out.push(cur.clone());
        }
        if depth == maxlen {
            return;
        }
        for a in ALPHA {
            let l = cur.len();
            cur.push_str(a);
            rec(cur, depth + 1, maxlen, out);
            cur.truncate(l);
        }
    }
    rec(&mut String::new(), 0, maxlen, &mut out);
    out
}

fn osn(s: &str) -> &OsStr {
    OsStr::from_bytes(s.as_bytes())
}

fn sorted_bytes(v: &[String]) -> Vec<String> {
    let mut v = v.to_vec();
    v.sort_by(|a, b| a.as_bytes().cmp(b.as_bytes()));
    v
}

/// Build t/f/<name> files and t/d/<name>/<next> and return the reference -sorted listing of `t`.
fn build(sbx: &Path, batch: &[String]) -> Vec<String> {
    crate::sandbox::clear_dir(sbx);
    let t = sbx.join("t");
    std::fs::create_dir_all(t.join("f")).unwrap();
    std::fs::create_dir_all(t.join("d")).unwrap();
    for (i, n) in batch.iter().enumerate() {
        std::fs::write(t.join("f").join(osn(n)), b"").unwrap();
        let d = t.join("d").join(osn(n));
        std::fs::create_dir(&d).unwrap();
        let next = &batch[(i + 1) % batch.len()];
        std::fs::write(d.join(osn(next)), b"").unwrap();
    }
    // reference listing in -sorted pre-order: t, t/d, t/d/<n> (sorted), t/d/<n>/<next>, t/f, t/f/<n>...
    let mut exp = vec!["t".to_string(), "t/d".to_string()];
    let s = sorted_bytes(batch);
    for n in &s {
        exp.push(format!("t/d/{n}"));
        let i = batch.iter().position(|x| x == n).unwrap();
        exp.push(format!("t/d/{n}/{}", batch[(i + 1) % batch.len()]));
    }
    exp.push("t/f".to_string());
    for n in &s {
        exp.push(format!("t/f/{n}"));
    }
    exp
}

fn joined(list: &[String], delim: u8) -> Vec<u8> {
    let mut b = vec![];
    for p in list {
        b.extend_from_slice(p.as_bytes());
        b.push(delim);
    }
    b
}

fn show(b: &[u8]) -> String {
    String::from_utf8_lossy(b).chars().take(300).collect::<String>().replace('\0', "␀")
}

fn first_diff(a: &[u8], b: &[u8]) -> String {
    let i = a.iter().zip(b.iter()).position(|(x, y)| x != y).unwrap_or(a.len().min(b.len()));
    let lo = i.saturating_sub(30);
    format!("first difference at byte {i}: expected …{:?} actual …{:?} (lengths {} / {})", show(&a[lo..(i + 30).min(a.len())]), show(&b[lo..(i + 30).min(b.len())]), a.len(), b.len())
}

fn pipeline_check(ctx: &mut Ctx, sbx: &Path, root_args: &[&str], exp: &[String], what: &str) {
    pipeline_check_in(ctx, sbx, sbx, root_args, exp, what)
}

/// the same with the pipeline's working directory `cwd` (the recorder log stays in `sbx`)
fn pipeline_check_in(ctx: &mut Ctx, sbx: &Path, cwd: &Path, root_args: &[&str], exp: &[String], what: &str) {
    let vrec = crate::engine::self_bin_dir().join("vrec");
    let log = sbx.join(".mc-vrec.log");
    let _ = std::fs::remove_file(&log);
    let mut a1: Vec<&OsStr> = root_args.iter().map(OsStr::new).collect();
    a1.push(OsStr::new("-print0"));
    // the plain form, and one of the other ways of writing the xargs side in turn (spellings of -0,
    // replace mode in its spellings and in both orders with -0, -n 3): each delivers every path once
    const FORMS: [(&[&str], &[&str]); 9] = [
        (&["-0"], &[]),
        (&["--null"], &[]),
        (&["-0", "-i"], &["{}"]),
        (&["--null", "--replace"], &["{}"]),
        (&["-i", "-0"], &["{}"]),
        (&["-0", "-I", "{}"], &["{}"]),
        (&["-0", "-n", "3"], &[]),
        (&["-0", "--replace=@@"], &["@@"]),
        (&["-I{}", "--null"], &["{}"]),
    ];
    let turn = PIPE_TURN.with(|t| {
        let v = t.get();
        t.set(v + 1);
        v
    });
    for mut fi in [0usize, 1 + turn % (FORMS.len() - 1)] {
    // (replace mode starts one process per path: kept to listings of at most 300 paths)
    if !FORMS[fi].1.is_empty() && exp.len() > 300 {
        fi = if turn % 2 == 0 { 1 } else { 6 };
    }
    let (xopts, cmdargs) = FORMS[fi];
    let _ = std::fs::remove_file(&log);
    let mut a2: Vec<&OsStr> = xopts.iter().map(OsStr::new).collect();
    a2.extend([vrec.as_os_str(), log.as_os_str()]);
    a2.extend(cmdargs.iter().map(OsStr::new));
    let what = &if fi == 0 { what.to_string() } else { format!("{what}; xargs {}", xopts.join(" ")) };
    let (f, x) = binrun::pipeline(&binrun::repo_bin("find"), &a1, &binrun::repo_bin("xargs"), &a2, cwd, &[]);
    ctx.rep.evaluations += 1;
    ctx.rep.count("pipeline_runs", 1);
    let recs = crate::vreclog::read(&log).unwrap_or_default();
    let got: Vec<Vec<u8>> = recs.into_iter().flat_map(|r| r.args).collect();
    let want: Vec<Vec<u8>> = exp.iter().map(|s| s.as_bytes().to_vec()).collect();
    let _ = std::fs::remove_file(&log);
    if f.code != Some(0) || x.code != Some(0) {
        ctx.rep.violation(
            &format!("C07 pipeline find -print0 | xargs -0 failed ({what})"),
            format!("find status {:?} stderr {:?}; xargs status {:?} stderr {:?}", f.code, show(&f.err), x.code, show(&x.err)),
            json!({"prop":"C07","kind":"pipeline","what":what}),
        );
        continue;
    }
    if got != want {
        let missing = want.iter().filter(|w| !got.contains(w)).count();
        let extra = got.iter().filter(|g| !want.contains(g)).count();
        let firstbad = got.iter().zip(want.iter()).find(|(g, w)| g != w).map(|(g, w)| format!("expected {:?} got {:?}", show(w), show(g))).unwrap_or_default();
        ctx.rep.violation(
            &format!("C07 argv delivered through find -print0 | xargs -0 differs from the matched paths ({what})"),
            format!("{} expected, {} delivered, {missing} missing, {extra} unexpected; {firstbad}", want.len(), got.len()),
            json!({"prop":"C07","kind":"pipeline","what":what}),
        );
    } else {
        ctx.rep.traces_validated += 1;
    }
    }
}

thread_local! {
    static PIPE_TURN: std::cell::Cell<usize> = const { std::cell::Cell::new(0) };
}

fn run(ctx: &mut Ctx) {
    let sbx = ctx.sbx.clone();
    let all = names(maxlen(ctx.tier));
    // batches of names; each shard takes whole batches
    let bs = 48usize;
    let batches: Vec<Vec<String>> = all.chunks(bs).map(|c| c.to_vec()).collect();
    for (bi, batch) in batches.iter().enumerate() {
        if !ctx.mine(bi as u64) {
            continue;
        }
        ctx.progress(bi as u64);
        let exp = build(&sbx, batch);
        let nontriv = batch.iter().filter(|n| n.chars().any(|c| c != 'a' && c != '.')).count() as u64;
        // in-process: -print0 and -print
        for (act, delim) in [("-print0", 0u8), ("-print", b'\n')] {
            let got = run_find(&["t", "-sorted", act]);
            ctx.rep.evaluations += 1;
            ctx.rep.nontrivial += nontriv;
            ctx.rep.count("names_as_files_and_dirs", 2 * batch.len() as u64);
            let want = joined(&exp, delim);
            if got.code != Ok(0) || got.out != want {
                ctx.rep.violation(
                    &format!("C07 {act} output is not root + '/'-joined names + delimiter"),
                    format!("batch {bi}: status {:?}; {}", got.code, first_diff(&want, &got.out)),
                    json!({"prop":"C07","kind":"inproc","batch":batch,"action":act}),
                );
            }
        }
        if bi % 4 == 0 || ctx.rep.samples.is_empty() {
            ctx.rep.sample(json!({"names_in_batch": batch.iter().take(12).collect::<Vec<_>>(), "expected_first_paths": exp.iter().take(6).collect::<Vec<_>>()}));
        }
        // real pipeline
        pipeline_check(ctx, &sbx, &["t", "-sorted"], &exp, "names as files and directories");
        // names as starting points (cwd = t/f): every name that can be an operand
        let usable: Vec<&String> = batch.iter().filter(|n| !n.starts_with('-') && !["!", "(", ")", ","].contains(&n.as_str())).collect();
        let tf = sbx.join("t/f");
        std::env::set_current_dir(&tf).unwrap();
        for chunk in usable.chunks(40) {
            let mut args: Vec<&str> = chunk.iter().map(|s| s.as_str()).collect();
            args.push("-print0");
            let got = run_find(&args);
            ctx.rep.evaluations += 1;
            ctx.rep.count("names_as_starting_points", chunk.len() as u64);
            let want = joined(&chunk.iter().map(|s| s.to_string()).collect::<Vec<_>>(), 0);
            if got.code != Ok(0) || got.out != want {
                ctx.rep.violation(
                    "C07 starting point not printed exactly as given",
                    format!("status {:?}; {}", got.code, first_diff(&want, &got.out)),
                    json!({"prop":"C07","kind":"roots","roots":chunk}),
                );
            }
        }
        std::env::set_current_dir(&sbx).unwrap();
        // the same names as starting points through the real pipeline (every 3rd batch, and always the
        // first, which holds the blank-only names ' ', TAB, newline)
        if bi % 3 == 0 && !usable.is_empty() {
            let roots: Vec<&str> = usable.iter().map(|s| s.as_str()).collect();
            let exp2: Vec<String> = usable.iter().map(|s| s.to_string()).collect();
            pipeline_check_in(ctx, &sbx, &tf, &roots, &exp2, "names as starting points");
        }
        // directories as starting points spelled with a trailing '/', under every follow mode:
        // printed as given, the entry below joined without a second '/'
        let td = sbx.join("t/d");
        std::env::set_current_dir(&td).unwrap();
        for flag in ["-P", "-H", "-L"] {
            // (prefix, suffix) spellings of the directory NAME: NAME/  NAME//  NAME/.  ./NAME  .//NAME/
            for (pre, suf) in [("", "/"), ("", "//"), ("", "/."), ("./", ""), (".//", "/")] {
                for chunk in usable.chunks(40) {
                    let spelled: Vec<String> = chunk.iter().map(|n| format!("{pre}{n}{suf}")).collect();
                    let mut args: Vec<&str> = vec![flag];
                    args.extend(spelled.iter().map(|s| s.as_str()));
                    args.extend(["-sorted", "-print0"]);
                    let got = run_find(&args);
                    ctx.rep.evaluations += 1;
                    ctx.rep.count("directories_as_respelled_starting_points", chunk.len() as u64);
                    let mut want_list: Vec<String> = vec![];
                    for (n, sp) in chunk.iter().zip(&spelled) {
                        let i = batch.iter().position(|x| &x == n).unwrap();
                        want_list.push(sp.clone());
                        want_list.push(format!("{sp}{}{}", if sp.ends_with('/') { "" } else { "/" }, batch[(i + 1) % batch.len()]));
                    }
                    let want = joined(&want_list, 0);
                    if got.code != Ok(0) || got.out != want {
                        ctx.rep.violation(
                            &format!("C07 starting point spelled {pre}NAME{suf} not printed exactly as given [{flag}]"),
                            format!("status {:?}; {}", got.code, first_diff(&want, &got.out)),
                            json!({"prop":"C07","kind":"roots","roots":spelled,"flag":flag}),
                        );
                    }
                }
            }
        }
        // the same directory under several spellings one after the other in one run (what is printed for
        // one starting point must not depend on how the directory was spelled just before)
        for flag in ["-P", "-L"] {
            for chunk in usable.chunks(8) {
                let mut spelled: Vec<String> = vec![];
                let mut want_list: Vec<String> = vec![];
                for n in chunk {
                    let i = batch.iter().position(|x| &x == n).unwrap();
                    for (pre, suf) in [("", "/."), ("", ""), ("./", ""), ("", "/"), ("", ""), (".//", "/."), ("", "//")] {
                        let sp = format!("{pre}{n}{suf}");
                        want_list.push(sp.clone());
                        want_list.push(format!("{sp}{}{}", if sp.ends_with('/') { "" } else { "/" }, batch[(i + 1) % batch.len()]));
                        spelled.push(sp);
                    }
                }
                let mut args: Vec<&str> = vec![flag];
                args.extend(spelled.iter().map(|s| s.as_str()));
                args.extend(["-sorted", "-print0"]);
                let got = run_find(&args);
                ctx.rep.evaluations += 1;
                ctx.rep.count("directories_under_several_spellings_in_one_run", chunk.len() as u64);
                let want = joined(&want_list, 0);
                if got.code != Ok(0) || got.out != want {
                    ctx.rep.violation(
                        &format!("C07 the same directory given under several spellings in one run: a starting point is not printed exactly as given [{flag}]"),
                        format!("status {:?}; {}", got.code, first_diff(&want, &got.out)),
                        json!({"prop":"C07","kind":"roots","roots":spelled,"flag":flag}),
                    );
                }
            }
        }
        std::env::set_current_dir(&sbx).unwrap();
    }
    if ctx.shard == 0 {
        long_newline_path(ctx);
    }
    if ctx.shard == 1 % ctx.nshards {
        buffer_edge_listing(ctx);
    }
    if ctx.shard == 2 % ctx.nshards {
        delimiter_at_edge_listing(ctx);
    }
    if ctx.shard == 3 % ctx.nshards {
        failing_command_slice(ctx);
    }
    if ctx.shard == 4 % ctx.nshards {
        dangling_under_spellings(ctx);
    }
    if ctx.shard == 5 % ctx.nshards {
        every_path_length(ctx);
    }
    crate::sandbox::clear_dir(&sbx);
}

/// A directory holding a dangling symbolic link (and a link to a directory), given under nine spellings
/// and every follow mode: under -L the dangling link is reported through the walker's error path, and
/// must still be printed as the starting point as given + '/' + its name.
fn dangling_under_spellings(ctx: &mut Ctx) {
    let sbx = ctx.sbx.clone();
    let base = sbx.join("dl");
    let _ = crate::sandbox::force_remove(&base);
    std::fs::create_dir_all(base.join("d/sub")).unwrap();
    std::fs::write(base.join("d/sub/f"), b"").unwrap();
    std::fs::write(base.join("d/x"), b"").unwrap();
    std::os::unix::fs::symlink("nowhere", base.join("d/gone")).unwrap();
    std::os::unix::fs::symlink("nowhere/else", base.join("d/sub/gone2")).unwrap();
    std::os::unix::fs::symlink("sub", base.join("d/ls")).unwrap();
    std::env::set_current_dir(&base).unwrap();
    for flag in ["-P", "-H", "-L"] {
        for word in ["", "-follow", "-depth"] {
            let mut spelled: Vec<&str> = vec![];
            let mut want_list: Vec<String> = vec![];
            for sp in ["d", "d/", "d//", "d/.", "d/./", "./d", ".//d", "./d//", "d/sub/../../d"] {
                spelled.push(sp);
                let j = |n: &str| format!("{sp}{}{n}", if sp.ends_with('/') { "" } else { "/" });
                let follows = flag == "-L" || word == "-follow";
                let mut one: Vec<String> = vec![sp.to_string(), j("gone"), j("ls")];
                if follows {
                    one.extend([j("ls/f"), j("ls/gone2")]);
                }
                one.extend([j("sub"), j("sub/f"), j("sub/gone2"), j("x")]);
                if word == "-depth" {
                    // children before their directory
                    let mut post: Vec<String> = vec![j("gone")];
                    if follows {
                        post.extend([j("ls/f"), j("ls/gone2")]);
                    }
                    post.extend([j("ls"), j("sub/f"), j("sub/gone2"), j("sub"), j("x"), sp.to_string()]);
                    one = post;
                }
                want_list.extend(one);
            }
            let mut args: Vec<&str> = vec![flag];
            args.extend(spelled.iter().copied());
            args.push("-sorted");
            if !word.is_empty() {
                args.push(word);
            }
            args.push("-print0");
            let got = run_find(&args);
            ctx.rep.evaluations += 1;
            ctx.rep.nontrivial += 1;
            ctx.rep.count("dangling_link_under_spellings_runs", 1);
            let want = joined(&want_list, 0);
            if got.code != Ok(0) || got.out != want {
                ctx.rep.violation(
                    &format!("C07 a directory holding dangling links, given under nine spellings: a path is not the starting point as given + '/'-joined names [{flag}{}{word}]", if word.is_empty() { "" } else { " " }),
                    format!("find {:?}: status {:?}; {}; stderr {:?}", args, got.code, first_diff(&want, &got.out), String::from_utf8_lossy(&got.err)),
                    json!({"prop":"C07","kind":"dangling"}),
                );
            }
        }
    }
    std::env::set_current_dir(&sbx).unwrap();
    let _ = crate::sandbox::force_remove(&base);
}

/// a directory whose name contains a newline, with > 1024 bytes of path below it: through the
/// real stdout (pipe and regular file) -print/-print0 must not lose bytes
fn long_newline_path(ctx: &mut Ctx) {
    let sbx = ctx.sbx.clone();
    crate::sandbox::clear_dir(&sbx);
    let mut exp = vec!["top".to_string()];
    let mut p = sbx.join("top");
    std::fs::create_dir(&p).unwrap();
    let mut rel = "top".to_string();
    for comp in ["a\nb".to_string(), "x".repeat(250), "y".repeat(250), "\u{e9}".repeat(120), "z".repeat(250), "w".repeat(250)] {
        p = p.join(osn(&comp));
        std::fs::create_dir(&p).unwrap();
        rel = format!("{rel}/{comp}");
        exp.push(rel.clone());
    }
    std::fs::write(p.join("leaf file"), b"").unwrap();
    exp.push(format!("{rel}/leaf file"));
    for (act, delim) in [("-print0", 0u8), ("-print", b'\n')] {
        let want = joined(&exp, delim);
        // pipe
        let o = binrun::run(&binrun::repo_bin("find"), &[OsStr::new("top"), OsStr::new("-sorted"), OsStr::new(act)], &sbx, &binrun::Opts::default());
        ctx.rep.evaluations += 1;
        ctx.rep.nontrivial += 1;
        if o.code != Some(0) || o.out != want {
            ctx.rep.violation(
                &format!("C07 {act} through a real stdout pipe loses or alters bytes of a long path containing a newline"),
                format!("status {:?}; {}", o.code, first_diff(&want, &o.out)),
                json!({"prop":"C07","kind":"long"}),
            );
        }
        // regular file via sh redirection
        let outf = sbx.join(".mc-out");
        let cmd = format!("exec {} top -sorted {} > {}", binrun::repo_bin("find").display(), act, outf.display());
        let o2 = binrun::run(Path::new("/bin/sh"), &[OsStr::new("-c"), OsStr::new(&cmd)], &sbx, &binrun::Opts::default());
        let data = std::fs::read(&outf).unwrap_or_default();
        let _ = std::fs::remove_file(&outf);
        ctx.rep.evaluations += 1;
        if o2.code != Some(0) || data != want {
            ctx.rep.violation(
                &format!("C07 {act} to a regular file loses or alters bytes of a long path containing a newline"),
                format!("status {:?}; {}", o2.code, first_diff(&want, &data)),
                json!({"prop":"C07","kind":"long"}),
            );
        }
    }
    pipeline_check(ctx, &sbx, &["top", "-sorted"], &exp, "long path with a newline");
}

/// listing arranged so that a 2-byte character straddles a multiple of 8192 in the -print0 stream
/// Listings of 2500 entries arranged (by the length of one padding name) so that a NUL delimiter
/// is exactly the LAST byte of a completely filled 8192-byte buffer, and so that it is exactly the
/// FIRST byte of the next one: through the pipeline and from a regular file (where xargs' reads
/// really are whole buffers).
fn delimiter_at_edge_listing(ctx: &mut Ctx) {
    let sbx = ctx.sbx.clone();
    let mut done = [false, false];
    for pad in 0..40usize {
        let mut names: Vec<String> = vec![];
        if pad > 0 {
            names.push(format!("0{}", "p".repeat(pad)));
        }
        for i in 0..2500 {
            names.push(format!("n{:05}", i));
        }
        let mut exp = vec!["e".to_string()];
        for n in sorted_bytes(&names) {
            exp.push(format!("e/{n}"));
        }
        let stream = joined(&exp, 0);
        let last = (1..=stream.len() / 8192).any(|k| stream[k * 8192 - 1] == 0);
        let first = (1..=stream.len() / 8192).any(|k| k * 8192 < stream.len() && stream[k * 8192] == 0);
        for (which, hit, what) in [(0usize, last, "a NUL as the last byte of a full 8192-byte buffer"), (1, first, "a NUL as the first byte after an 8192-byte buffer")] {
            if !hit || done[which] {
                continue;
            }
            done[which] = true;
            crate::sandbox::clear_dir(&sbx);
            std::fs::create_dir(sbx.join("e")).unwrap();
            for n in &names {
                std::fs::write(sbx.join("e").join(osn(n)), b"").unwrap();
            }
            ctx.rep.count("delimiter_exactly_at_a_buffer_edge", 1);
            ctx.rep.nontrivial += 1;
            pipeline_check(ctx, &sbx, &["e", "-sorted"], &exp, what);
            let listf = sbx.join(".mc-list");
            std::fs::write(&listf, &stream).unwrap();
            let vrec = crate::engine::self_bin_dir().join("vrec");
            let log = sbx.join(".mc-vrec.log");
            let _ = std::fs::remove_file(&log);
            let cmd = format!("exec {} -0 {} {} < {}", binrun::repo_bin("xargs").display(), vrec.display(), log.display(), listf.display());
            let o = binrun::run(Path::new("/bin/sh"), &[OsStr::new("-c"), OsStr::new(&cmd)], &sbx, &binrun::Opts::default());
            let got: Vec<Vec<u8>> = crate::vreclog::read(&log).unwrap_or_default().into_iter().flat_map(|r| r.args).collect();
            let want: Vec<Vec<u8>> = exp.iter().map(|s| s.as_bytes().to_vec()).collect();
            ctx.rep.evaluations += 1;
            if o.code != Some(0) || got != want {
                let firstbad = got.iter().zip(want.iter()).find(|(g, w)| g != w).map(|(g, w)| format!("expected {:?} got {:?}", show(w), show(g))).unwrap_or_default();
                ctx.rep.violation(
                    "C07 xargs -0 reading a NUL-separated list from a file loses or alters arguments when a delimiter falls exactly at an 8192-byte buffer edge",
                    format!("{what}: status {:?}: {} expected, {} delivered; {firstbad}", o.code, want.len(), got.len()),
                    json!({"prop":"C07","kind":"pipeline","what":"delimiter at 8192 edge from file"}),
                );
            } else {
                ctx.rep.traces_validated += 1;
            }
            let _ = std::fs::remove_file(&log);
            let _ = std::fs::remove_file(&listf);
        }
        if done == [true, true] {
            return;
        }
    }
    ctx.rep.machinery("could not arrange a delimiter exactly at an 8192-byte boundary".into());
}

/// "delivers every matched path to CMD exactly once" also when CMD fails on some batches: with
/// -n 3 and the recorder exiting 1, 125, 126, 127, 130 or 254 on the first batches every path must
/// still be delivered (only 255 and signals stop xargs); the pipeline's statuses are not judged here.
fn failing_command_slice(ctx: &mut Ctx) {
    let sbx = ctx.sbx.clone();
    crate::sandbox::clear_dir(&sbx);
    std::fs::create_dir(sbx.join("q")).unwrap();
    let names: Vec<String> = (0..25).map(|i| format!("n {i:02}\n'x")).collect();
    for n in &names {
        std::fs::write(sbx.join("q").join(osn(n)), b"").unwrap();
    }
    let mut exp = vec!["q".to_string()];
    for n in sorted_bytes(&names) {
        exp.push(format!("q/{n}"));
    }
    let vrec = crate::engine::self_bin_dir().join("vrec");
    let log = sbx.join(".mc-vrec.log");
    for script in ["1,0,1", "125", "126,0,0,127", "130,130", "0,254,0", "2,3,4,5,6,7,8,9"] {
        let _ = std::fs::remove_file(&log);
        let a1: Vec<&OsStr> = ["q", "-sorted", "-print0"].iter().map(OsStr::new).collect();
        let a2: Vec<&OsStr> = vec![OsStr::new("-0"), OsStr::new("-n"), OsStr::new("3"), vrec.as_os_str(), log.as_os_str()];
        let (f, x) = binrun::pipeline(&binrun::repo_bin("find"), &a1, &binrun::repo_bin("xargs"), &a2, &sbx, &[("VREC_OUTCOMES".into(), script.into())]);
        let got: Vec<Vec<u8>> = crate::vreclog::read(&log).unwrap_or_default().into_iter().flat_map(|r| r.args).collect();
        let want: Vec<Vec<u8>> = exp.iter().map(|s| s.as_bytes().to_vec()).collect();
        ctx.rep.evaluations += 1;
        ctx.rep.nontrivial += 1;
        ctx.rep.count("failing_command_pipelines", 1);
        if got != want || f.code != Some(0) {
            ctx.rep.violation(
                "C07 paths are not all delivered when the command fails on an earlier batch (exit status other than 255)",
                format!("find q -sorted -print0 | VREC_OUTCOMES={script} xargs -0 -n 3 CMD: {} of {} paths delivered; find status {:?}, xargs status {:?} stderr {:?}", got.len(), want.len(), f.code, x.code, show(&x.err)),
                json!({"prop":"C07","kind":"pipeline","what":"failing command"}),
            );
        } else {
            ctx.rep.traces_validated += 1;
        }
    }
    let _ = std::fs::remove_file(&log);
}

/// One entry for every printed length from 3 bytes up: names of 1..=255 bytes in `e`, and again one
/// (thorough: up to fifteen) 250-byte directories further down, so that every length up to ~510 (~4000)
/// bytes occurs exactly once, each delimited on its own (a fixed-size line buffer shows at one length).
fn every_path_length(ctx: &mut Ctx) {
    let sbx = ctx.sbx.clone();
    crate::sandbox::clear_dir(&sbx);
    let levels = ctx.tier.pick(2usize, 16);
    let d = "z".repeat(250);
    let mut exp: Vec<String> = vec![];
    let mut prefix = "e".to_string();
    let mut lengths = 0u64;
    for lv in 0..levels {
        std::fs::create_dir(sbx.join(&prefix)).unwrap();
        exp.push(prefix.clone());
        for k in 1..=255usize {
            if prefix.len() + 1 + k > 4090 {
                break;
            }
            let n = format!("{prefix}/{}", "n".repeat(k));
            std::fs::write(sbx.join(&n), b"").unwrap();
            exp.push(n);
            lengths += 1;
        }
        if lv + 1 < levels {
            prefix = format!("{prefix}/{d}");
        }
    }
    ctx.rep.count("distinct_printed_path_lengths", lengths);
    ctx.rep.nontrivial += 1;
    pipeline_check(ctx, &sbx, &["e", "-sorted"], &exp, "one entry of every printed length");
    let _ = std::fs::remove_dir_all(sbx.join("e"));
}

fn buffer_edge_listing(ctx: &mut Ctx) {
    let sbx = ctx.sbx.clone();
    for pad in 0..40usize {
        let mut names: Vec<String> = vec![];
        if pad > 0 {
            names.push(format!("0{}", "p".repeat(pad)));
        }
        for i in 0..1400 {
            names.push(format!("{}{:04}", "\u{e9}".repeat(5), i));
        }
        let mut exp = vec!["e".to_string()];
        for n in sorted_bytes(&names) {
            exp.push(format!("e/{n}"));
        }
        let stream = joined(&exp, 0);
        // does some multiple of 8192 fall strictly inside a 2-byte character?
        let straddles = (1..=stream.len() / 8192).filter(|k| {
            let off = k * 8192;
            off < stream.len() && (stream[off] & 0xC0) == 0x80
        }).count();
        if straddles == 0 {
            continue;
        }
        crate::sandbox::clear_dir(&sbx);
        std::fs::create_dir(sbx.join("e")).unwrap();
        for n in &names {
            std::fs::write(sbx.join("e").join(osn(n)), b"").unwrap();
        }
        ctx.rep.count("buffer_edges_inside_a_multibyte_character", straddles as u64);
        ctx.rep.nontrivial += 1;
        pipeline_check(ctx, &sbx, &["e", "-sorted"], &exp, "multi-byte character across the 8192-byte refill");
        // the same stream from a regular file, so that xargs' reads really are 8192 bytes long
        let listf = sbx.join(".mc-list");
        std::fs::write(&listf, &stream).unwrap();
        let vrec = crate::engine::self_bin_dir().join("vrec");
        let log = sbx.join(".mc-vrec.log");
        let _ = std::fs::remove_file(&log);
        let cmd = format!("exec {} -0 {} {} < {}", binrun::repo_bin("xargs").display(), vrec.display(), log.display(), listf.display());
        let o = binrun::run(Path::new("/bin/sh"), &[OsStr::new("-c"), OsStr::new(&cmd)], &sbx, &binrun::Opts::default());
        let got: Vec<Vec<u8>> = crate::vreclog::read(&log).unwrap_or_default().into_iter().flat_map(|r| r.args).collect();
        let want: Vec<Vec<u8>> = exp.iter().map(|s| s.as_bytes().to_vec()).collect();
        ctx.rep.evaluations += 1;
        if o.code != Some(0) || got != want {
            let firstbad = got.iter().zip(want.iter()).find(|(g, w)| g != w).map(|(g, w)| format!("expected {:?} got {:?}", show(w), show(g))).unwrap_or_default();
            ctx.rep.violation(
                "C07 xargs -0 reading a NUL-separated list from a file alters an argument at the 8192-byte buffer refill",
                format!("status {:?}: {} expected, {} delivered; {firstbad}", o.code, want.len(), got.len()),
                json!({"prop":"C07","kind":"pipeline","what":"8192 edge from file"}),
            );
        } else {
            ctx.rep.traces_validated += 1;
        }
        let _ = std::fs::remove_file(&log);
        let _ = std::fs::remove_file(&listf);
        return;
    }
    ctx.rep.machinery("could not arrange a multi-byte character across an 8192-byte boundary".into());
}

fn replay(case: &Value, ctx: &mut Ctx) -> Option<String> {
    if case["kind"] != "inproc" {
        println!("pipeline / long-path cases are replayed by re-running the check");
        return None;
    }
    let batch: Vec<String> = case["batch"].as_array()?.iter().map(|v| v.as_str().unwrap_or("").to_string()).collect();
    let act = case["action"].as_str()?;
    let sbx = ctx.sbx.clone();
    let exp = build(&sbx, &batch);
    let got = run_find(&["t", "-sorted", act]);
    let want = joined(&exp, if act == "-print0" { 0 } else { b'\n' });
    if got.code != Ok(0) || got.out != want {
        let sig = format!("C07 {act} output is not root + '/'-joined names + delimiter");
        ctx.rep.violation(&sig, first_diff(&want, &got.out), case.clone());
        return Some(sig);
    }
    None
}
