//! C17 -regex/-iregex — every regex AST up to a size, rendered in each supported syntax,
//! against every path of a small tree; oracle = a set-of-end-positions matcher on the AST
//! (whole-path membership, independent of the order of alternatives).

use crate::engine::{Ctx, Prop, Spec, Tier};
use crate::findrun::run_find;
use serde_json::{json, Value};
use std::collections::BTreeSet;

pub const PROP: Prop = Prop { id: "C17", spec, run, replay };

#[derive(Clone, Debug, PartialEq, Eq, Hash)]
enum Re {
    Lit(u8),
    Dot,
    Set,  // [ab]
    NSet, // [^a]
    Cat(Box<Re>, Box<Re>),
    Alt(Box<Re>, Box<Re>),
    Star(Box<Re>),
    Plus(Box<Re>),
    Opt(Box<Re>),
    Rep12(Box<Re>),
}

fn atoms() -> Vec<Re> {
    vec![Re::Lit(b'a'), Re::Lit(b'b'), Re::Lit(b'/'), Re::Dot, Re::Set, Re::NSet]
}

/// all ASTs with exactly n nodes over the given atoms; `small` = only ?, * and the two binary operators
fn asts_over(n: usize, atoms: &[Re], small: bool, memo: &mut Vec<Vec<Re>>) -> Vec<Re> {
    if memo.len() > n && !memo[n].is_empty() {
        return memo[n].clone();
    }
    let mut out = vec![];
    if n == 1 {
        out = atoms.to_vec();
    } else if n >= 2 {
        for x in asts_over(n - 1, atoms, small, memo) {
            out.push(Re::Star(Box::new(x.clone())));
            out.push(Re::Opt(Box::new(x.clone())));
            if !small {
                out.push(Re::Plus(Box::new(x.clone())));
                out.push(Re::Rep12(Box::new(x)));
            }
        }
        for l in 1..n - 1 {
            let r = n - 1 - l;
            for a in asts_over(l, atoms, small, memo) {
                for b in asts_over(r, atoms, small, memo) {
                    out.push(Re::Cat(Box::new(a.clone()), Box::new(b.clone())));
                    out.push(Re::Alt(Box::new(a.clone()), Box::new(b)));
                }
            }
        }
    }
    while memo.len() <= n {
        memo.push(vec![]);
    }
    memo[n] = out.clone();
    out
}

fn asts(n: usize, memo: &mut Vec<Vec<Re>>) -> Vec<Re> {
    asts_over(n, &atoms(), false, memo)
}

/// set of end positions of matches of `re` starting at `i`
fn ends(re: &Re, s: &[u8], i: usize, fold: bool) -> BTreeSet<usize> {
    let lc = |c: u8| if fold { c.to_ascii_lowercase() } else { c };
    let one = |ok: bool| if ok { [i + 1].into_iter().collect() } else { BTreeSet::new() };
    match re {
        Re::Lit(c) => one(i < s.len() && lc(s[i]) == lc(*c)),
        Re::Dot => one(i < s.len() && s[i] != b'\n'),
        Re::Set => one(i < s.len() && (lc(s[i]) == b'a' || lc(s[i]) == b'b' || (fold && matches!(s[i], b'A' | b'B')))),
        Re::NSet => one(i < s.len() && s[i] != b'\n' && !(s[i] == b'a' || (fold && s[i] == b'A'))),
        Re::Cat(a, b) => ends(a, s, i, fold).into_iter().flat_map(|j| ends(b, s, j, fold)).collect(),
        Re::Alt(a, b) => ends(a, s, i, fold).into_iter().chain(ends(b, s, i, fold)).collect(),
        Re::Opt(a) => {
            let mut e = ends(a, s, i, fold);
            e.insert(i);
            e
        }
        Re::Rep12(a) => {
            let e1 = ends(a, s, i, fold);
            let e2: BTreeSet<usize> = e1.iter().flat_map(|&j| ends(a, s, j, fold)).collect();
            e1.into_iter().chain(e2).collect()
        }
        Re::Star(a) | Re::Plus(a) => {
            let mut seen: BTreeSet<usize> = BTreeSet::new();
            let mut frontier: Vec<usize> = vec![i];
            let mut result: BTreeSet<usize> = BTreeSet::new();
            if matches!(re, Re::Star(_)) {
                result.insert(i);
            }
            while let Some(p) = frontier.pop() {
                for j in ends(a, s, p, fold) {
                    result.insert(j);
                    if seen.insert(j) {
                        frontier.push(j);
                    }
                }
            }
            result
        }
    }
}

fn full_match(re: &Re, s: &[u8], fold: bool) -> bool {
    ends(re, s, 0, fold).contains(&s.len())
}

#[derive(Clone, Copy, Debug, PartialEq, Eq)]
enum Syn {
    Emacs,
    Ere,
    Grep,
    Bre,
}

const TYPES: [(&str, Syn); 6] = [("emacs", Syn::Emacs), ("posix-extended", Syn::Ere), ("grep", Syn::Grep), ("posix-basic", Syn::Bre), ("ed", Syn::Bre), ("sed", Syn::Bre)];

fn is_atom(r: &Re) -> bool {
    matches!(r, Re::Lit(_) | Re::Dot | Re::Set | Re::NSet)
}

/// None if the syntax has no spelling for an operator used
fn render(r: &Re, syn: Syn) -> Option<String> {
    let (go, gc, alt) = match syn {
        Syn::Ere => ("(", ")", Some("|")),
        Syn::Emacs | Syn::Grep => ("\\(", "\\)", Some("\\|")),
        Syn::Bre => ("\\(", "\\)", None),
    };
    let group = |s: String| format!("{go}{s}{gc}");
    let operand = |x: &Re| -> Option<String> {
        let s = render(x, syn)?;
        Some(if is_atom(x) { s } else { group(s) })
    };
    Some(match r {
        Re::Lit(c) => (*c as char).to_string(),
        Re::Dot => ".".into(),
        Re::Set => "[ab]".into(),
        Re::NSet => "[^a]".into(),
        Re::Cat(a, b) => {
            let f = |x: &Re| -> Option<String> {
                let s = render(x, syn)?;
                Some(if matches!(x, Re::Alt(..)) { group(s) } else { s })
            };
            format!("{}{}", f(a)?, f(b)?)
        }
        Re::Alt(a, b) => format!("{}{}{}", render(a, syn)?, alt?, render(b, syn)?),
        Re::Star(a) => format!("{}*", operand(a)?),
        Re::Plus(a) => format!(
            "{}{}",
            operand(a)?,
            match syn {
                Syn::Emacs | Syn::Ere => "+",
                Syn::Grep => "\\+",
                Syn::Bre => return None,
            }
        ),
        Re::Opt(a) => format!(
            "{}{}",
            operand(a)?,
            match syn {
                Syn::Emacs | Syn::Ere => "?",
                Syn::Grep => "\\?",
                Syn::Bre => return None,
            }
        ),
        Re::Rep12(a) => format!("{}{}", operand(a)?, if syn == Syn::Ere { "{1,2}" } else { "\\{1,2\\}" }),
    })
}

fn uses(r: &Re, f: &dyn Fn(&Re) -> bool) -> bool {
    f(r) || match r {
        Re::Cat(a, b) | Re::Alt(a, b) => uses(a, f) || uses(b, f),
        Re::Star(a) | Re::Plus(a) | Re::Opt(a) | Re::Rep12(a) => uses(a, f),
        _ => false,
    }
}

fn feature(r: &Re) -> &'static str {
    if uses(r, &|x| matches!(x, Re::Alt(..))) {
        "alternation"
    } else if uses(r, &|x| matches!(x, Re::Rep12(_))) {
        "interval"
    } else if uses(r, &|x| matches!(x, Re::Plus(_) | Re::Opt(_))) {
        "+ or ?"
    } else if uses(r, &|x| matches!(x, Re::Star(_))) {
        "star"
    } else if uses(r, &|x| matches!(x, Re::Set | Re::NSet)) {
        "bracket"
    } else {
        "literals and dot"
    }
}

fn max_size(t: Tier) -> usize {
    t.pick(4, 7)
}

fn deep_size(t: Tier) -> usize {
    t.pick(7, 9)
}

fn spec(t: Tier) -> Spec {
    Spec {
        id: "C17",
        level: "exploration",
        rule: format!("every regex AST with <= {} nodes over atoms a b / . [ab] [^a], concatenation, alternation, * + ? and {{1,2}} (operands of postfix operators are atoms or groups), prefixed either by the literal \\./ or (ASTs one node smaller) by a floating .* and plus every AST of up to {} nodes over a, b with ?, *, concatenation and alternation only; rendered in each of emacs, posix-extended, grep, posix-basic, ed, sed with that syntax's spelling (ASTs using an operator the syntax lacks are skipped for it); x -regex / -iregex; x three placements of -regextype (directly before, inside a preceding parenthesis, before a parenthesis holding -regex) and two consecutive -regextype options; evaluated by the real find on a tree whose paths are ./NAME for every NAME of <= 3 letters over a,b (b is a directory holding a, b, ab), upper-case variants A aB BA, and compared path by path with whole-string membership in the AST's language (set-of-end-positions matcher; -iregex on case-folded letters). odd-name slice: names that are not valid UTF-8 (`.*` selects them, its negation does not, `.` stands for the undecodable byte) and a name holding a newline (prefix-first and prefix-last alternations with [^x] both select it), emacs and posix-extended, -regex/-iregex; long-name slice: .*/(b|bc*d)(T)* with T in c|cc, cc|c, c?, c{{1,2}} in emacs, posix-extended, grep x -regex/-iregex against names b c^n d, b c^n x, b c^n for every n <= {long} (exact answers required) and n in 33, 37 (exact, or the engine's giving up reported loudly: diagnostic naming the path, exit status != 0, path not selected); evaluation = (pattern, syntax, primary, placement, path); non-trivial = AST with an operator", max_size(t), deep_size(t), long = long_exact(t)),
        bound: json!({"max_ast_nodes": max_size(t), "syntaxes": TYPES.iter().map(|t| t.0).collect::<Vec<_>>(), "placements": ["before","in-preceding-parens","before-parens-holding-regex","two-regextypes"]}),
        assumptions: vec!["for patterns with quantifiers nested 5 deep or more, and for the two longest names of the long-name slice, the engine may give up on a path provided it is loud about it (diagnostic naming the path, exit status 1, path not selected); everywhere else every answer must be exact and the exit status 0".into(), "'.' and [^a] versus newline are not exercised (no newline in the paths)".into(), "emacs is the default syntax (also checked with no -regextype at all)".into()],
        shards: 0,
        wall_cap_s: t.pick(300, 3600),
    }
}

fn build(ctx: &Ctx) -> Result<Vec<String>, String> {
    let w = ctx.sbx.join("w");
    let _ = crate::sandbox::force_remove(&w);
    std::fs::create_dir(&w).map_err(|e| e.to_string())?;
    let mut names: Vec<String> = vec![];
    for n in 1..=3 {
        let mut cur = vec![String::new()];
        for _ in 0..n {
            cur = cur.iter().flat_map(|s| ["a", "b"].iter().map(move |c| format!("{s}{c}"))).collect();
        }
        names.extend(cur);
    }
    names.extend(["A", "aB", "BA"].map(String::from));
    for n in &names {
        if n == "b" {
            std::fs::create_dir(w.join(n)).map_err(|e| e.to_string())?;
            for m in ["a", "b", "ab"] {
                std::fs::write(w.join("b").join(m), b"").map_err(|e| e.to_string())?;
            }
        } else {
            std::fs::write(w.join(n), b"").map_err(|e| e.to_string())?;
        }
    }
    std::env::set_current_dir(&w).map_err(|e| e.to_string())?;
    let mut paths: Vec<String> = vec![".".into()];
    for n in &names {
        paths.push(format!("./{n}"));
    }
    for m in ["a", "b", "ab"] {
        paths.push(format!("./b/{m}"));
    }
    Ok(paths)
}

#[derive(Clone, Copy, Debug, PartialEq)]
enum Place {
    Default,
    Before,
    InPrecedingParens,
    BeforeParens,
    TwoTypes,
}

/// one find run for a batch of patterns in one syntax/primary/placement
fn argv_for(tname: &str, prim: &str, place: Place, pats: &[String]) -> Vec<String> {
    let mut a: Vec<String> = vec![".".into(), "(".into()];
    // the option sits at the same parenthesis level as the comma list, so that each placement
    // differs from "directly before" only in the parentheses it names
    match place {
        Place::Default => {}
        Place::Before | Place::BeforeParens => a.extend(["-regextype".to_string(), tname.to_string()]),
        Place::InPrecedingParens => a.extend(["(", "-regextype", tname, ")"].map(String::from)),
        Place::TwoTypes => {
            let other = if tname == "posix-extended" { "emacs" } else { "posix-extended" };
            a.extend(["-regextype".to_string(), other.to_string(), "-regextype".to_string(), tname.to_string()]);
        }
    }
    for (k, p) in pats.iter().enumerate() {
        if k > 0 {
            a.push(",".into());
        }
        if place == Place::BeforeParens {
            a.push("(".into());
        }
        a.extend([prim.to_string(), p.clone()]);
        if place == Place::BeforeParens {
            a.push(")".into());
        }
        a.extend(["-printf".to_string(), format!("L{k} %p\\n")]);
    }
    a.push(")".into());
    a
}

fn judge(ctx: &mut Ctx, paths: &[String], tname: &str, syn: Syn, prim: &str, place: Place, batch: &[(Re, String)]) {
    let pats: Vec<String> = batch.iter().map(|b| b.1.clone()).collect();
    let argv = argv_for(tname, prim, place, &pats);
    let args: Vec<&str> = argv.iter().map(|s| s.as_str()).collect();
    let out = run_find(&args);
    let fold = prim == "-iregex";
    let tag = format!("{prim} {tname} {:?}", place);
    if out.code == Ok(0) && (pats.len() + pats[0].len()) % 23 == 0 {
        match crate::findrun::cross_check_bin(&args, &out) {
            Ok(()) => ctx.rep.traces_validated += 1,
            Err(e) => ctx.rep.machinery(e),
        }
    }
    // paths on which the engine gave up loudly (diagnostic naming the path + exit status 1)
    let mut refused: BTreeSet<String> = BTreeSet::new();
    if out.code != Ok(0) {
        if batch.len() > 1 {
            for b in batch {
                judge(ctx, paths, tname, syn, prim, place, std::slice::from_ref(b));
            }
            return;
        }
        // A backtracking engine may give up on quantifiers nested REFUSAL_QDEPTH deep or more; that is
        // accepted only when it is loud: one diagnostic per such path, exit status 1, path not selected.
        let err = String::from_utf8_lossy(&out.err).to_string();
        let gave_up: Vec<Option<&str>> = err.lines().map(|l| l.strip_prefix("Error matching ").and_then(|r| r.split_once(" against the regular expression: ")).filter(|(_, why)| why.contains("retry-limit")).map(|(p, _)| p)).collect();
        if !out.panicked() && out.code == Ok(1) && qdepth(&batch[0].0) >= REFUSAL_QDEPTH && !gave_up.is_empty() && gave_up.iter().all(|g| g.is_some()) {
            refused = gave_up.into_iter().flatten().map(String::from).collect();
            ctx.rep.count("loud_engine_give_ups_accepted(deeply nested quantifiers)", refused.len() as u64);
        } else {
            let kind = if out.panicked() { "panic" } else { "pattern rejected / non-zero status" };
            ctx.rep.violation(&format!("C17 {kind}: {} [{tag}]", feature(&batch[0].0)), format!("find {:?}\n{}", argv, out.brief()), json!({"prop":"C17","argv":argv,"pattern":pats[0],"type":tname,"prim":prim,"place":format!("{place:?}")}));
            return;
        }
    }
    let mut sel: Vec<BTreeSet<String>> = vec![BTreeSet::new(); batch.len()];
    for line in String::from_utf8_lossy(&out.out).split_terminator('\n') {
        let ok = (|| {
            let (l, p) = line.split_once(' ')?;
            sel.get_mut(l.strip_prefix('L')?.parse::<usize>().ok()?)?.insert(p.to_string());
            Some(())
        })();
        if ok.is_none() {
            ctx.rep.machinery(format!("stray output line {line:?} from {:?}", argv));
            return;
        }
    }
    for (k, (ast, pat)) in batch.iter().enumerate() {
        let whole = ast.clone();
        for p in paths {
            let want = full_match(&whole, p.as_bytes(), fold);
            let got = sel[k].contains(p);
            ctx.rep.evaluations += 1;
            if refused.contains(p) && !got {
                continue;
            }
            if size(ast) > 5 {
                ctx.rep.nontrivial += 1;
            }
            if got != want {
                // diagnose: prefix-only / substring situations
                let how = if got {
                    "matches a path outside the language"
                } else if (0..p.len()).any(|cut| full_match(&whole, &p.as_bytes()[..cut], fold)) {
                    "misses a path in the language (a proper prefix of the path is also in the language)"
                } else {
                    "misses a path in the language"
                };
                ctx.rep.violation(
                    &format!("C17 {how}: {} [{tag}]", feature(ast)),
                    format!("find {:?} ... {prim} {pat:?} (syntax {tname}): path {p:?} selected={got}, in the language={want}", &argv[..argv.len().min(6)]),
                    json!({"prop":"C17","pattern":pat,"type":tname,"prim":prim,"place":format!("{place:?}"),"path":p,"expected":want}),
                );
            }
        }
        ctx.rep.class(&format!("{tag} {} selected={}", feature(ast), sel[k].len().min(2)));
    }
    let _ = syn;
}

fn run(ctx: &mut Ctx) {
    let paths = match build(ctx) {
        Ok(p) => p,
        Err(e) => {
            ctx.rep.machinery(format!("sandbox: {e}"));
            return;
        }
    };
    let mut memo: Vec<Vec<Re>> = vec![];
    let mut all: Vec<Re> = vec![];
    for n in 1..=max_size(ctx.tier) {
        all.extend(asts(n, &mut memo));
    }
    ctx.rep.count("asts", if ctx.shard == 0 { all.len() as u64 } else { 0 });
    // deep slice: every AST of exactly deep_size(tier) nodes over the atoms a, b with ?, *, concatenation
    // and alternation only (e.g. a?(ab)? — a greedy first match that is too short)
    let mut dm: Vec<Vec<Re>> = vec![];
    let deep: Vec<Re> = (max_size(ctx.tier) + 1..=deep_size(ctx.tier)).flat_map(|n| asts_over(n, &[Re::Lit(b'a'), Re::Lit(b'b')], true, &mut dm)).collect();
    ctx.rep.count("asts_deep_slice", if ctx.shard == 0 { deep.len() as u64 } else { 0 });
    let mut job = 0u64;
    for (tname, syn) in TYPES {
        // two ways of covering the leading "./": the literal prefix \./ and a floating .* prefix
        let mut rendered: Vec<(Re, String)> = vec![];
        for r in &all {
            let with_slash = Re::Cat(Box::new(Re::Lit(b'/')), Box::new(r.clone()));
            if let Some(s) = render(&with_slash, syn) {
                rendered.push((Re::Cat(Box::new(Re::Lit(b'.')), Box::new(with_slash)), format!("\\.{s}")));
            }
            if size(r) <= max_size(ctx.tier) - 1 {
                let floating = Re::Cat(Box::new(Re::Star(Box::new(Re::Dot))), Box::new(r.clone()));
                if let Some(s) = render(&floating, syn) {
                    rendered.push((floating, s));
                }
            }
        }
        for r in &deep {
            let with_slash = Re::Cat(Box::new(Re::Lit(b'/')), Box::new(r.clone()));
            if let Some(s) = render(&with_slash, syn) {
                rendered.push((Re::Cat(Box::new(Re::Lit(b'.')), Box::new(with_slash)), format!("\\.{s}")));
            }
        }
        // a third way for ASTs whose top node is an alternation: the alternation stays at the top level of
        // the pattern, every alternative carrying the prefix itself (\./A\|\./B — same language as \./\(A\|B\))
        let alt_word = match syn {
            Syn::Ere => Some("|"),
            Syn::Emacs | Syn::Grep => Some("\\|"),
            Syn::Bre => None,
        };
        if let Some(alt_word) = alt_word {
            fn flatten<'a>(r: &'a Re, out: &mut Vec<&'a Re>) {
                match r {
                    Re::Alt(a, b) => {
                        flatten(a, out);
                        flatten(b, out);
                    }
                    x => out.push(x),
                }
            }
            for r in all.iter().chain(deep.iter()).filter(|r| matches!(r, Re::Alt(..))) {
                let mut alts: Vec<&Re> = vec![];
                flatten(r, &mut alts);
                let parts: Option<Vec<String>> = alts.iter().map(|a| render(&Re::Cat(Box::new(Re::Lit(b'/')), Box::new((*a).clone())), syn).map(|s| format!("\\.{s}"))).collect();
                if let Some(parts) = parts {
                    let whole = Re::Cat(Box::new(Re::Lit(b'.')), Box::new(Re::Cat(Box::new(Re::Lit(b'/')), Box::new(r.clone()))));
                    rendered.push((whole, parts.join(alt_word)));
                }
            }
        }
        for prim in ["-regex", "-iregex"] {
            let mut places = vec![Place::Before, Place::InPrecedingParens, Place::BeforeParens, Place::TwoTypes];
            if tname == "emacs" {
                places.push(Place::Default);
            }
            for place in places {
                // the placement variants matter only through the option parser: run them on ASTs of <= 4 nodes
                let limit = if matches!(place, Place::Before | Place::Default) { usize::MAX } else { 4 };
                for batch in rendered.chunks(64) {
                    job += 1;
                    if !ctx.mine(job) {
                        continue;
                    }
                    let b: Vec<(Re, String)> = batch.iter().filter(|(r, _)| size(r) <= limit.saturating_add(4)).cloned().collect();
                    if b.is_empty() {
                        continue;
                    }
                    ctx.progress(job);
                    judge(ctx, &paths, tname, syn, prim, place, &b);
                    if job % 1499 == 7 || ctx.rep.samples.is_empty() {
                        ctx.rep.sample(json!({"find": argv_for(tname, prim, place, &b.iter().take(3).map(|x| x.1.clone()).collect::<Vec<_>>()), "paths": paths.iter().take(8).collect::<Vec<_>>()}));
                    }
                }
            }
        }
    }
    let _ = std::env::set_current_dir(&ctx.sbx);
    long_name_slice(ctx, false);
    if ctx.shard == 5 % ctx.nshards {
        odd_name_slice(ctx);
    }
    if ctx.shard == 6 % ctx.nshards {
        low_descriptor_slice(ctx);
    }
}

/// Names that are not valid UTF-8 and names holding a newline. For the former only what every
/// reading agrees on is judged: `.*` (which emacs' `.` makes "any characters but newline") selects
/// them, `! -regex '.*'` does not; for the latter, the order of alternatives must not matter
/// ([^x] matches the newline): `\./a\|\./a[^x]b` and its mirror image both select ./a<NL>b.
fn odd_name_slice(ctx: &mut Ctx) {
    use std::os::unix::ffi::OsStrExt;
    let w = ctx.sbx.join("on");
    let _ = crate::sandbox::force_remove(&w);
    std::fs::create_dir(&w).unwrap();
    for n in [&b"n\xffm"[..], b"d\xfe", b"a\nb", b"axb", b"plain"] {
        let p = w.join(std::ffi::OsStr::from_bytes(n));
        if n == b"d\xfe" {
            std::fs::create_dir(&p).unwrap();
            std::fs::write(p.join("inner"), b"").unwrap();
        } else {
            std::fs::write(&p, b"").unwrap();
        }
    }
    std::env::set_current_dir(&w).unwrap();
    let count = |args: &[&str]| -> (usize, crate::findrun::FindOut) {
        let o = run_find(args);
        (o.out.iter().filter(|&&c| c == 0).count(), o)
    };
    // entries without a newline: ., n\xffm, d\xfe, d\xfe/inner, axb, plain = 6 ; with: 7
    for (tname, alt, go, gc) in [("emacs", "\\|", "\\(", "\\)"), ("posix-extended", "|", "(", ")")] {
        for prim in ["-regex", "-iregex"] {
            let cases: Vec<(Vec<String>, usize, &str)> = vec![
                (vec!["!".into(), "-name".into(), "a?b".into(), prim.into(), ".*".into()], 5, "`.*` must select every path without a newline, valid UTF-8 or not"),
                (vec!["!".into(), "-name".into(), "a?b".into(), "!".into(), prim.into(), ".*".into()], 0, "`! -regex .*` must select no path without a newline"),
                (vec![prim.into(), format!("\\./a{alt}\\./a[^x]b")], 1, "short alternative first: ./a<NL>b is in the language"),
                (vec![prim.into(), format!("\\./a[^x]b{alt}\\./a")], 1, "long alternative first: ./a<NL>b is in the language"),
                (vec![prim.into(), format!("\\./a{go}[^x]b{gc}*")], 1, "./a([^x]b)* selects ./a<NL>b only (./axb has an x)"),
                (vec![prim.into(), "\\./d.".into()], 1, "`.` stands for the undecodable byte of ./d\\xfe"),
            ];
            for (expr, want, why) in cases {
                let mut args: Vec<&str> = vec![".", "-regextype", tname];
                args.extend(expr.iter().map(|s| s.as_str()));
                args.push("-print0");
                let (n, o) = count(&args);
                ctx.rep.evaluations += 1;
                ctx.rep.nontrivial += 1;
                ctx.rep.count("odd_name_cases", 1);
                if n != want || o.code != Ok(0) {
                    ctx.rep.violation(
                        &format!("C17 names that are not valid UTF-8 or hold a newline: wrong selection [{prim} {tname}]"),
                        format!("find {:?}: {n} entries selected, expected {want} ({why}); selected {:?}; status {:?}", args, String::from_utf8_lossy(&o.out).replace('\0', " | "), o.code),
                        json!({"prop":"C17","odd_names":true}),
                    );
                }
            }
        }
    }
    // posix-basic and its two other names ed and sed: no alternation; `.` and [^x] match a newline; and
    // the three names select one syntax, so every pattern selects the same paths under each of them
    std::fs::write(w.join("a+b"), b"").unwrap();
    std::fs::write(w.join("aab"), b"").unwrap();
    let mut by_name: Vec<(String, Vec<Vec<u8>>)> = vec![];
    for tname in ["posix-basic", "ed", "sed"] {
        let mut outs: Vec<Vec<u8>> = vec![];
        for prim in ["-regex", "-iregex"] {
            let cases: Vec<(Vec<String>, Option<usize>, &str)> = vec![
                (vec!["!".into(), "-name".into(), "a?b".into(), prim.into(), ".*".into()], Some(5), "`.*` must select every path without a newline, valid UTF-8 or not"),
                (vec![prim.into(), "\\./a[^x]b".into()], Some(3), "[^x] matches a newline (and + and a)"),
                (vec![prim.into(), "\\./a.b".into()], Some(4), "`.` matches a newline in the POSIX syntaxes"),
                (vec![prim.into(), "\\./a\\([^x]b\\)*".into()], Some(3), "./a([^x]b)* selects ./a<NL>b, ./a+b and ./aab (./axb has an x)"),
                (vec![prim.into(), "\\./d.".into()], Some(1), "`.` stands for the undecodable byte of ./d\\xfe"),
                (vec![prim.into(), "\\./a\\+b".into()], None, "same selection under the three names"),
                (vec![prim.into(), "\\./a\\?b".into()], None, "same selection under the three names"),
                (vec![prim.into(), "\\./a\\{1,2\\}b".into()], Some(1), "interval"),
                (vec![prim.into(), "\\./a*+b".into()], Some(1), "+ is an ordinary character"),
            ];
            for (expr, want, why) in cases {
                let mut args: Vec<&str> = vec![".", "-sorted", "-regextype", tname];
                args.extend(expr.iter().map(|s| s.as_str()));
                args.push("-print0");
                let (n, o) = count(&args);
                ctx.rep.evaluations += 1;
                ctx.rep.nontrivial += 1;
                ctx.rep.count("odd_name_cases", 1);
                if want.is_some_and(|w| w != n) || o.code != Ok(0) {
                    ctx.rep.violation(
                        &format!("C17 names that are not valid UTF-8 or hold a newline: wrong selection [{prim} {tname}]"),
                        format!("find {:?}: {n} entries selected, expected {want:?} ({why}); selected {:?}; status {:?}", args, String::from_utf8_lossy(&o.out).replace('\0', " | "), o.code),
                        json!({"prop":"C17","odd_names":true}),
                    );
                }
                outs.push(o.out);
            }
        }
        by_name.push((tname.to_string(), outs));
    }
    for (tname, outs) in &by_name[1..] {
        if let Some(k) = outs.iter().zip(&by_name[0].1).position(|(a, b)| a != b) {
            ctx.rep.violation(
                &format!("C17 -regextype {tname} does not select the syntax of posix-basic"),
                format!("case #{k} of the POSIX-basic family: posix-basic selects {:?}, {tname} selects {:?}", String::from_utf8_lossy(&by_name[0].1[k]).replace('\0', " | "), String::from_utf8_lossy(&outs[k]).replace('\0', " | ")),
                json!({"prop":"C17","odd_names":true}),
            );
        }
    }
    let _ = std::env::set_current_dir(&ctx.sbx);
    let _ = crate::sandbox::force_remove(&w);
}

/// 150 directories with 64 file descriptors (see props/lowfd.rs): -regex answers for the last directory as for the first.
fn low_descriptor_slice(ctx: &mut Ctx) {
    use crate::props::lowfd;
    let _ = lowfd::build(ctx);
    let cases: Vec<(Vec<&str>, usize)> = vec![(vec!["lf", "-regex", ".*/d0[0-9][0-9]/f"], 100), (vec!["lf", "-iregex", ".*/D1[0-4][0-9]/[FL]"], 100), (vec!["lf", "-regextype", "posix-extended", "-regex", "lf/(d[0-9]+/)?(f|l)"], 300), (vec!["lf", "-regex", "lf/d149/l"], 1)];
    for (args, want) in cases {
        let o = lowfd::find(ctx, &args, 64, vec![]);
        ctx.rep.evaluations += 1;
        ctx.rep.nontrivial += 1;
        ctx.rep.count("low_descriptor_limit_cases", 1);
        let got = lowfd::lines(&o.out).len();
        if o.died() || o.code != Some(0) || got != want {
            ctx.rep.violation(
                "C17 over 150 directories with 64 file descriptors: the later entries are not handled like the first",
                format!("find {:?} under RLIMIT_NOFILE=64: {got} lines, expected {want}; status {:?}; stderr {:?}", args, o.code, String::from_utf8_lossy(&o.err).lines().take(2).collect::<Vec<_>>()),
                json!({"prop":"C17","low_descriptor":true}),
            );
        }
    }
    lowfd::remove(ctx);
}

/// Longest run of c's in the exact zone / in the zone where a loud refusal is also accepted.
fn long_exact(t: Tier) -> usize {
    t.pick(24, 28)
}
const LONG_REFUSAL: [usize; 6] = [33, 34, 35, 36, 37, 38];

/// Long names against patterns whose whole-path match needs the engine to give up many partial
/// matches first: a prefix-first alternation followed by an ambiguous starred group,
/// `.*/(b|bc*d)(T)*` with T in c|cc, cc|c, c?, c{1,2}; names b c^n d (in the language),
/// b c^n x (not), b c^n (in) for every n up to the exact bound: the answer must be exact. For six
/// longer names the engine may give up, but then loudly (diagnostic naming the path, exit status
/// != 0, path not selected) — never a silent wrong answer.
fn long_name_slice(ctx: &mut Ctx, all: bool) {
    let w = ctx.sbx.join("lw");
    let _ = crate::sandbox::force_remove(&w);
    if let Err(e) = std::fs::create_dir(&w) {
        ctx.rep.machinery(format!("sandbox: {e}"));
        return;
    }
    let nmax = long_exact(ctx.tier);
    let mut names: Vec<(String, usize)> = vec![];
    for n in (1..=nmax).chain(LONG_REFUSAL) {
        for tail in ["d", "x", ""] {
            names.push((format!("b{}{tail}", "c".repeat(n)), n));
        }
    }
    for (n, _) in &names {
        if let Err(e) = std::fs::write(w.join(n), b"") {
            ctx.rep.machinery(format!("sandbox: {e}"));
            return;
        }
    }
    std::env::set_current_dir(&w).unwrap();
    let lit = |c: u8| Box::new(Re::Lit(c));
    let cat = |a: Box<Re>, b: Box<Re>| Box::new(Re::Cat(a, b));
    let head = || Box::new(Re::Alt(lit(b'b'), cat(lit(b'b'), cat(Box::new(Re::Star(lit(b'c'))), lit(b'd')))));
    let tails: Vec<Re> = vec![
        Re::Alt(lit(b'c'), cat(lit(b'c'), lit(b'c'))),
        Re::Alt(cat(lit(b'c'), lit(b'c')), lit(b'c')),
        Re::Opt(lit(b'c')),
        Re::Rep12(lit(b'c')),
    ];
    let mut job = 0u64;
    for tail in &tails {
        let ast = Re::Cat(Box::new(Re::Star(Box::new(Re::Dot))), cat(lit(b'/'), cat(head(), Box::new(Re::Star(Box::new(tail.clone()))))));
        for (tname, syn) in [("emacs", Syn::Emacs), ("posix-extended", Syn::Ere), ("grep", Syn::Grep)] {
            let Some(pat) = render(&ast, syn) else { continue };
            for prim in ["-regex", "-iregex"] {
                job += 1;
                if !all && job % ctx.nshards != ctx.shard {
                    continue;
                }
                let argv: Vec<String> = [".", "-mindepth", "1", "-regextype", tname, prim, &pat].map(String::from).to_vec();
                let args: Vec<&str> = argv.iter().map(|s| s.as_str()).collect();
                let out = run_find(&args);
                let sel: BTreeSet<String> = String::from_utf8_lossy(&out.out).lines().map(|l| l.to_string()).collect();
                let err = String::from_utf8_lossy(&out.err).to_string();
                if out.panicked() {
                    ctx.rep.violation(&format!("C17 panic: long names [{prim} {tname}]"), format!("find {:?}\n{}", argv, out.brief()), json!({"prop":"C17","long":true,"argv":argv}));
                    continue;
                }
                let mut refused = 0;
                for (name, n) in &names {
                    let path = format!("./{name}");
                    let want = full_match(&ast, path.as_bytes(), prim == "-iregex");
                    let got = sel.contains(&path);
                    ctx.rep.evaluations += 1;
                    ctx.rep.nontrivial += 1;
                    if got == want {
                        continue;
                    }
                    if *n > nmax && !got && out.code != Ok(0) && err.contains(&path) {
                        refused += 1;
                        continue;
                    }
                    let how = if got {
                        "matches a path outside the language"
                    } else if *n > nmax {
                        "silently misses a long path in the language (the engine gave up without a diagnostic and exit status)"
                    } else {
                        "misses a long path in the language"
                    };
                    ctx.rep.violation(
                        &format!("C17 {how}: ambiguous starred group after a prefix-first alternation [{prim} {tname}]"),
                        format!("find {:?}: path {path:?} selected={got}, in the language={want}; status {:?} stderr {:?}", argv, out.code, err.lines().next().unwrap_or("")),
                        json!({"prop":"C17","long":true,"argv":argv,"path":path,"expected":want}),
                    );
                }
                if refused == 0 && out.code != Ok(0) {
                    ctx.rep.violation(&format!("C17 non-zero status although every path was answered: long names [{prim} {tname}]"), format!("find {:?}\n{}", argv, out.brief()), json!({"prop":"C17","long":true,"argv":argv}));
                }
                ctx.rep.count("long_name_runs", 1);
                ctx.rep.count("long_name_loud_refusals_accepted", refused);
            }
        }
    }
    let _ = std::env::set_current_dir(&ctx.sbx);
}

/// quantifiers nested this deep (or deeper) may make the engine give up, if it says so
const REFUSAL_QDEPTH: usize = 5;

/// nesting depth of quantifiers
fn qdepth(r: &Re) -> usize {
    match r {
        Re::Cat(a, b) | Re::Alt(a, b) => qdepth(a).max(qdepth(b)),
        Re::Star(a) | Re::Plus(a) | Re::Opt(a) | Re::Rep12(a) => 1 + qdepth(a),
        _ => 0,
    }
}

fn size(r: &Re) -> usize {
    match r {
        Re::Cat(a, b) | Re::Alt(a, b) => 1 + size(a) + size(b),
        Re::Star(a) | Re::Plus(a) | Re::Opt(a) | Re::Rep12(a) => 1 + size(a),
        _ => 1,
    }
}

fn replay(case: &Value, ctx: &mut Ctx) -> Option<String> {
    if case["odd_names"] == true {
        odd_name_slice(ctx);
        return ctx.rep.violations.keys().next().cloned();
    }
    if case["long"] == true {
        long_name_slice(ctx, true);
        return ctx.rep.violations.keys().next().cloned();
    }
    build(ctx).ok()?;
    let tname = case["type"].as_str()?;
    let prim = case["prim"].as_str()?;
    let place = match case["place"].as_str()? {
        "Default" => Place::Default,
        "Before" => Place::Before,
        "InPrecedingParens" => Place::InPrecedingParens,
        "BeforeParens" => Place::BeforeParens,
        _ => Place::TwoTypes,
    };
    let pat = case["pattern"].as_str()?.to_string();
    let argv = argv_for(tname, prim, place, &[pat.clone()]);
    let args: Vec<&str> = argv.iter().map(|s| s.as_str()).collect();
    let out = run_find(&args);
    let _ = std::env::set_current_dir(&ctx.sbx);
    if let (Some(path), Some(want)) = (case["path"].as_str(), case["expected"].as_bool()) {
        let got = String::from_utf8_lossy(&out.out).lines().any(|l| l == format!("L0 {path}"));
        if got != want || out.code != Ok(0) {
            let sig = "C17 replayed case still differs".to_string();
            ctx.rep.violation(&sig, format!("find {:?}: {path} selected={got}, expected {want}; status {:?}", argv, out.code), case.clone());
            return Some(sig);
        }
        None
    } else if out.code != Ok(0) {
        let sig = "C17 replayed case still fails".to_string();
        ctx.rep.violation(&sig, format!("find {:?}: {}", argv, out.brief()), case.clone());
        Some(sig)
    } else {
        None
    }
}
