mod binrun;
mod engine;
mod findrun;
mod model;
mod props;
mod sandbox;
mod vreclog;
mod xargsrun;

use engine::Tier;

fn usage() -> ! {
    eprintln!("usage: mc check <ID> quick|thorough | mc shard <ID> <tier> <k> <n> | mc replay <file> | mc list");
    std::process::exit(2);
}

fn tier(s: &str) -> Tier {
    match s {
        "quick" => Tier::Quick,
        "thorough" => Tier::Thorough,
        _ => usage(),
    }
}

fn main() {
    let args: Vec<String> = std::env::args().collect();
    let props = props::all();
    if args.len() < 2 {
        usage();
    }
    let find = |id: &str| {
        props.iter().find(|p| p.id == id).unwrap_or_else(|| {
            eprintln!("mc: no check for property {id}");
            std::process::exit(2);
        })
    };
    let code = match args[1].as_str() {
        "list" => {
            for p in &props {
                println!("{}", p.id);
            }
            0
        }
        "check" if args.len() == 4 => engine::check(find(&args[2]), tier(&args[3])),
        "shard" if args.len() == 6 => engine::run_shard(
            find(&args[2]),
            tier(&args[3]),
            args[4].parse().unwrap(),
            args[5].parse().unwrap(),
        ),
        "replay" if args.len() == 3 => engine::replay(&props, &args[2]),
        _ => usage(),
    };
    std::process::exit(code);
}
