//! C19 xargs exit status — every child-outcome history up to a bound (outcomes injected
//! through hook H2 into the real classification code), explicit-state view of the sticky
//! result, xargs' own errors, and a slice with real children.

use crate::engine::{Ctx, Prop, Spec, Tier};
use crate::model::xargs::{exit_status, Child};
use crate::xargsrun::{run_xargs, Outcome};
use serde_json::{json, Value};
use std::collections::HashSet;

pub const PROP: Prop = Prop {
    id: "C19",
    spec,
    run,
    replay,
};

const OUTCOMES: [Outcome; 13] = [
    Outcome::Exit(0),
    Outcome::Exit(1),
    Outcome::Exit(2),
    Outcome::Exit(125),
    Outcome::Exit(255),
    Outcome::Signal(15),
    Outcome::Signal(9),
    Outcome::Signal(34),
    Outcome::Signal(64),
    Outcome::Errno(libc::ENOENT),
    Outcome::Errno(libc::EACCES),
    Outcome::Errno(libc::ENOEXEC),
    Outcome::Errno(libc::ENOTDIR),
];

fn to_child(o: Outcome) -> Child {
    match o {
        Outcome::Exit(c) => Child::Exit(c),
        Outcome::Signal(s) => Child::Signal(s),
        Outcome::Errno(e) if e == libc::ENOENT => Child::NotFound,
        Outcome::Errno(_) => Child::CannotRun,
        Outcome::Real => Child::Exit(0),
    }
}

fn oname(o: Outcome) -> String {
    match o {
        Outcome::Exit(c) => format!("exit{c}"),
        Outcome::Signal(s) => format!("sig{s}"),
        Outcome::Errno(e) => format!("errno{e}"),
        Outcome::Real => "real".into(),
    }
}

fn bounds(t: Tier) -> usize {
    t.pick(4, 7)
}

fn spec(t: Tier) -> Spec {
    Spec {
        id: "C19",
        level: "model_checking",
        rule: format!("every history of <= {} child outcomes over {{exit 0,1,2,125,255; SIGTERM, SIGKILL, the real-time signals 34 and 64; exec failing with ENOENT, EACCES, ENOEXEC, ENOTDIR}} is injected (hook H2) into the real xargs_main run with -n1 (histories <= 3 also with -n2 and with command lines closed by the size limit: -n4 -s19, -L3 -s19, -s19, --max-chars=19 --max-args=4) over enough input; exit status and the number of invocations started must equal the reference function (0 / 123 / 124 / 125 / 126 / 127, stop at once, continue past 1..125); state = (sticky failed flag from hook H3 | terminated), transitions = outcomes; scale slice: histories of 300 and 1000 invocations, successful except for each outcome at the first, second, 150th, 256th, 257th, last-but-one and last position, combined with a second failure (exit 1 early, exit 255 last, exit 3 at #260); xargs without a command (its own echo) with standard output /dev/full or a pipe whose reader has gone: 123 or 1, never a panic or 0; own errors (bad option values, unterminated quote, argument too long) must give 1; real-children slice: histories <= 3 over {{0,1,255,SIGTERM,SIGKILL,signal 34,SIGSEGV and SIGABRT with a core dump,unlink-self,chmod-self}} with a real recorder child must give the same statuses; 2500 invocations of /bin/true resp. test under a 256 KiB stack end with 0 / 123", bounds(t)),
        bound: json!({"history_len": bounds(t), "outcomes": OUTCOMES.iter().map(|o| oname(*o)).collect::<Vec<_>>()}),
        assumptions: vec!["child statuses 126..254 are not judged".into()],
        shards: 0,
        wall_cap_s: t.pick(300, 3600),
    }
}

/// How the command lines are formed: `per` 1 = -n1, 2 = -n2, and (two arguments per command line,
/// closed by the size limit before the count or line limit is reached) 3 = -n4 -s19, 4 = -L3 -s19,
/// 5 = -s19, 6 = --max-chars=19 --max-args=4.
fn batch_opts(per: usize) -> (&'static [&'static str], usize) {
    match per {
        1 => (&["-n1"], 1),
        2 => (&["-n2"], 2),
        3 => (&["-n4", "-s19"], 2),
        4 => (&["-L3", "-s19"], 2),
        5 => (&["-s19"], 2),
        _ => (&["--max-chars=19", "--max-args=4"], 2),
    }
}

fn run_history(file: &std::path::Path, h: &[Outcome], per: usize) -> crate::xargsrun::XOut {
    // enough input for len(h)+1 invocations, so that "stops at once" is observable
    let (opts, width) = batch_opts(per);
    let n = (h.len() + 1) * width;
    // (fixed-width arguments: "cmd x" + two 6-byte arguments = 18 bytes, a third does not fit 19)
    let input: String = (0..n).map(|i| format!("a{i:04}\n")).collect();
    std::fs::write(file, input).unwrap();
    let mut args: Vec<&str> = vec!["-a", file.to_str().unwrap()];
    args.extend(opts.iter().copied());
    args.extend(["cmd", "x"]);
    run_xargs(&args, &mut |k, _| if k < h.len() { h[k] } else { Outcome::Exit(0) })
}

fn judge(h: &[Outcome], got: &crate::xargsrun::XOut) -> Option<(String, String)> {
    let ch: Vec<Child> = h.iter().map(|o| to_child(*o)).collect();
    let (want_status, want_started) = exit_status(&ch)?;
    if let Err(p) = &got.code {
        return Some((format!("C19 xargs panicked at {}", p.split(':').take(2).collect::<Vec<_>>().join(":")), p.clone()));
    }
    // after the scripted history one more (successful) invocation exists if nothing was fatal
    let fatal = want_status >= 124;
    let want_inv = if fatal { want_started } else { h.len() + 1 };
    let detail = format!("history [{}]: expected status {want_status} with {want_inv} invocation(s); actual status {:?} with {} invocation(s); stderr {:?}", h.iter().map(|o| oname(*o)).collect::<Vec<_>>().join(","), got.code, got.inv.len(), String::from_utf8_lossy(&got.err).lines().last().unwrap_or(""));
    if got.inv.len() != want_inv {
        let sig = if got.inv.len() > want_inv { "C19 further invocations after a fatal child outcome" } else { "C19 stopped although the outcome was not fatal" };
        return Some((sig.to_string(), detail));
    }
    if got.code != Ok(want_status) {
        let last_fatal = h.iter().map(|o| to_child(*o)).find(|c| exit_status(&[*c]).is_some_and(|(s, _)| s >= 124));
        let sig = match (want_status, last_fatal) {
            (123, _) => "C19 exit status is not 123 although a child exited with 1..125".to_string(),
            (0, _) => "C19 exit status is not 0 although every child exited 0".to_string(),
            (s, Some(c)) => format!("C19 exit status is not {s} after {}", match c { Child::Exit(255) => "a child exited 255".to_string(), Child::Signal(_) => "a child was killed by a signal".to_string(), Child::NotFound => "the command was not found".to_string(), Child::CannotRun => "the command could not be executed".to_string(), _ => "?".to_string() }),
            (s, None) => format!("C19 exit status is not {s}"),
        };
        return Some((sig, detail));
    }
    if fatal && got.err.is_empty() {
        return Some(("C19 fatal child outcome without a diagnostic".into(), detail));
    }
    None
}

fn run(ctx: &mut Ctx) {
    let maxlen = bounds(ctx.tier);
    let file = ctx.sbx.join(".mc-xin");
    let mut states: HashSet<String> = HashSet::new();
    let mut h: Vec<Outcome> = vec![];
    let total: u64 = (0..=maxlen as u32).map(|l| (OUTCOMES.len() as u64).pow(l)).sum();
    let mut idx = 0u64;
    let mut stack: Vec<usize> = vec![];
    // iterative enumeration of all histories <= maxlen
    loop {
        idx += 1;
        if ctx.mine(idx) {
            h.clear();
            h.extend(stack.iter().map(|&i| OUTCOMES[i]));
            for per in [1usize, 2, 3, 4, 5, 6] {
                if per >= 2 && h.len() > 3 {
                    continue;
                }
                let got = run_history(&file, &h, per);
                ctx.rep.evaluations += 1;
                ctx.rep.transitions += h.len().max(1) as u64;
                if h.iter().any(|o| *o != Outcome::Exit(0)) {
                    ctx.rep.nontrivial += 1;
                }
                let st = match &got.code {
                    Ok(c) if *c >= 124 => format!("terminated({c})"),
                    _ => format!("running(failed={})", got.snaps.last().map(|s| s.failed).unwrap_or(false)),
                };
                states.insert(st);
                ctx.rep.class(&format!("status={:?}", got.code.as_ref().map(|c| *c).unwrap_or(101)));
                if idx % 5000 == 1 {
                    ctx.rep.sample(json!({"history": h.iter().map(|o| oname(*o)).collect::<Vec<_>>(), "per_invocation_args": per, "status": got.code.clone().unwrap_or(101), "invocations": got.inv.len()}));
                }
                if let Some((sig, detail)) = judge(&h, &got) {
                    let again = run_history(&file, &h, per);
                    if again.code != got.code || again.inv.len() != got.inv.len() {
                        ctx.rep.machinery(format!("nondeterministic: {detail}"));
                    } else {
                        ctx.rep.violation(&sig, format!("{}: {detail}", batch_opts(per).0.join(" ")), json!({"prop":"C19","per":per,"history":h.iter().map(|o| oname(*o)).collect::<Vec<_>>()}));
                    }
                }
            }
        }
        // next
        if stack.len() < maxlen {
            stack.push(0);
        } else {
            loop {
                match stack.pop() {
                    None => break,
                    Some(i) if i + 1 < OUTCOMES.len() => {
                        stack.push(i + 1);
                        break;
                    }
                    Some(_) => {}
                }
            }
            if stack.is_empty() {
                break;
            }
        }
    }
    let _ = total;
    // scale: histories of 300 and 1000 invocations, all successful except one or two outcomes at
    // the first, a middle, the 256th/257th and the last position
    let mut job = 0u64;
    for n in [300usize, 1000] {
        for o1 in OUTCOMES {
            for p1 in [0usize, 1, 149, 255, 256, n - 2, n - 1] {
                for (o2, p2) in [(Outcome::Exit(0), 0usize), (Outcome::Exit(1), 2), (Outcome::Exit(255), n - 1), (Outcome::Exit(3), 260)] {
                    job += 1;
                    if job % ctx.nshards != ctx.shard {
                        continue;
                    }
                    let mut h = vec![Outcome::Exit(0); n];
                    h[p2] = o2;
                    h[p1] = o1;
                    let got = run_history(&file, &h, 1);
                    ctx.rep.evaluations += 1;
                    ctx.rep.nontrivial += 1;
                    ctx.rep.transitions += n as u64;
                    ctx.rep.count("scale_histories", 1);
                    if let Some((sig, detail)) = judge(&h, &got) {
                        let short: String = detail.chars().rev().take(400).collect::<String>().chars().rev().collect();
                        ctx.rep.violation(&sig, format!("long history: {n} invocations, {} at #{p1}, {} at #{p2}: ...{short}", oname(o1), oname(o2)), json!({"prop":"C19","per":1,"history":h.iter().map(|o| oname(*o)).collect::<Vec<_>>()}));
                    }
                }
            }
        }
    }
    ctx.rep.states = states.len() as u64;
    if ctx.shard == 0 {
        own_errors(ctx);
    }
    real_children(ctx);
    if ctx.shard == 2 % ctx.nshards {
        builtin_echo_unwritable(ctx);
    }
    if ctx.shard == 3 % ctx.nshards {
        many_invocations_small_stack(ctx);
    }
    let _ = std::fs::remove_file(&file);
}

/// 2500 invocations of a real child under a 256 KiB stack: what xargs keeps per invocation must not pile
/// up — the run ends with 0 (every child succeeded) or 123 (the 1700th exited 1), not with a crash.
fn many_invocations_small_stack(ctx: &mut Ctx) {
    use std::ffi::OsStr;
    let sbx = ctx.sbx.clone();
    let input: Vec<u8> = (0..2500).flat_map(|i| format!("{i}\n").into_bytes()).collect();
    for (cmd, want) in [(vec!["-n1", "/bin/true"], 0), (vec!["-n1", "/usr/bin/test", "1700", "-ne"], 123), (vec!["-L1", "-I@", "/usr/bin/test", "@", "-ne", "1700"], 123)] {
        let args: Vec<&OsStr> = cmd.iter().map(OsStr::new).collect();
        let o = crate::binrun::run(&crate::binrun::repo_bin("xargs"), &args, &sbx, &crate::binrun::Opts { stack: Some(256 << 10), stdin: Some(input.clone()), timeout_s: 120, ..Default::default() });
        ctx.rep.evaluations += 1;
        ctx.rep.nontrivial += 1;
        ctx.rep.count("many_invocations_small_stack", 1);
        if o.code != Some(want) {
            ctx.rep.violation(
                "C19 2500 invocations under a 256 KiB stack: xargs does not end with the status of its children",
                format!("seq 0 2499 | xargs {:?}: status {:?} signal {:?} (expected {want}); stderr {:?}", cmd, o.code, o.signal, String::from_utf8_lossy(&o.err).lines().take(2).collect::<Vec<_>>()),
                json!({"prop":"C19","own":"many invocations"}),
            );
        }
    }
}

fn own_errors(ctx: &mut Ctx) {
    let file = ctx.sbx.join(".mc-xin");
    let f = file.to_str().unwrap().to_string();
    let cases: Vec<(Vec<String>, &str, &str)> = vec![
        (vec!["-n".into(), "0".into(), "cmd".into()], "a\n", "bad option value (-n 0)"),
        (vec!["-n".into(), "x".into(), "cmd".into()], "a\n", "bad option value (-n x)"),
        (vec!["-L".into(), "0".into(), "cmd".into()], "a\n", "bad option value (-L 0)"),
        (vec!["-s".into(), "0".into(), "cmd".into()], "a\n", "bad option value (-s 0)"),
        (vec!["-s".into(), "-1".into(), "cmd".into()], "a\n", "bad option value (-s -1)"),
        (vec!["-d".into(), "xx".into(), "cmd".into()], "a\n", "bad option value (-d xx)"),
        (vec!["-d".into(), "\\q".into(), "cmd".into()], "a\n", "bad option value (-d \\q)"),
        (vec!["--nonsense".into(), "cmd".into()], "a\n", "unknown option"),
        (vec!["cmd".into()], "a 'b\n", "unterminated quote"),
        (vec!["cmd".into()], "a \"b c\nd\n", "unterminated quote"),
        (vec!["-s".into(), "8".into(), "cmd".into()], "aaaaaaaaaaaaaaaa\n", "argument too long for -s"),
        (vec!["-s".into(), "8".into(), "-x".into(), "-n2".into(), "cmd".into()], "aa bb\n", "argument list too long with -x"),
        (vec!["-s".into(), "3".into(), "cmd".into()], "a\n", "command line alone exceeds -s"),
        // a line that fits once but not after substitution, under every spelling of the replace option
        (vec!["-s".into(), "30".into(), "-I".into(), "{}".into(), "cmd".into(), "{}{}".into()], "aaaaaaaaaaaaaaaa\n", "line too long after substitution (-I {})"),
        (vec!["-s".into(), "30".into(), "-I{}".into(), "cmd".into(), "{}{}".into()], "aaaaaaaaaaaaaaaa\n", "line too long after substitution (-I{})"),
        (vec!["-s".into(), "30".into(), "-i".into(), "cmd".into(), "{}{}".into()], "aaaaaaaaaaaaaaaa\n", "line too long after substitution (-i)"),
        (vec!["-s".into(), "30".into(), "-i={}".into(), "cmd".into(), "{}{}".into()], "aaaaaaaaaaaaaaaa\n", "line too long after substitution (-i={})"),
        (vec!["-s".into(), "30".into(), "--replace".into(), "cmd".into(), "{}{}".into()], "aaaaaaaaaaaaaaaa\n", "line too long after substitution (--replace)"),
        (vec!["--max-chars=30".into(), "--replace=R".into(), "cmd".into(), "RR".into()], "aaaaaaaaaaaaaaaa\n", "line too long after substitution (--replace=R)"),
        (vec!["-i".into(), "-s".into(), "30".into(), "cmd".into(), "{}".into(), "{}".into()], "b\naaaaaaaaaaaaaaaa\n", "line too long after substitution into two arguments (-i), after an earlier line"),
        (vec!["-s".into(), "16".into(), "cmd".into()], "\u{e9}\u{e9}\u{e9}\u{e9}\u{e9}\u{e9}\n", "argument too long for -s in bytes though not in characters (six 2-byte characters, -s 16)"),
        (vec!["-s".into(), "16".into(), "-n1".into(), "cmd".into()], "a\n\u{20ac}\u{20ac}\u{20ac}\u{20ac}\n", "argument too long for -s in bytes though not in characters (four 3-byte characters), after an earlier command line"),
        // the same errors after earlier command lines have been run
        (vec!["-s".into(), "30".into(), "-n1".into(), "cmd".into()], "a\nb\naaaaaaaaaaaaaaaaaaaaaaaaaaaaa\n", "argument too long for -s, after two command lines were run"),
        (vec!["-s".into(), "30".into(), "cmd".into()], "aaaaaaaaaaaaaaaaaaaa bbbbbbbbbbbbbbbbbbbb\naaaaaaaaaaaaaaaaaaaaaaaaaaaaa\n", "argument too long for -s, after the limit closed earlier command lines"),
        (vec!["-n1".into(), "cmd".into()], "a\nb\nc 'd\n", "unterminated quote after earlier command lines"),
        (vec!["-s".into(), "12".into(), "-x".into(), "-n2".into(), "cmd".into()], "a b\ncccc dddd\n", "argument list too long with -x, after an earlier command line"),
    ];
    for (opts, input, what) in cases {
        std::fs::write(&file, input).unwrap();
        let mut av: Vec<String> = vec!["-a".into(), f.clone()];
        av.extend(opts);
        let args: Vec<&str> = av.iter().map(|s| s.as_str()).collect();
        // (also when the first command line run before the error exited 3: the error is still xargs' own)
        for first in [Outcome::Exit(0), Outcome::Exit(3)] {
            let got = run_xargs(&args, &mut |k, _| if k == 0 { first } else { Outcome::Exit(0) });
            ctx.rep.evaluations += 1;
            ctx.rep.nontrivial += 1;
            ctx.rep.count("own_error_cases", 1);
            let bad = match &got.code {
                Err(p) => Some(format!("panicked: {p}")),
                Ok(1) if !got.err.is_empty() => None,
                Ok(c) => Some(format!("status {c}, stderr {:?}", String::from_utf8_lossy(&got.err))),
            };
            if let Some(b) = bad {
                let after = if first == Outcome::Exit(0) { "" } else { " (an earlier command line exited 3)" };
                ctx.rep.violation(&format!("C19 own error not reported with exit status 1{after}: {what}"), format!("xargs {:?} < {:?}: {b}", args, input), json!({"prop":"C19","own":what}));
            }
        }
    }
}

/// histories with real children: a private copy of the recorder that exits, kills itself,
/// unlinks or chmods its own executable as scripted
/// xargs without a command echoes the arguments itself: when that output cannot be written
/// (standard output is /dev/full, or a pipe whose reader has gone) the "invocation" has failed —
/// exit status 123 like a failing echo child (1 is accepted too) — never a panic, never 0.
fn builtin_echo_unwritable(ctx: &mut Ctx) {
    use std::io::Write;
    use std::os::unix::io::FromRawFd;
    use std::os::unix::process::ExitStatusExt;
    use std::process::{Command, Stdio};
    let exe = crate::engine::repo_bin_dir().join("xargs");
    for dest in ["/dev/full", "closed pipe", "/dev/null"] {
        for opts in [&[][..], &["-n1"][..], &["-I", "{}"][..]] {
            let out: Stdio = if dest == "closed pipe" {
                let mut fds = [0i32; 2];
                if unsafe { libc::pipe(fds.as_mut_ptr()) } != 0 {
                    ctx.rep.machinery("pipe()".into());
                    continue;
                }
                unsafe { libc::close(fds[0]) };
                unsafe { Stdio::from(std::fs::File::from_raw_fd(fds[1])) }
            } else {
                Stdio::from(std::fs::OpenOptions::new().write(true).open(dest).unwrap())
            };
            let child = Command::new(&exe).args(opts).current_dir(&ctx.sbx).env_clear().stdin(Stdio::piped()).stdout(out).stderr(Stdio::piped()).spawn();
            let Ok(mut child) = child else {
                ctx.rep.machinery("spawn xargs".into());
                continue;
            };
            let _ = child.stdin.take().unwrap().write_all(b"a b\nc\n");
            let Ok(o) = child.wait_with_output() else { continue };
            ctx.rep.evaluations += 1;
            ctx.rep.nontrivial += 1;
            ctx.rep.count("builtin_echo_runs", 1);
            let (code, sig) = (o.status.code(), o.status.signal());
            let ok = if dest == "/dev/null" { code == Some(0) } else { matches!(code, Some(123) | Some(1)) || sig == Some(libc::SIGPIPE) };
            if !ok {
                ctx.rep.violation(
                    &format!("C19 xargs without a command: {} when its own echo cannot be written", if matches!(code, Some(101) | Some(134)) { "panic" } else if code == Some(0) { "exit status 0" } else { "unexpected status" }),
                    format!("xargs {:?} with standard output {dest}: code {:?} signal {:?} stderr {:?}", opts, code, sig, String::from_utf8_lossy(&o.stderr).chars().take(200).collect::<String>()),
                    json!({"prop":"C19","echo":dest}),
                );
            }
        }
    }
}

fn real_children(ctx: &mut Ctx) {
    use std::io::Write;
    let maxlen = ctx.tier.pick(2, 3);
    let script = ["0", "1", "255", "s15", "s9", "s34", "c11", "c6", "u", "x"];
    let src = crate::engine::self_bin_dir().join("vrec");
    let copy = ctx.sbx.join(".mc-vrec-copy");
    let log = ctx.sbx.join(".mc-vrec.log");
    let mut hs: Vec<Vec<usize>> = vec![];
    fn rec(cur: &mut Vec<usize>, maxlen: usize, n: usize, out: &mut Vec<Vec<usize>>) {
        if !cur.is_empty() {
            out.push(cur.clone());
        }
        if cur.len() == maxlen {
            return;
        }
        for i in 0..n {
            cur.push(i);
            rec(cur, maxlen, n, out);
            cur.pop();
        }
    }
    rec(&mut vec![], maxlen, script.len(), &mut hs);
    for h in hs {
        if !ctx.next_mine() {
            continue;
        }
        let _ = std::fs::remove_file(&copy);
        let _ = std::fs::remove_file(&log);
        std::fs::copy(&src, &copy).unwrap();
        let outcomes: String = h.iter().map(|&i| script[i]).collect::<Vec<_>>().join(",");
        // reference: 'u' and 'x' exit 0 themselves; the NEXT invocation fails with ENOENT / EACCES
        let mut ch: Vec<Child> = vec![];
        let mut broken: Option<Child> = None;
        for &i in &h {
            if let Some(b) = broken {
                ch.push(b);
                break;
            }
            match script[i] {
                "u" => {
                    ch.push(Child::Exit(0));
                    broken = Some(Child::NotFound);
                }
                "x" => {
                    ch.push(Child::Exit(0));
                    broken = Some(Child::CannotRun);
                }
                "s15" => ch.push(Child::Signal(15)),
                "s9" => ch.push(Child::Signal(9)),
                "s34" => ch.push(Child::Signal(34)),
                "c11" => ch.push(Child::Signal(11)),
                "c6" => ch.push(Child::Signal(6)),
                c => ch.push(Child::Exit(c.parse().unwrap())),
            }
        }
        // one more invocation follows the scripted ones (input has len+1 items)
        if let Some(b) = broken {
            if ch.len() == h.len() {
                ch.push(b);
            }
        }
        let Some((want, _)) = exit_status(&ch) else { continue };
        let n = h.len() + 1;
        let input: String = (0..n).map(|i| format!("a{i}\n")).collect();
        let args: Vec<&std::ffi::OsStr> = vec!["-n1".as_ref(), copy.as_os_str(), log.as_os_str()];
        let (code, _o, err) = crate::xargsrun::run_xargs_bin(&args, &ctx.sbx, &[("VREC_OUTCOMES", &outcomes)], &mut |si| {
            let _ = si.write_all(input.as_bytes());
        });
        ctx.rep.evaluations += 1;
        ctx.rep.nontrivial += 1;
        ctx.rep.count("real_children_histories", 1);
        if code != Ok(want) {
            ctx.rep.violation(
                &format!("C19 real children: exit status differs from the reference ({want} expected)"),
                format!("script [{outcomes}] -> expected {want}, xargs binary gave {:?}; stderr {:?}", code, String::from_utf8_lossy(&err)),
                json!({"prop":"C19","real":outcomes}),
            );
        } else {
            ctx.rep.traces_validated += 1;
        }
    }
    let _ = std::fs::remove_file(&copy);
    let _ = std::fs::remove_file(&log);
    // core files the dumping children may have left
    if let Ok(rd) = std::fs::read_dir(&ctx.sbx) {
        for e in rd.flatten() {
            if e.file_name().to_string_lossy().starts_with("core") {
                let _ = std::fs::remove_file(e.path());
            }
        }
    }
}

fn replay(case: &Value, ctx: &mut Ctx) -> Option<String> {
    if case["echo"].is_string() {
        builtin_echo_unwritable(ctx);
        return ctx.rep.violations.keys().next().cloned();
    }
    let file = ctx.sbx.join(".mc-xin");
    let names: Vec<String> = case["history"].as_array()?.iter().map(|v| v.as_str().unwrap_or("").to_string()).collect();
    let h: Vec<Outcome> = names.iter().filter_map(|n| OUTCOMES.iter().copied().find(|o| oname(*o) == *n)).collect();
    let per = case["per"].as_u64().unwrap_or(1) as usize;
    let got = run_history(&file, &h, per);
    match judge(&h, &got) {
        Some((sig, detail)) => {
            ctx.rep.violation(&sig, detail, case.clone());
            Some(sig)
        }
        None => None,
    }
}
