pub mod c01;
pub mod c02;
pub mod exprspace;

use crate::engine::Prop;

pub fn all() -> Vec<Prop> {
    vec![c01::PROP, c02::PROP]
}
