//! C18 starting points — every list of root spellings, command line vs -files0-from.

use crate::engine::{Ctx, Prop, Spec, Tier};
use crate::findrun::{run_find, run_find_bin, FindOut};
use crate::model::tree::{self, Follow, Fs, WalkCfg, WalkNotes, K};
use serde_json::{json, Value};

pub const PROP: Prop = Prop {
    id: "C18",
    spec,
    run,
    replay,
};

/// spellings usable on the command line; ABS is replaced by the absolute path of w/r
const ARGV_ROOTS: [&str; 15] = [
    "r", "./r", "r/", "r//", "r/.", "d/../r", "ABS", "missing", "f", "lr", "..//w/r", "lx", "lr/", "(old)", "!keep",
];
/// additional names only -files0-from can carry
const FILES0_ONLY: [&str; 5] = ["", "-dash", "new\nline", " ", "\n"];

fn bounds(t: Tier) -> usize {
    t.pick(2, 5)
}

fn spec(t: Tier) -> Spec {
    Spec {
        id: "C18",
        level: "exploration",
        rule: format!("every list of <= {} starting points over {} spellings (directory, ./, trailing /, //, /., ../, absolute, missing, file, link to directory with and without trailing /, dangling link, names beginning with ( and !; lists of <= 2 also under -H and -L) (plus, through -files0-from only: the empty name, a name starting with '-', a name containing a newline) is walked by find_main; the -print0 output must be the concatenation, in order, of the per-root reference walks with every path beginning with the root exactly as spelled; each argv list is also given as -files0-from FILE (with and without final NUL) and must give byte-identical output; missing roots must be diagnosed with non-zero status without affecting the others; the no-root case must equal '.' (also for expressions beginning with '!' or '(', after -H/-L/-P, and for expressions selecting nothing); lists with a missing starting point under six -mindepth/-maxdepth windows (two of them empty): diagnosed, non-zero, the others walked; an empty name is skipped (at most one diagnostic per empty name and no report of an attempt to examine it); alignment sweep: lists of ~1400 and ~2800 names with the terminator of a name at every byte offset 8186..8198 and 16380..16388 (FILE and stdin); binary slice: -files0-from - on stdin; environment cases: a -files0-from list written to a pipe in three pieces; four starting points (one missing) with standard output on /dev/full — all still processed, seen through -fprint; a list holding a name that is not valid UTF-8 (walked, or refused loudly — a look-alike with the lossy spelling exists and must not be walked in its place); starting points that cannot be examined for other reasons than ENOENT (a link to itself, a cycle of one link through a sub-path, a 300-byte name, a path through a file) in three positions between two that are fine, x -P/-H/-L x command line / -files0-from; 150 starting points (operands and -files0-from) with 64 file descriptors, with -xdev/-mount and without; scale slice: 3000 starting points (18 000-byte list) on the command line, via -files0-from FILE and via -files0-from - with and without a final NUL; 255, 256, 257 and 512 missing starting points followed by an existing one through the binary (every one diagnosed, exit status non-zero, the existing one walked); non-trivial = list with >= 2 roots or a non-canonical spelling", bounds(t), ARGV_ROOTS.len()),
        bound: json!({"max_roots": bounds(t), "argv_spellings": ARGV_ROOTS, "files0_only": FILES0_ONLY}),
        assumptions: vec!["exit status after an empty -files0-from name is not judged (statement: 'diagnosed and skipped')".into()],
        shards: 0,
        wall_cap_s: t.pick(300, 1800),
    }
}

fn c18_fs() -> Fs {
    let mut fs = Fs::new();
    let w = fs.add(0, "w", K::Dir);
    let r = fs.add(w, "r", K::Dir);
    fs.add(r, "a", K::File);
    let s = fs.add(r, "s", K::Dir);
    fs.add(s, "b", K::File);
    fs.add(w, "d", K::Dir);
    fs.add(w, "f", K::File);
    fs.add(w, "lr", K::Link("r".into()));
    fs.add(w, "lx", K::Link("nowhere".into()));
    // names that merely begin with an operator character are ordinary starting points
    let po = fs.add(w, "(old)", K::Dir);
    fs.add(po, "z", K::File);
    fs.add(w, "!keep", K::File);
    let dash = fs.add(w, "-dash", K::Dir);
    fs.add(dash, "x", K::File);
    let nl = fs.add(w, "new\nline", K::Dir);
    fs.add(nl, "y", K::File);
    // names made of blanks only are names too
    let sp = fs.add(w, " ", K::Dir);
    fs.add(sp, "in", K::File);
    fs.add(w, "\n", K::File);
    fs
}

struct Env {
    fs: Fs,
    w: usize,
    abs: String,
}

fn spell<'a>(env: &'a Env, r: &'a str) -> &'a str {
    if r == "ABS" {
        &env.abs
    } else {
        r
    }
}

/// reference: (stdout bytes, any root missing, any empty name)
fn expected(env: &Env, roots: &[&str], follow: Follow) -> (Vec<u8>, bool, usize) {
    expected_window(env, roots, follow, 0, usize::MAX)
}

fn expected_window(env: &Env, roots: &[&str], follow: Follow, mindepth: usize, maxdepth: usize) -> (Vec<u8>, bool, usize) {
    let cfg = WalkCfg { follow, mindepth, maxdepth, depth_first: false };
    let mut out = vec![];
    let mut missing = false;
    let mut empty = 0usize;
    for r in roots {
        let sp = spell(env, r);
        if sp.is_empty() {
            empty += 1;
            continue;
        }
        let mut notes = WalkNotes::default();
        // an absolute spelling is resolved by stripping the sandbox prefix (node 0 is the sandbox)
        let (start, rel): (usize, String) = if let Some(rest) = sp.strip_prefix('/') {
            let sb = env.abs.trim_end_matches("/w/r").trim_start_matches('/');
            (0, format!("/{}", rest.strip_prefix(sb).unwrap_or(rest).trim_start_matches('/')))
        } else {
            (env.w, sp.to_string())
        };
        let visits = tree::walk_all(&env.fs, start, &rel, &cfg, &mut notes);
        if !notes.missing_roots.is_empty() {
            missing = true;
        }
        for v in visits {
            // replace the resolvable spelling by the spelling as given
            let shown = format!("{}{}", sp, &v.path[rel.len()..]);
            out.extend_from_slice(shown.as_bytes());
            out.push(0);
        }
    }
    (out, missing, empty)
}

fn judge(what: &str, want: &(Vec<u8>, bool, usize), got: &FindOut) -> Option<(String, String)> {
    if let Err(p) = &got.code {
        return Some((format!("C18 panic ({what})"), p.clone()));
    }
    let show = |b: &[u8]| String::from_utf8_lossy(b).replace('\0', " | ");
    if got.out != want.0 {
        return Some((
            format!("C18 output differs from per-root reference walks ({what})"),
            format!("expected {:?}\nactual   {:?}\nstderr {:?}", show(&want.0), show(&got.out), String::from_utf8_lossy(&got.err)),
        ));
    }
    if want.1 && (got.code == Ok(0) || got.err.is_empty()) {
        return Some((
            format!("C18 missing starting point not diagnosed / exit status 0 ({what})"),
            format!("status {:?} stderr {:?}", got.code, String::from_utf8_lossy(&got.err)),
        ));
    }
    if want.2 > 0 && got.err.is_empty() {
        return Some((format!("C18 empty name in -files0-from not diagnosed ({what})"), String::new()));
    }
    // "diagnosed and skipped": nothing is examined under an empty name — at most one diagnostic per
    // empty name, and none that reports a failed attempt to look at it
    let err = String::from_utf8_lossy(&got.err);
    if want.2 > 0 && !want.1 && (err.lines().count() > want.2 || err.contains("No such file")) {
        return Some((
            format!("C18 empty name in -files0-from not skipped: an attempt to examine it is reported ({what})"),
            format!("{} empty name(s); status {:?} stderr {:?}", want.2, got.code, err),
        ));
    }
    if !want.1 && want.2 == 0 && got.code != Ok(0) {
        return Some((
            format!("C18 non-zero exit status although every starting point is fine ({what})"),
            format!("status {:?} stderr {:?}", got.code, String::from_utf8_lossy(&got.err)),
        ));
    }
    None
}

fn files0_bytes(env: &Env, roots: &[&str], final_nul: bool) -> Vec<u8> {
    let mut b = vec![];
    for (i, r) in roots.iter().enumerate() {
        b.extend_from_slice(spell(env, r).as_bytes());
        if i + 1 < roots.len() || final_nul {
            b.push(0);
        }
    }
    b
}

fn setup(ctx: &Ctx) -> Env {
    let fs = c18_fs();
    crate::sandbox::clear_dir(&ctx.sbx);
    crate::sandbox::materialize(&fs, 0, &ctx.sbx).expect("materialize");
    crate::sandbox::validate(&fs, 0, &ctx.sbx).expect("validate");
    std::env::set_current_dir(ctx.sbx.join("w")).unwrap();
    let w = fs.child(0, "w").unwrap();
    Env { fs, w, abs: format!("{}/w/r", ctx.sbx.display()) }
}

fn check_list(ctx: &mut Ctx, env: &Env, roots: &[&str], argv_ok: bool) {
    // every follow mode for lists of <= 2 starting points, -P only beyond
    let follows: &[Follow] = if roots.len() <= 2 { &[Follow::P, Follow::H, Follow::L] } else { &[Follow::P] };
    for &follow in follows {
        check_list_follow(ctx, env, roots, argv_ok, follow);
    }
}

fn check_list_follow(ctx: &mut Ctx, env: &Env, roots: &[&str], argv_ok: bool, follow: Follow) {
    let want = expected(env, roots, follow);
    let canon = roots.len() == 1 && roots[0] == "r";
    let listf = ctx.sbx.join(".mc-files0");
    let mut variants: Vec<(String, Vec<String>, Option<Vec<u8>>)> = vec![];
    if argv_ok {
        let mut a: Vec<String> = if follow == Follow::P { vec![] } else { vec![follow.flag().to_string()] };
        a.extend(roots.iter().map(|r| spell(env, r).to_string()));
        a.push("-sorted".into());
        a.push("-print0".into());
        variants.push(("argv".into(), a, None));
    }
    for final_nul in [true, false] {
        // without a final NUL a trailing empty name cannot be expressed
        if !final_nul && roots.last().is_some_and(|r| r.is_empty()) {
            continue;
        }
        let mut a: Vec<String> = if follow == Follow::P { vec![] } else { vec![follow.flag().to_string()] };
        a.extend(["-files0-from".into(), listf.to_string_lossy().to_string(), "-sorted".into(), "-print0".into()]);
        variants.push((format!("files0 {}", if final_nul { "with final NUL" } else { "without final NUL" }), a, Some(files0_bytes(env, roots, final_nul))));
    }
    for (what, av, list) in variants {
        ctx.rep.evaluations += 1;
        if !canon {
            ctx.rep.nontrivial += 1;
        }
        if let Some(b) = &list {
            std::fs::write(&listf, b).unwrap();
        }
        let args: Vec<&str> = av.iter().map(|s| s.as_str()).collect();
        let got = run_find(&args);
        ctx.rep.class(&format!("{} missing={} empty={} status={:?}", what.split(' ').next().unwrap(), want.1, want.2 > 0, got.code.as_ref().map(|c| *c).unwrap_or(101)));
        if ctx.rep.evaluations % 500 == 3 {
            ctx.rep.sample(json!({"roots": roots, "form": what, "expected": String::from_utf8_lossy(&want.0).replace('\0', " | ")}));
        }
        let label = format!("{}{}", what.split(' ').next().unwrap(), if follow == Follow::P { String::new() } else { format!(" {}", follow.flag()) });
        if let Some((sig, detail)) = judge(&label, &want, &got) {
            ctx.rep.violation(
                &sig,
                format!("roots {:?} via {what}: find {:?}\n{}", roots, av, detail),
                json!({"prop":"C18","roots":roots,"form":what}),
            );
        }
    }
}

fn lists(alphabet: &[&'static str], maxlen: usize, f: &mut dyn FnMut(&[&'static str])) {
    fn rec(alphabet: &[&'static str], maxlen: usize, cur: &mut Vec<&'static str>, f: &mut dyn FnMut(&[&'static str])) {
        if !cur.is_empty() {
            f(cur);
        }
        if cur.len() == maxlen {
            return;
        }
        for a in alphabet {
            cur.push(a);
            rec(alphabet, maxlen, cur, f);
            cur.pop();
        }
    }
    rec(alphabet, maxlen, &mut vec![], f);
}

fn run(ctx: &mut Ctx) {
    let env = setup(ctx);
    let maxlen = bounds(ctx.tier);
    // 1. argv-expressible lists: argv form and files0 forms
    let mut todo: Vec<Vec<&'static str>> = vec![];
    lists(&ARGV_ROOTS, maxlen, &mut |l| {
        if ctx.next_mine() {
            todo.push(l.to_vec());
        }
    });
    for l in &todo {
        check_list(ctx, &env, l, true);
    }
    // 2. lists containing at least one files0-only name
    let mut all: Vec<&'static str> = vec!["r", "r/", "missing", "f"];
    all.extend(FILES0_ONLY);
    let mut todo: Vec<Vec<&'static str>> = vec![];
    lists(&all, maxlen.max(3), &mut |l| {
        if l.iter().any(|r| FILES0_ONLY.contains(r)) && ctx.next_mine() {
            todo.push(l.to_vec());
        }
    });
    for l in &todo {
        check_list(ctx, &env, l, false);
    }
    // 3. no starting point at all == "."
    if ctx.shard == 0 {
        ctx.rep.evaluations += 1;
        let a = run_find(&["-sorted", "-print0"]);
        let b = run_find(&[".", "-sorted", "-print0"]);
        let cfg = WalkCfg { follow: Follow::P, mindepth: 0, maxdepth: usize::MAX, depth_first: false };
        let mut notes = WalkNotes::default();
        let n = tree::walk_all(&env.fs, env.w, ".", &cfg, &mut notes).len();
        let cnt = a.out.iter().filter(|&&c| c == 0).count();
        let mut sa: Vec<&[u8]> = a.out.split(|&c| c == 0).collect();
        let mut sb: Vec<&[u8]> = b.out.split(|&c| c == 0).collect();
        sa.sort();
        sb.sort();
        if sa != sb || cnt != n || a.code != Ok(0) || !a.out.starts_with(b".\0") {
            ctx.rep.violation(
                "C18 no starting point is not equivalent to '.'",
                format!("find -print0 gave {} entries (status {:?}), find . gave {}, reference {}", cnt, a.code, b.out.iter().filter(|&&c| c == 0).count(), n),
                json!({"prop":"C18","roots":[],"form":"argv"}),
            );
        }
        // 3b. ... also when the expression begins with '!' or '(' (words that do not start with '-'),
        // after -H/-L/-P, and for an expression that selects nothing
        for expr in [vec!["!", "-name", "nope"], vec!["(", "-true", ")"], vec!["-not", "-name", "nope"], vec!["!", "-type", "d"], vec!["(", "-name", "f", "-o", "-name", "r", ")"], vec!["-false"], vec!["!", "-true"]] {
            for flags in [vec![], vec!["-L"], vec!["-H"], vec!["-P"]] {
                let mut without: Vec<&str> = flags.clone();
                without.extend(expr.iter().copied());
                without.extend(["-sorted", "-print0"]);
                let mut with: Vec<&str> = flags.clone();
                with.push(".");
                with.extend(expr.iter().copied());
                with.extend(["-sorted", "-print0"]);
                let a = run_find(&without);
                let b = run_find(&with);
                ctx.rep.evaluations += 1;
                ctx.rep.nontrivial += 1;
                ctx.rep.count("no_starting_point_cases", 1);
                if a.out != b.out || a.code != b.code || a.code != Ok(0) {
                    ctx.rep.violation(
                        "C18 no starting point is not equivalent to '.'",
                        format!("find {:?} gave {} entries (status {:?}); find {:?} gave {} (status {:?})", without, a.out.iter().filter(|&&c| c == 0).count(), a.code, with, b.out.iter().filter(|&&c| c == 0).count(), b.code),
                        json!({"prop":"C18","roots":[],"form":"argv"}),
                    );
                }
            }
        }
        // 3c. a starting point that cannot be examined is diagnosed whatever -mindepth / -maxdepth say
        // (also when no depth satisfies both)
        for l in [vec!["missing", "r"], vec!["r", "missing", "f"], vec!["missing"], vec!["r/", "dang", "missing", "lr"]] {
            for (mn, mx) in [(2usize, 1usize), (1, 0), (0, 0), (3, usize::MAX), (2, 2), (1, 1)] {
                let want = expected_window(&env, &l, Follow::P, mn, mx);
                let mut av: Vec<String> = l.iter().map(|s| s.to_string()).collect();
                av.extend(["-mindepth".to_string(), mn.to_string()]);
                if mx != usize::MAX {
                    av.extend(["-maxdepth".to_string(), mx.to_string()]);
                }
                av.extend(["-sorted".to_string(), "-print0".to_string()]);
                let args: Vec<&str> = av.iter().map(|s| s.as_str()).collect();
                let got = run_find(&args);
                ctx.rep.evaluations += 1;
                ctx.rep.nontrivial += 1;
                ctx.rep.count("depth_window_cases", 1);
                if let Some((sig, detail)) = judge(&format!("argv -mindepth {mn}{}", if mx == usize::MAX { String::new() } else { format!(" -maxdepth {mx}") }), &want, &got) {
                    ctx.rep.violation(&sig, format!("roots {:?}: find {:?}\n{}", l, av, detail), json!({"prop":"C18","roots":l,"form":"argv"}));
                }
            }
        }
        // 4. binary slice: -files0-from - reads standard input
        let w = ctx.sbx.join("w");
        for l in [vec!["r"], vec!["r/", "-dash"], vec!["new\nline", "missing", "./r"], vec!["", "r"]] {
            for final_nul in [true, false] {
                let want = expected(&env, &l, Follow::P);
                let data = files0_bytes(&env, &l, final_nul);
                let got = run_find_bin(&["-files0-from", "-", "-sorted", "-print0"], &w, Some(&data));
                ctx.rep.evaluations += 1;
                ctx.rep.nontrivial += 1;
                if let Some((sig, detail)) = judge("stdin", &want, &got) {
                    ctx.rep.violation(&sig, format!("roots {:?} via -files0-from - (binary): {detail}", l), json!({"prop":"C18","roots":l,"form":"stdin"}));
                } else {
                    ctx.rep.traces_validated += 1;
                }
            }
        }
        // argv form through the binary must agree with the in-process binding
        for l in [vec!["r"], vec!["r//", "lr"], vec!["missing", "r/."]] {
            let mut av: Vec<&str> = l.clone();
            av.push("-sorted");
            av.push("-print0");
            let a = run_find(&av);
            let b = run_find_bin(&av, &w, None);
            if a.out != b.out || a.code != b.code {
                ctx.rep.machinery(format!("bindings disagree on {:?}", av));
            } else {
                ctx.rep.traces_validated += 1;
            }
        }
    }
    if ctx.shard == 1 % ctx.nshards {
        scale_slice(ctx);
    }
    std::env::set_current_dir(&ctx.sbx).ok();
}

/// Lists far longer than the exhaustive ones: 3000 starting points (an 18 000-byte NUL-separated
/// list: names straddle the 8192-byte marks) on the command line, via -files0-from FILE with and
/// without a final NUL, and via -files0-from - (binary); and N = 255, 256, 257, 512 missing
/// starting points followed by one that exists (binary: the exit status is what the parent sees).
fn scale_slice(ctx: &mut Ctx) {
    let many = ctx.sbx.join("many");
    let _ = crate::sandbox::force_remove(&many);
    std::fs::create_dir(&many).unwrap();
    let names: Vec<String> = (0..3000).map(|i| format!("n{i:04}")).collect();
    for n in &names {
        std::fs::write(many.join(n), b"").unwrap();
    }
    std::env::set_current_dir(&many).unwrap();
    let want: Vec<u8> = names.iter().flat_map(|n| n.bytes().chain(std::iter::once(0))).collect();
    let listf = ctx.sbx.join(".mc-files0");
    let mut variants: Vec<(String, Vec<String>, Option<Vec<u8>>, bool)> = vec![];
    let mut a: Vec<String> = names.clone();
    a.push("-print0".into());
    variants.push(("3000 starting points on the command line".into(), a, None, false));
    for final_nul in [true, false] {
        let mut data = want.clone();
        if !final_nul {
            data.pop();
        }
        variants.push((format!("3000 starting points via -files0-from FILE ({} final NUL)", if final_nul { "with" } else { "without" }), vec!["-files0-from".into(), listf.to_string_lossy().to_string(), "-print0".into()], Some(data.clone()), false));
        variants.push((format!("3000 starting points via -files0-from - ({} final NUL)", if final_nul { "with" } else { "without" }), vec!["-files0-from".into(), "-".into(), "-print0".into()], Some(data), true));
    }
    for (what, av, data, stdin) in variants {
        let args: Vec<&str> = av.iter().map(|s| s.as_str()).collect();
        let got = if stdin {
            run_find_bin(&args, &many, data.as_deref())
        } else {
            if let Some(d) = &data {
                std::fs::write(&listf, d).unwrap();
            }
            run_find(&args)
        };
        ctx.rep.evaluations += 1;
        ctx.rep.nontrivial += 1;
        ctx.rep.count("scale_lists", 1);
        if got.out != want || got.code != Ok(0) {
            let first = got.out.split(|&c| c == 0).zip(want.split(|&c| c == 0)).position(|(a, b)| a != b);
            ctx.rep.violation(
                "C18 a long list of starting points is not walked name by name",
                format!("{what}: status {:?}, {} entries printed (expected 3000), first difference at entry {:?}; stderr {:?}", got.code, got.out.iter().filter(|&&c| c == 0).count(), first, String::from_utf8_lossy(&got.err).lines().take(3).collect::<Vec<_>>()),
                json!({"prop":"C18","scale":true}),
            );
        }
    }
    // the terminator of some name at every offset around the 8192- and 16384-byte marks of the list
    // (a reader that takes the list in blocks sees a block that starts or ends with a terminator)
    for t in (8186usize..=8198).chain(16380..=16388) {
        let j = (t - 13) / 6;
        let p = t - 6 - 6 * j;
        let first = format!(".{}n0000", "/".repeat(p - 6));
        let mut roots: Vec<String> = vec![first];
        roots.extend((1..=j + 40).map(|i| format!("n{i:04}")));
        let data: Vec<u8> = roots.iter().flat_map(|r| r.bytes().chain(std::iter::once(0))).collect();
        if data.get(t) != Some(&0) || data.get(t - 1) == Some(&0) {
            ctx.rep.machinery(format!("alignment sweep: no terminator at offset {t}"));
            continue;
        }
        for stdin in [false, true] {
            let got = if stdin {
                run_find_bin(&["-files0-from", "-", "-print0"], &many, Some(&data))
            } else {
                std::fs::write(&listf, &data).unwrap();
                run_find(&["-files0-from", listf.to_str().unwrap(), "-print0"])
            };
            ctx.rep.evaluations += 1;
            ctx.rep.nontrivial += 1;
            ctx.rep.count("alignment_sweep_lists", 1);
            if got.out != data || got.code != Ok(0) {
                let firstd = got.out.split(|&c| c == 0).zip(data.split(|&c| c == 0)).position(|(a, b)| a != b);
                ctx.rep.violation(
                    "C18 a long list of starting points is not walked name by name (a terminator at a block edge of the list)",
                    format!("-files0-from {}: terminator of name {} at byte offset {t}: status {:?}, {} entries printed (expected {}), first difference at entry {:?}; stderr {:?}", if stdin { "-" } else { "FILE" }, j + 1, got.code, got.out.iter().filter(|&&c| c == 0).count(), roots.len(), firstd, String::from_utf8_lossy(&got.err).lines().take(3).collect::<Vec<_>>()),
                    json!({"prop":"C18","scale":true}),
                );
            }
        }
    }
    for n in [255usize, 256, 257, 512] {
        for via_file in [false, true] {
            let mut roots: Vec<String> = (0..n).map(|i| format!("zz{i:04}")).collect();
            roots.push("n0000".into());
            let av: Vec<String> = if via_file {
                let data: Vec<u8> = roots.iter().flat_map(|r| r.bytes().chain(std::iter::once(0))).collect();
                std::fs::write(&listf, data).unwrap();
                vec!["-files0-from".into(), listf.to_string_lossy().to_string(), "-print0".into()]
            } else {
                roots.iter().cloned().chain(std::iter::once("-print0".to_string())).collect()
            };
            let args: Vec<&str> = av.iter().map(|s| s.as_str()).collect();
            let got = run_find_bin(&args, &many, None);
            ctx.rep.evaluations += 1;
            ctx.rep.nontrivial += 1;
            ctx.rep.count("scale_lists", 1);
            let diags = String::from_utf8_lossy(&got.err).lines().count();
            if got.out != b"n0000\0" || got.code == Ok(0) || got.code.is_err() || diags < n {
                ctx.rep.violation(
                    "C18 many missing starting points: not all diagnosed / exit status 0 / the existing one not walked",
                    format!("{n} missing starting points + 1 existing ({}): status {:?}, {} diagnostic line(s), stdout {:?}", if via_file { "-files0-from" } else { "command line" }, got.code, diags, String::from_utf8_lossy(&got.out)),
                    json!({"prop":"C18","scale":true}),
                );
            }
        }
    }
    let _ = std::fs::remove_file(&listf);
    environment_cases(ctx);
}

/// (a) the list arrives through a pipe in pieces (a short read is not the end of the list);
/// (b) standard output cannot be written: every starting point is still processed (seen through a
/// second action that writes to a file) and the missing one diagnosed; (c) a name in the list that is
/// not valid UTF-8 is a file name like any other: walked, or refused with a diagnostic and a non-zero
/// status — never dropped silently.
fn environment_cases(ctx: &mut Ctx) {
    use std::io::{Read, Write};
    use std::process::{Command, Stdio};
    let many = ctx.sbx.join("many");
    let exe = crate::engine::repo_bin_dir().join("find");
    // (a)
    let child = Command::new(&exe).args(["-files0-from", "-", "-print0"]).current_dir(&many).env_clear().stdin(Stdio::piped()).stdout(Stdio::piped()).stderr(Stdio::piped()).spawn();
    if let Ok(mut child) = child {
        let mut si = child.stdin.take().unwrap();
        let _ = si.write_all(b"n0001\0");
        let _ = si.flush();
        std::thread::sleep(std::time::Duration::from_millis(400));
        let _ = si.write_all(b"n0002\0n00");
        let _ = si.flush();
        std::thread::sleep(std::time::Duration::from_millis(300));
        let _ = si.write_all(b"03\0");
        drop(si);
        let mut out = vec![];
        let _ = child.stdout.take().unwrap().read_to_end(&mut out);
        let st = child.wait().ok();
        ctx.rep.evaluations += 1;
        ctx.rep.nontrivial += 1;
        ctx.rep.count("environment_cases", 1);
        if out != b"n0001\0n0002\0n0003\0" || st.and_then(|s| s.code()) != Some(0) {
            ctx.rep.violation("C18 a -files0-from list arriving through a pipe in pieces is not read to its end", format!("three writes n0001\\0 | n0002\\0n00 | 03\\0: printed {:?}, status {:?}", String::from_utf8_lossy(&out), st), json!({"prop":"C18","scale":true}));
        }
    }
    // (b)
    let log = ctx.sbx.join(".mc-fprint.log");
    let _ = std::fs::remove_file(&log);
    let logs = log.to_string_lossy().to_string();
    for action in [vec!["-print"], vec!["-print0"], vec!["-printf", "%p\\n"]] {
        let _ = std::fs::remove_file(&log);
        let mut args: Vec<&str> = vec!["n0001", "missing", "./n0002", "n0003", "-fprint", &logs];
        args.extend(action.iter());
        let o = Command::new(&exe).args(&args).current_dir(&many).env_clear().stdin(Stdio::null()).stdout(Stdio::from(std::fs::OpenOptions::new().write(true).open("/dev/full").unwrap())).stderr(Stdio::piped()).output();
        let Ok(o) = o else { continue };
        let walked = std::fs::read_to_string(&log).unwrap_or_default();
        let err = String::from_utf8_lossy(&o.stderr).to_string();
        ctx.rep.evaluations += 1;
        ctx.rep.nontrivial += 1;
        ctx.rep.count("environment_cases", 1);
        if walked != "n0001\n./n0002\nn0003\n" || !err.contains("missing") || matches!(o.status.code(), Some(0) | Some(101) | None) {
            ctx.rep.violation("C18 an unwritable standard output keeps the remaining starting points from being processed (or the missing one from being diagnosed)", format!("find {:?} > /dev/full: entries reaching -fprint {:?}, status {:?}, stderr {:?}", args, walked, o.status, err.chars().take(300).collect::<String>()), json!({"prop":"C18","scale":true}));
        }
    }
    let _ = std::fs::remove_file(&log);
    // (c)
    use std::os::unix::ffi::OsStrExt;
    let odd = many.join(std::ffi::OsStr::from_bytes(b"b\xff"));
    let _ = std::fs::write(&odd, b"");
    // (a look-alike whose name is the lossy rendering of the undecodable one: it is not in the list)
    let decoy = many.join("b\u{fffd}");
    let _ = std::fs::write(&decoy, b"");
    for (variant, final_nul) in [(0, true), (0, false), (1, true), (1, false), (2, false)] {
        // the undecodable name in the middle, at the end, alone
        let mut data = [&b"n0001\0b\xff\0n0002"[..], &b"n0001\0n0002\0b\xff"[..], &b"b\xff"[..]][variant].to_vec();
        if final_nul {
            data.push(0);
        }
        let got = run_find_bin(&["-files0-from", "-", "-print0"], &many, Some(&data));
        ctx.rep.evaluations += 1;
        ctx.rep.nontrivial += 1;
        ctx.rep.count("environment_cases", 1);
        let all_names: &[u8] = [&b"n0001\0b\xff\0n0002\0"[..], &b"n0001\0n0002\0b\xff\0"[..], &b"b\xff\0"[..]][variant];
        let walked_all = got.out == all_names && got.code == Ok(0);
        let refused = got.code.as_ref().is_ok_and(|c| *c != 0) && !got.err.is_empty() && !got.out.windows(2).any(|w| w == b"b\xff") && !got.out.windows(4).any(|w| w == "b\u{fffd}".as_bytes());
        if !(walked_all || refused) {
            ctx.rep.violation("C18 a name in the -files0-from list that is not valid UTF-8 is dropped silently", format!("list {:?} (final NUL: {final_nul}): printed {:?}, status {:?}, stderr {:?}", String::from_utf8_lossy(&data), String::from_utf8_lossy(&got.out), got.code, String::from_utf8_lossy(&got.err)), json!({"prop":"C18","scale":true}));
        }
    }
    let _ = std::fs::remove_file(&odd);
    let _ = std::fs::remove_file(&decoy);
    unexaminable_roots(ctx);
    low_descriptor_roots(ctx);
}

/// 150 starting points (operands and -files0-from) with 64 file descriptors, with -xdev / -mount and
/// without: every one is walked.
fn low_descriptor_roots(ctx: &mut Ctx) {
    use crate::props::lowfd;
    let sbx = lowfd::build(ctx);
    let roots: Vec<String> = (0..lowfd::NDIRS).map(|i| format!("lf/d{i:03}")).collect();
    let want: Vec<u8> = roots.iter().flat_map(|r| format!("{r}\0{r}/f\0{r}/l\0").into_bytes()).collect();
    let listf = sbx.join(".mc-files0");
    std::fs::write(&listf, roots.iter().flat_map(|r| r.bytes().chain(std::iter::once(0))).collect::<Vec<u8>>()).unwrap();
    for opt in ["", "-xdev", "-mount"] {
        for via_list in [false, true] {
            let lf = listf.display().to_string();
            let mut args: Vec<&str> = if via_list { vec!["-files0-from", &lf] } else { roots.iter().map(|s| s.as_str()).collect() };
            args.push("-sorted");
            if !opt.is_empty() {
                args.push(opt);
            }
            args.push("-print0");
            let o = lowfd::find(ctx, &args, 64, vec![]);
            ctx.rep.evaluations += 1;
            ctx.rep.nontrivial += 1;
            ctx.rep.count("low_descriptor_limit_cases", 1);
            if o.died() || o.code != Some(0) || o.out != want {
                ctx.rep.violation(
                    "C18 150 starting points with 64 file descriptors: not every starting point is walked",
                    format!("find <150 starting points{}> -sorted {opt} -print0 under RLIMIT_NOFILE=64: status {:?}; {} entries printed, expected {}; stderr {:?}", if via_list { " via -files0-from" } else { "" }, o.code, o.out.iter().filter(|&&c| c == 0).count(), 3 * lowfd::NDIRS, String::from_utf8_lossy(&o.err).lines().take(2).collect::<Vec<_>>()),
                    json!({"prop":"C18","scale":true}),
                );
            }
        }
    }
    let _ = std::fs::remove_file(&listf);
    lowfd::remove(ctx);
}

/// Starting points that cannot be examined for reasons other than "no such file": a link to itself
/// (ELOOP when followed) and a name longer than NAME_MAX, between starting points that are fine:
/// diagnosed, non-zero status, and the others walked — on the command line and through -files0-from.
fn unexaminable_roots(ctx: &mut Ctx) {
    let base = ctx.sbx.join("ur");
    let _ = crate::sandbox::force_remove(&base);
    std::fs::create_dir_all(base.join("a")).unwrap();
    std::fs::create_dir_all(base.join("b")).unwrap();
    std::fs::write(base.join("a/x"), b"").unwrap();
    std::fs::write(base.join("b/g"), b"").unwrap();
    std::os::unix::fs::symlink("loop", base.join("loop")).unwrap();
    std::os::unix::fs::symlink("loop2/in", base.join("loop2")).unwrap();
    let long = "n".repeat(300);
    std::env::set_current_dir(&base).unwrap();
    let listf = ctx.sbx.join(".mc-files0");
    for flag in ["-P", "-H", "-L"] {
        for bad in ["loop", "loop2", long.as_str(), "a/x/", "a/x/y"] {
            for order in [0usize, 1, 2] {
                let roots: Vec<&str> = match order {
                    0 => vec!["a", bad, "b"],
                    1 => vec![bad, "a", "b"],
                    _ => vec!["a", "b", bad],
                };
                // under -P a link to itself is an entry like any other
                let is_entry = flag == "-P" && bad.starts_with("loop");
                let mut want: Vec<u8> = vec![];
                for r in &roots {
                    match *r {
                        "a" => want.extend_from_slice(b"a\0a/x\0"),
                        "b" => want.extend_from_slice(b"b\0b/g\0"),
                        x if is_entry => {
                            want.extend_from_slice(x.as_bytes());
                            want.push(0);
                        }
                        _ => {}
                    }
                }
                for via_list in [false, true] {
                    let av: Vec<String> = if via_list {
                        let data: Vec<u8> = roots.iter().flat_map(|r| r.bytes().chain(std::iter::once(0))).collect();
                        std::fs::write(&listf, data).unwrap();
                        vec![flag.into(), "-files0-from".into(), listf.to_string_lossy().to_string(), "-sorted".into(), "-print0".into()]
                    } else {
                        std::iter::once(flag.to_string()).chain(roots.iter().map(|r| r.to_string())).chain(["-sorted".to_string(), "-print0".to_string()]).collect()
                    };
                    let args: Vec<&str> = av.iter().map(|s| s.as_str()).collect();
                    let got = run_find(&args);
                    ctx.rep.evaluations += 1;
                    ctx.rep.nontrivial += 1;
                    ctx.rep.count("unexaminable_root_cases", 1);
                    let status_ok = if is_entry { got.code == Ok(0) } else { matches!(got.code, Ok(c) if c != 0) && !got.err.is_empty() };
                    if got.out != want || !status_ok {
                        let what = if bad.len() > 100 { "a name longer than NAME_MAX" } else if bad.starts_with("loop") { "a link to itself" } else { "a path through a file" };
                        ctx.rep.violation(
                            &format!("C18 a starting point that cannot be examined ({what}) is not diagnosed with a non-zero status, or keeps the others from being processed"),
                            format!("find {:?}: status {:?}; printed {:?}, expected {:?}; stderr {:?}", av.iter().map(|a| if a.len() > 100 { "<300 n>".to_string() } else { a.clone() }).collect::<Vec<_>>(), got.code, String::from_utf8_lossy(&got.out).replace('\0', " | "), String::from_utf8_lossy(&want).replace('\0', " | "), String::from_utf8_lossy(&got.err).lines().take(2).collect::<Vec<_>>()),
                            json!({"prop":"C18","scale":true}),
                        );
                    }
                }
            }
        }
    }
    std::env::set_current_dir(&ctx.sbx).ok();
    let _ = crate::sandbox::force_remove(&base);
}

fn replay(case: &Value, ctx: &mut Ctx) -> Option<String> {
    if case["scale"] == true {
        scale_slice(ctx);
        std::env::set_current_dir(&ctx.sbx).ok();
        return ctx.rep.violations.keys().next().cloned();
    }
    let env = setup(ctx);
    let roots: Vec<String> = case["roots"].as_array()?.iter().map(|v| v.as_str().unwrap_or("").to_string()).collect();
    let leaked: Vec<&'static str> = roots.iter().map(|s| &*Box::leak(s.clone().into_boxed_str())).collect();
    let before = ctx.rep.violations.len();
    let argv_ok = !leaked.iter().any(|r| FILES0_ONLY.contains(r)) && !leaked.is_empty();
    check_list(ctx, &env, &leaked, argv_ok);
    std::env::set_current_dir(&ctx.sbx).ok();
    if ctx.rep.violations.len() > before || !ctx.rep.violations.is_empty() {
        ctx.rep.violations.keys().next().cloned()
    } else {
        None
    }
}
