//! Materialising abstract trees on tmpfs, snapshots, and cleanup.

use crate::model::tree::{Fs, K};
use std::collections::BTreeMap;
use std::ffi::CString;
use std::os::unix::ffi::OsStrExt;
use std::os::unix::fs::{FileTypeExt, MetadataExt, PermissionsExt};
use std::path::Path;

fn cstr(p: &Path) -> CString {
    CString::new(p.as_os_str().as_bytes()).unwrap()
}

/// Remove a directory tree even if it contains mode-000 directories.
pub fn force_remove(p: &Path) -> std::io::Result<()> {
    let Ok(md) = std::fs::symlink_metadata(p) else {
        return Ok(());
    };
    if md.is_dir() {
        let _ = std::fs::set_permissions(p, std::fs::Permissions::from_mode(0o700));
        if let Ok(rd) = std::fs::read_dir(p) {
            for e in rd.flatten() {
                let _ = force_remove(&e.path());
            }
        }
        std::fs::remove_dir(p)
    } else {
        std::fs::remove_file(p)
    }
}

/// Remove everything inside `dir` except names starting with ".mc-".
pub fn clear_dir(dir: &Path) {
    if let Ok(rd) = std::fs::read_dir(dir) {
        for e in rd.flatten() {
            if e.file_name().as_bytes().starts_with(b".mc-") {
                continue;
            }
            let _ = force_remove(&e.path());
        }
    }
}

/// Create the children of abstract node `n` inside real directory `at`.
pub fn materialize(fs: &Fs, n: usize, at: &Path) -> Result<(), String> {
    let mut hl: BTreeMap<u32, std::path::PathBuf> = BTreeMap::new();
    mat_rec(fs, n, at, &mut hl)
}

fn mat_rec(
    fs: &Fs,
    n: usize,
    at: &Path,
    hl: &mut BTreeMap<u32, std::path::PathBuf>,
) -> Result<(), String> {
    let mut dirs_to_chmod = vec![];
    for &c in &fs.nodes[n].children {
        let nd = &fs.nodes[c];
        let p = at.join(std::ffi::OsStr::from_bytes(nd.name.as_bytes()));
        let e = |x: std::io::Error| format!("{}: {x}", p.display());
        match &nd.kind {
            K::File => {
                if nd.hl != 0 {
                    if let Some(first) = hl.get(&nd.hl) {
                        std::fs::hard_link(first, &p).map_err(e)?;
                        continue;
                    }
                    hl.insert(nd.hl, p.clone());
                }
                let f = std::fs::File::create(&p).map_err(e)?;
                if nd.size > 0 {
                    f.set_len(nd.size).map_err(e)?;
                }
                drop(f);
                std::fs::set_permissions(&p, std::fs::Permissions::from_mode(nd.mode)).map_err(e)?;
            }
            K::Dir => {
                std::fs::create_dir(&p).map_err(e)?;
                mat_rec(fs, c, &p, hl)?;
                dirs_to_chmod.push((p.clone(), nd.mode));
            }
            K::Link(t) => {
                std::os::unix::fs::symlink(std::ffi::OsStr::from_bytes(t.as_bytes()), &p)
                    .map_err(e)?;
            }
            K::Fifo => {
                let r = unsafe { libc::mkfifo(cstr(&p).as_ptr(), nd.mode as libc::mode_t) };
                if r != 0 {
                    return Err(format!("mkfifo {}", p.display()));
                }
                std::fs::set_permissions(&p, std::fs::Permissions::from_mode(nd.mode)).map_err(e)?;
            }
            K::Sock => {
                std::os::unix::net::UnixListener::bind(&p).map_err(e)?;
                std::fs::set_permissions(&p, std::fs::Permissions::from_mode(nd.mode)).map_err(e)?;
            }
        }
        if nd.uid != 0 || nd.gid != 0 {
            let r = unsafe { libc::lchown(cstr(&p).as_ptr(), nd.uid, nd.gid) };
            if r != 0 {
                return Err(format!("lchown {}", p.display()));
            }
            // chown clears setuid/setgid: re-apply the mode
            if !matches!(nd.kind, K::Link(_)) && !matches!(nd.kind, K::Dir) {
                std::fs::set_permissions(&p, std::fs::Permissions::from_mode(nd.mode))
                    .map_err(|x| x.to_string())?;
            }
        }
    }
    for (p, m) in dirs_to_chmod {
        std::fs::set_permissions(&p, std::fs::Permissions::from_mode(m))
            .map_err(|x| format!("{}: {x}", p.display()))?;
    }
    Ok(())
}

/// Check the materialised tree against the abstract one (types and link targets).
pub fn validate(fs: &Fs, n: usize, at: &Path) -> Result<(), String> {
    let mut real: Vec<Vec<u8>> = std::fs::read_dir(at)
        .map_err(|e| format!("{}: {e}", at.display()))?
        .flatten()
        .map(|e| e.file_name().as_bytes().to_vec())
        .filter(|n| !n.starts_with(b".mc-"))
        .collect();
    real.sort();
    let want: Vec<Vec<u8>> = fs.nodes[n]
        .children
        .iter()
        .map(|&c| fs.nodes[c].name.as_bytes().to_vec())
        .collect();
    if real != want {
        return Err(format!(
            "{}: children differ: real {:?} abstract {:?}",
            at.display(),
            real.iter().map(|b| String::from_utf8_lossy(b).to_string()).collect::<Vec<_>>(),
            want.iter().map(|b| String::from_utf8_lossy(b).to_string()).collect::<Vec<_>>()
        ));
    }
    for &c in &fs.nodes[n].children {
        let nd = &fs.nodes[c];
        let p = at.join(std::ffi::OsStr::from_bytes(nd.name.as_bytes()));
        let md = std::fs::symlink_metadata(&p).map_err(|e| format!("{}: {e}", p.display()))?;
        let ft = md.file_type();
        let ok = match &nd.kind {
            K::File => ft.is_file(),
            K::Dir => ft.is_dir(),
            K::Fifo => ft.is_fifo(),
            K::Sock => ft.is_socket(),
            K::Link(t) => {
                ft.is_symlink()
                    && std::fs::read_link(&p)
                        .map(|x| x.as_os_str().as_bytes() == t.as_bytes())
                        .unwrap_or(false)
            }
        };
        if !ok {
            return Err(format!("{}: kind mismatch", p.display()));
        }
        if nd.kind == K::Dir {
            validate(fs, c, &p)?;
        }
    }
    Ok(())
}

#[derive(Clone, Debug, PartialEq, Eq, PartialOrd, Ord)]
pub struct SnapEntry {
    pub path: String,
    pub kind: char,
    pub mode: u32,
    pub size: u64,
    pub nlink: u64,
    pub target: String,
    pub content: u64,
}

fn fnv(data: &[u8]) -> u64 {
    let mut h: u64 = 0xcbf29ce484222325;
    for b in data {
        h ^= *b as u64;
        h = h.wrapping_mul(0x100000001b3);
    }
    h
}

/// Full snapshot (path, type, mode, size, link target, content hash) of everything under `dir`
/// (skipping the engine's own .mc-* files), sorted by path.
pub fn snapshot(dir: &Path) -> Vec<SnapEntry> {
    let mut out = vec![];
    snap_rec(dir, "", &mut out);
    out.sort();
    out
}

fn snap_rec(dir: &Path, rel: &str, out: &mut Vec<SnapEntry>) {
    let Ok(rd) = std::fs::read_dir(dir) else {
        return;
    };
    for e in rd.flatten() {
        let name = e.file_name();
        if name.as_bytes().starts_with(b".mc-") {
            continue;
        }
        let p = e.path();
        let relp = if rel.is_empty() {
            name.to_string_lossy().to_string()
        } else {
            format!("{}/{}", rel, name.to_string_lossy())
        };
        let Ok(md) = std::fs::symlink_metadata(&p) else {
            continue;
        };
        let ft = md.file_type();
        let kind = if ft.is_dir() {
            'd'
        } else if ft.is_symlink() {
            'l'
        } else if ft.is_file() {
            'f'
        } else if ft.is_fifo() {
            'p'
        } else if ft.is_socket() {
            's'
        } else {
            '?'
        };
        let target = if kind == 'l' {
            std::fs::read_link(&p)
                .map(|t| t.to_string_lossy().to_string())
                .unwrap_or_default()
        } else {
            String::new()
        };
        let content = if kind == 'f' && md.len() < (1 << 20) {
            std::fs::read(&p).map(|d| fnv(&d)).unwrap_or(0)
        } else {
            0
        };
        out.push(SnapEntry {
            path: relp.clone(),
            kind,
            mode: md.mode() & 0o7777,
            size: if kind == 'd' { 0 } else { md.len() },
            nlink: if kind == 'd' { 0 } else { md.nlink() },
            target,
            content,
        });
        if kind == 'd' {
            snap_rec(&p, &relp, out);
        }
    }
}

/// Cheap fingerprint of a snapshot
pub fn snap_hash(s: &[SnapEntry]) -> u64 {
    let mut h: u64 = 0xcbf29ce484222325;
    for e in s {
        for part in [
            e.path.as_bytes(),
            &[e.kind as u8],
            &e.mode.to_le_bytes(),
            &e.size.to_le_bytes(),
            e.target.as_bytes(),
            &e.content.to_le_bytes(),
        ] {
            for b in part {
                h ^= *b as u64;
                h = h.wrapping_mul(0x100000001b3);
            }
            h = h.wrapping_mul(31);
        }
    }
    h
}
