//! vrec LOG [ARG...] — recorder child for binary-level checks.
//! Appends one record (argv after LOG, cwd) to LOG with a single O_APPEND write, then ends as
//! the outcome script says: env VREC_OUTCOMES="0,1,255,s15,u,x" gives, for the k-th record
//! already-in-log count k, an exit status, 'sN' = raise signal N, 'u' = unlink own
//! executable then exit 0, 'x' = chmod own executable to 0644 then exit 0. Default 0.
//! With VREC_MODE=count only the number of arguments and a rolling hash are logged.
use std::io::Write;
use std::os::unix::ffi::OsStrExt;
use std::os::unix::fs::OpenOptionsExt;

fn main() {
    let args: Vec<std::ffi::OsString> = std::env::args_os().collect();
    if args.len() < 2 {
        std::process::exit(2);
    }
    let log = &args[1];
    let mut rec: Vec<u8> = Vec::new();
    let rest = &args[2..];
    if std::env::var_os("VREC_MODE").is_some_and(|m| m == "count") {
        let mut h: u64 = 0xcbf29ce484222325;
        let mut bytes = 0usize;
        for a in rest {
            for b in a.as_bytes() {
                h ^= *b as u64;
                h = h.wrapping_mul(0x100000001b3);
            }
            h ^= 0xff;
            h = h.wrapping_mul(0x100000001b3);
            bytes += a.len();
        }
        let first = rest.first().map(|a| a.as_bytes().to_vec()).unwrap_or_default();
        let last = rest.last().map(|a| a.as_bytes().to_vec()).unwrap_or_default();
        rec.extend_from_slice(format!("N {} {} {:016x} {} {}\n", rest.len(), bytes, h, first.len().min(64), last.len().min(64)).as_bytes());
        rec.extend_from_slice(&first[..first.len().min(64)]);
        rec.push(b'\n');
        rec.extend_from_slice(&last[..last.len().min(64)]);
        rec.push(b'\n');
    } else {
        rec.extend_from_slice(format!("R {}\n", rest.len()).as_bytes());
        for a in rest {
            rec.extend_from_slice(format!("{}\n", a.len()).as_bytes());
            rec.extend_from_slice(a.as_bytes());
            rec.push(b'\n');
        }
        let cwd = std::env::current_dir().map(|p| p.as_os_str().as_bytes().to_vec()).unwrap_or_default();
        rec.extend_from_slice(format!("C {}\n", cwd.len()).as_bytes());
        rec.extend_from_slice(&cwd);
        rec.push(b'\n');
    }
    // invocation index = number of records already there (children run one after another)
    let before = std::fs::read(log).unwrap_or_default();
    let k = count_records(&before);
    let mut f = std::fs::OpenOptions::new().create(true).append(true).mode(0o666).open(log).expect("open log");
    f.write_all(&rec).expect("write log");
    drop(f);
    let script = std::env::var("VREC_OUTCOMES").unwrap_or_default();
    let o = script.split(',').nth(k).unwrap_or("0").trim().to_string();
    if let Some(sig) = o.strip_prefix('c') {
        // killed by a signal WITH a core dump (the wait status then carries the 0x80 flag)
        let n: i32 = sig.parse().unwrap_or(11);
        unsafe {
            let lim = libc::rlimit { rlim_cur: libc::RLIM_INFINITY, rlim_max: libc::RLIM_INFINITY };
            let mut old = libc::rlimit { rlim_cur: 0, rlim_max: 0 };
            libc::getrlimit(libc::RLIMIT_CORE, &mut old);
            let lim = libc::rlimit { rlim_cur: old.rlim_max.min(lim.rlim_cur), rlim_max: old.rlim_max };
            libc::setrlimit(libc::RLIMIT_CORE, &lim);
            libc::signal(n, libc::SIG_DFL);
            libc::raise(n);
        }
        std::process::exit(99);
    }
    if let Some(sig) = o.strip_prefix('s') {
        let n: i32 = sig.parse().unwrap_or(15);
        unsafe {
            libc::raise(n);
        }
        std::process::exit(99);
    }
    if o == "u" || o == "x" {
        if let Ok(me) = std::env::current_exe() {
            if o == "u" {
                let _ = std::fs::remove_file(&me);
            } else {
                use std::os::unix::fs::PermissionsExt;
                let _ = std::fs::set_permissions(&me, std::fs::Permissions::from_mode(0o644));
            }
        }
        std::process::exit(0);
    }
    std::process::exit(o.parse().unwrap_or(0));
}

fn count_records(b: &[u8]) -> usize {
    // records start with "R n\n" or "N ...\n" at a record boundary; parse sequentially
    let mut i = 0;
    let mut n = 0;
    let line = |i: &mut usize| -> Option<String> {
        let s = *i;
        while *i < b.len() && b[*i] != b'\n' {
            *i += 1;
        }
        if *i >= b.len() {
            return None;
        }
        let l = String::from_utf8_lossy(&b[s..*i]).to_string();
        *i += 1;
        Some(l)
    };
    while i < b.len() {
        let Some(h) = line(&mut i) else { break };
        if let Some(k) = h.strip_prefix("R ") {
            let k: usize = k.trim().parse().unwrap_or(0);
            for _ in 0..k {
                let Some(l) = line(&mut i) else { return n };
                let len: usize = l.trim().parse().unwrap_or(0);
                i += len + 1;
            }
            let Some(c) = line(&mut i) else { return n };
            let len: usize = c.trim_start_matches("C ").trim().parse().unwrap_or(0);
            i += len + 1;
            n += 1;
        } else if h.starts_with("N ") {
            let parts: Vec<&str> = h.split(' ').collect();
            let a: usize = parts.get(4).and_then(|x| x.parse().ok()).unwrap_or(0);
            let c: usize = parts.get(5).and_then(|x| x.parse().ok()).unwrap_or(0);
            i += a + 1 + c + 1;
            n += 1;
        } else {
            break;
        }
    }
    n
}
