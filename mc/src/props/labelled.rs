//! Shared helpers for the "selection" explorers (C13, C14, C15, C12, C17): many tests are
//! evaluated in ONE in-process find run as a comma list of `TEST -printf 'L<k>\t%p\n'` clauses,
//! and status records are read back from the materialised sandbox (never from intentions).

use crate::findrun::{run_find_at, FindOut};
use std::collections::{BTreeMap, BTreeSet};
use std::ffi::CString;
use std::os::unix::ffi::OsStrExt;
use std::os::unix::fs::MetadataExt;
use std::path::Path;
use std::time::SystemTime;

/// One labelled test: the tokens of a find test (e.g. ["-size", "+3k"]).
pub type Test = Vec<String>;

pub fn t(parts: &[&str]) -> Test {
    parts.iter().map(|s| s.to_string()).collect()
}

/// Build `PRE ROOTS GLOBALS ( T0 -printf 'L0\t%p\n' , T1 -printf ... )`.
pub fn argv_for(pre: &[&str], roots: &[&str], globals: &[&str], tests: &[Test]) -> Vec<String> {
    let mut a: Vec<String> = pre.iter().map(|s| s.to_string()).collect();
    a.extend(roots.iter().map(|s| s.to_string()));
    a.extend(globals.iter().map(|s| s.to_string()));
    a.push("(".into());
    for (k, tst) in tests.iter().enumerate() {
        if k > 0 {
            a.push(",".into());
        }
        a.extend(tst.iter().cloned());
        a.push("-printf".into());
        a.push(format!("L{k}\\t%p\\n"));
    }
    a.push(")".into());
    a
}

/// Result: for each test index the set of paths it selected.
pub struct Selected {
    pub sel: Vec<BTreeSet<String>>,
    pub out: FindOut,
    pub argv: Vec<String>,
}

/// Runs the labelled tests. Err(description) if the output cannot be attributed (stray lines).
pub fn run_labelled(pre: &[&str], roots: &[&str], globals: &[&str], tests: &[Test], now: SystemTime) -> Result<Selected, (String, FindOut, Vec<String>)> {
    let argv = argv_for(pre, roots, globals, tests);
    let args: Vec<&str> = argv.iter().map(|s| s.as_str()).collect();
    let out = run_find_at(&args, now);
    let mut sel: Vec<BTreeSet<String>> = vec![BTreeSet::new(); tests.len()];
    let text = String::from_utf8_lossy(&out.out).to_string();
    for line in text.split_terminator('\n') {
        let Some((l, p)) = line.split_once('\t') else {
            return Err((format!("stray output line {line:?}"), out, argv));
        };
        let Some(k) = l.strip_prefix('L').and_then(|k| k.parse::<usize>().ok()).filter(|k| *k < tests.len()) else {
            return Err((format!("stray label {l:?}"), out, argv));
        };
        if !sel[k].insert(p.to_string()) {
            return Err((format!("label L{k} printed {p:?} twice"), out, argv));
        }
    }
    Ok(Selected { sel, out, argv })
}

/// Re-run a labelled selection through the find binary (only meaningful without an injected clock).
pub fn cross_check(s: &Selected) -> Result<(), String> {
    let args: Vec<&str> = s.argv.iter().map(|x| x.as_str()).collect();
    crate::findrun::cross_check_bin(&args, &s.out)
}

#[derive(Clone, Debug, PartialEq, Eq)]
pub struct St {
    pub mode: u32,
    pub nlink: u64,
    pub ino: u64,
    pub dev: u64,
    pub uid: u32,
    pub gid: u32,
    pub size: u64,
    /// (seconds, nanoseconds)
    pub atime: (i64, i64),
    pub mtime: (i64, i64),
    pub ctime: (i64, i64),
}

impl St {
    pub fn kind(&self) -> char {
        match self.mode & libc::S_IFMT {
            libc::S_IFREG => 'f',
            libc::S_IFDIR => 'd',
            libc::S_IFLNK => 'l',
            libc::S_IFIFO => 'p',
            libc::S_IFSOCK => 's',
            libc::S_IFBLK => 'b',
            libc::S_IFCHR => 'c',
            _ => '?',
        }
    }
    pub fn perm(&self) -> u32 {
        self.mode & 0o7777
    }
}

fn conv(m: &std::fs::Metadata) -> St {
    St {
        mode: m.mode(),
        nlink: m.nlink(),
        ino: m.ino(),
        dev: m.dev(),
        uid: m.uid(),
        gid: m.gid(),
        size: m.size(),
        atime: (m.atime(), m.atime_nsec()),
        mtime: (m.mtime(), m.mtime_nsec()),
        ctime: (m.ctime(), m.ctime_nsec()),
    }
}

pub fn lstat(p: &Path) -> Option<St> {
    std::fs::symlink_metadata(p).ok().map(|m| conv(&m))
}

pub fn stat(p: &Path) -> Option<St> {
    std::fs::metadata(p).ok().map(|m| conv(&m))
}

/// The record a test must consult for the entry at `p` found at `depth` under follow mode
/// `follow` ('P', 'H', 'L'): stat() where the mode follows (falling back to lstat() for links
/// that do not resolve), lstat() otherwise.
pub fn record(p: &Path, depth: usize, follow: char) -> Option<St> {
    let follows = match follow {
        'L' => true,
        'H' => depth == 0,
        _ => false,
    };
    if follows {
        stat(p).or_else(|| lstat(p))
    } else {
        lstat(p)
    }
}

/// Set atime and mtime (seconds, nanoseconds) on the entry itself (no link following).
pub fn set_times(p: &Path, at: (i64, i64), mt: (i64, i64)) -> Result<(), String> {
    let c = CString::new(p.as_os_str().as_bytes()).unwrap();
    let ts = [libc::timespec { tv_sec: at.0, tv_nsec: at.1 }, libc::timespec { tv_sec: mt.0, tv_nsec: mt.1 }];
    let r = unsafe { libc::utimensat(libc::AT_FDCWD, c.as_ptr(), ts.as_ptr(), libc::AT_SYMLINK_NOFOLLOW) };
    if r != 0 {
        return Err(format!("utimensat {}: {}", p.display(), std::io::Error::last_os_error()));
    }
    Ok(())
}

pub fn chown(p: &Path, uid: u32, gid: u32) -> Result<(), String> {
    let c = CString::new(p.as_os_str().as_bytes()).unwrap();
    let r = unsafe { libc::lchown(c.as_ptr(), uid, gid) };
    if r != 0 {
        return Err(format!("lchown {}: {}", p.display(), std::io::Error::last_os_error()));
    }
    Ok(())
}

/// All entries below (and including) `root`, as (path-as-find-prints-it, depth), not following links.
pub fn list_tree(root: &str) -> Vec<(String, usize)> {
    fn rec(p: &str, d: usize, out: &mut Vec<(String, usize)>) {
        out.push((p.to_string(), d));
        let pp = Path::new(p);
        if std::fs::symlink_metadata(pp).map(|m| m.is_dir()).unwrap_or(false) {
            let mut names: Vec<String> = std::fs::read_dir(pp).map(|rd| rd.flatten().map(|e| e.file_name().to_string_lossy().to_string()).collect()).unwrap_or_default();
            names.sort();
            for n in names {
                rec(&format!("{p}/{n}"), d + 1, out);
            }
        }
    }
    let mut out = vec![];
    rec(root, 0, &mut out);
    out
}

pub fn group_by<T: Clone, K: Ord>(items: &[T], key: impl Fn(&T) -> K) -> BTreeMap<K, Vec<T>> {
    let mut m: BTreeMap<K, Vec<T>> = BTreeMap::new();
    for i in items {
        m.entry(key(i)).or_default().push(i.clone());
    }
    m
}

/// An entry that is removed (by an earlier `-exec rm -rf {} ;` in the same expression) before TEST is
/// evaluated on it: its status cannot be read any more. Whatever the diagnostic says, it belongs on
/// standard error; standard output holds exactly the entries TEST selects. Returns
/// Err(description) when that is not so. `expect` = the paths that must be printed.
pub fn removed_entry_case(sbx: &Path, test: &[&str], victim_is_dir: bool, expect: &[&str]) -> Result<(), String> {
    let base = sbx.join("ec");
    let _ = crate::sandbox::force_remove(&base);
    std::fs::create_dir_all(base.join("d")).map_err(|e| e.to_string())?;
    std::fs::write(base.join("d/keep"), b"").map_err(|e| e.to_string())?;
    std::fs::write(base.join("ref"), b"").map_err(|e| e.to_string())?;
    set_times(&base.join("ref"), (946_684_800, 0), (946_684_800, 0))?;
    if victim_is_dir {
        std::fs::create_dir(base.join("d/victim")).map_err(|e| e.to_string())?;
    } else {
        std::fs::write(base.join("d/victim"), b"").map_err(|e| e.to_string())?;
    }
    let cwd = std::env::current_dir().ok();
    std::env::set_current_dir(sbx).map_err(|e| e.to_string())?;
    let mut args: Vec<&str> = vec!["ec/d", "-sorted", "(", "-name", "victim", "-exec", "rm", "-rf", "{}", ";", "-o", "-true", ")"];
    args.extend(test.iter().copied());
    args.push("-print");
    let got = crate::findrun::run_find(&args);
    if let Some(c) = cwd {
        let _ = std::env::set_current_dir(c);
    }
    let _ = crate::sandbox::force_remove(&base);
    let lines: Vec<String> = String::from_utf8_lossy(&got.out).lines().map(String::from).collect();
    if got.panicked() {
        return Err(format!("find {:?}: {}", args, got.brief()));
    }
    if lines != expect {
        return Err(format!("find {:?}: standard output {:?}, expected exactly {:?}; standard error {:?}", args, lines, expect, String::from_utf8_lossy(&got.err)));
    }
    Ok(())
}
