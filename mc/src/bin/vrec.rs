fn main(){}
