//! C13 stat-record tests — (1) every entry kind x follow mode x depth 0 / deeper x every
//! type/owner/link/inode/empty/samefile/lname/perm test against the record the follow mode
//! selects (read back with lstat/stat); (2) all 4096 permission values x octal operands x the
//! three -perm forms; (3) symbolic spellings (clause sequences under chmod semantics) against
//! the bit formula.

use crate::engine::{Ctx, Prop, Spec, Tier};
use crate::findrun::default_now;
use crate::props::labelled::{self as lb, St, Test};
use serde_json::{json, Value};
use std::collections::BTreeSet;
use std::os::unix::fs::PermissionsExt;
use std::path::Path;

pub const PROP: Prop = Prop { id: "C13", spec, run, replay };

fn spec(t: Tier) -> Spec {
    Spec {
        id: "C13",
        level: "exploration",
        rule: format!("(1) a sandbox holding every creatable entry kind (regular empty/non-empty/setuid, hard-link pair, empty and non-empty directory, fifo, socket, symbolic links to each of them, to a link, to a file outside, dangling; link owners differ from target owners; ids 0, 1, 54321, 2^31) is walked under -P, -H, -L from the directory (entries at depth >= 1) and with every entry as its own starting point (depth 0); on every visited entry every test of the vocabulary (-type/-xtype x 7 letters, -links/-inum/-uid/-gid N,+N,-N around the real values and those values plus 2^32, -user/-group by name and number, -empty, -samefile against every entry, -lname '*', 8 -perm operands) is evaluated in comma-list runs of the real find and compared with the oracle computed from lstat()/stat() of the materialised entry (stat-else-lstat where the mode follows at that depth; -xtype the opposite choice; -lname only where the selected record is still a link). (2) {pm} files (and directories in thorough) carrying every permission value x octal operands ({ops}) x forms MODE, -MODE, /MODE against the bit formula. (3) symbolic operands: every sequence of <= {sq} clauses over who x op x perms (chmod semantics applied to 0 with umask 0 — while the process itself runs with umask 027, which must not matter; includes copies like g=u and clauses that remove bits) — the mask the code derives is read off the selection on 25 probe files for -SYM and /SYM and on all 4096 files for SYM, and must equal the reference value. (6) the whole vocabulary once more with the follow mode given as the word -follow AFTER the tests: identical to -L (except -samefile, whose reference file is resolved where the test is written). (4) mounted file systems: a tmpfs on m/mnt (-inum N/+N/-N for every inode number present must follow lstat, also on the mount point) and two tmpfs instances with coinciding inode numbers (-samefile against every file: device and inode must both agree). (5) as uid 65534: links into a mode-000 directory are not dangling (-xtype l false), the dangling one is. evaluation = (entry, test); non-trivial = test on a symbolic link or with a symbolic operand or a permission test; low-descriptor slice: 150 directories (one file each, all hard links to one inode, plus a link to it) walked by the binary under RLIMIT_NOFILE 64: -samefile, -inum, -links, -type, -xtype, -lname, -empty, -perm, -uid select the expected number of entries under -P and -L; removed-entry slice: an entry removed by an earlier -exec rm in the same expression before the test looks at it: standard output is exactly the entries the test selects (the diagnostic belongs on standard error)", pm = 4096, ops = t.pick("every mask with <= 3 or >= 10 bits set, class masks: 386", "all 4096"), sq = t.pick("1 (all 432) and 2 over a 54-clause subset", "2 (all 432^2)")),
        bound: json!({"follow": ["-P","-H","-L"], "perm_values": 4096, "octal_operands": t.pick(386, 4096), "symbolic_clauses": 432, "symbolic_sequences": t.pick("432 + 54^2", "432 + 432^2")}),
        assumptions: vec![
            "a -samefile reference that is itself a symbolic link is judged under -P (lstat) and -L (stat) only; under -H it is run for determinism".into(),
            "symbolic 'X' and links whose resolution fails with ELOOP are outside the check".into(),
        ],
        shards: 0,
        wall_cap_s: t.pick(300, 3600),
    }
}

// ---------------------------------------------------------------------------------------------
// part 1: kinds
// ---------------------------------------------------------------------------------------------

pub fn build_kinds(sbx: &Path) -> Result<(), String> {
    let e = |x: std::io::Error| x.to_string();
    for d in ["r", "out"] {
        let _ = crate::sandbox::force_remove(&sbx.join(d));
        std::fs::create_dir(sbx.join(d)).map_err(e)?;
    }
    let chmod = |p: &str, m: u32| std::fs::set_permissions(sbx.join(p), std::fs::Permissions::from_mode(m)).map_err(|x| x.to_string());
    let ln = |t: &str, p: &str| std::os::unix::fs::symlink(t, sbx.join(p)).map_err(|x| x.to_string());
    std::fs::write(sbx.join("out/of"), b"outside").map_err(e)?;
    lb::chown(&sbx.join("out/of"), 1 << 31, 1 << 31)?;
    chmod("out/of", 0o604)?;
    std::fs::write(sbx.join("r/f0"), b"").map_err(e)?;
    chmod("r/f0", 0o644)?;
    std::fs::write(sbx.join("r/f1"), b"12345").map_err(e)?;
    lb::chown(&sbx.join("r/f1"), 1, 1)?;
    chmod("r/f1", 0o4755)?;
    std::fs::write(sbx.join("r/h1"), b"h").map_err(e)?;
    chmod("r/h1", 0o600)?;
    std::fs::hard_link(sbx.join("r/h1"), sbx.join("r/h2")).map_err(e)?;
    std::fs::create_dir(sbx.join("r/de")).map_err(e)?;
    lb::chown(&sbx.join("r/de"), 54321, 0)?;
    chmod("r/de", 0o2750)?;
    std::fs::create_dir(sbx.join("r/dn")).map_err(e)?;
    std::fs::write(sbx.join("r/dn/x"), b"").map_err(e)?;
    ln("../f1", "r/dn/lx")?;
    chmod("r/dn", 0o1777)?;
    let c = std::ffi::CString::new(sbx.join("r/p").to_str().unwrap()).unwrap();
    if unsafe { libc::mkfifo(c.as_ptr(), 0o622) } != 0 {
        return Err("mkfifo".into());
    }
    chmod("r/p", 0o622)?;
    std::os::unix::net::UnixListener::bind(sbx.join("r/s")).map_err(e)?;
    chmod("r/s", 0o700)?;
    ln("f1", "r/lf")?;
    lb::chown(&sbx.join("r/lf"), 54321, 54322)?;
    ln("f0", "r/le")?;
    ln("de", "r/lde")?;
    ln("dn", "r/ldn")?;
    lb::chown(&sbx.join("r/ldn"), 1, 54322)?;
    ln("p", "r/lp")?;
    ln("s", "r/lsk")?;
    ln("missing", "r/lx")?;
    lb::chown(&sbx.join("r/lx"), 54321, 1)?;
    ln("lf", "r/ll")?;
    ln("../out/of", "r/lo")?;
    ln("h1", "r/lh")?;
    // device nodes (and links to them), where the sandbox may create them: character 1,3 and block 7,0
    for (name, kind, dev, link) in [("cdev", libc::S_IFCHR, libc::makedev(1, 3), "lcd"), ("bdev", libc::S_IFBLK, libc::makedev(7, 0), "lbd")] {
        let c = std::ffi::CString::new(sbx.join("r").join(name).to_str().unwrap()).unwrap();
        if unsafe { libc::mknod(c.as_ptr(), kind | 0o640, dev) } == 0 {
            ln(name, &format!("r/{link}"))?;
        }
    }
    Ok(())
}

fn follows(follow: char, depth: usize) -> bool {
    match follow {
        'L' => true,
        'H' => depth == 0,
        _ => false,
    }
}

/// reference visit list: (path, depth)
fn visits(roots: &[String], follow: char, maxdepth: Option<usize>) -> Vec<(String, usize)> {
    fn rec(p: &str, d: usize, follow: char, maxdepth: Option<usize>, out: &mut Vec<(String, usize)>) {
        out.push((p.to_string(), d));
        if maxdepth.is_some_and(|m| d >= m) {
            return;
        }
        let Some(st) = lb::record(Path::new(p), d, follow) else { return };
        if st.kind() == 'd' {
            let mut names: Vec<String> = std::fs::read_dir(p).map(|rd| rd.flatten().map(|e| e.file_name().to_string_lossy().to_string()).collect()).unwrap_or_default();
            names.sort();
            for n in names {
                rec(&format!("{p}/{n}"), d + 1, follow, maxdepth, out);
            }
        }
    }
    let mut out = vec![];
    for r in roots {
        rec(r, 0, follow, maxdepth, &mut out);
    }
    out
}

struct KTest {
    test: Test,
    /// oracle: (selected record, opposite record, lstat record, path) -> truth; None = not judged
    want: Box<dyn Fn(&St, &St, &St, &str, char, usize) -> Option<bool>>,
    nontrivial_always: bool,
}

fn dir_is_empty(p: &str) -> bool {
    std::fs::read_dir(p).map(|mut it| it.next().is_none()).unwrap_or(false)
}

fn kind_tests(all_paths: &[String]) -> Vec<KTest> {
    let mut v: Vec<KTest> = vec![];
    let mut add = |test: Test, nt: bool, want: Box<dyn Fn(&St, &St, &St, &str, char, usize) -> Option<bool>>| v.push(KTest { test, want, nontrivial_always: nt });
    for k in ['f', 'd', 'l', 'p', 's', 'b', 'c'] {
        add(lb::t(&["-type", &k.to_string()]), false, Box::new(move |r, _, _, _, _, _| Some(r.kind() == k)));
        add(lb::t(&["-xtype", &k.to_string()]), false, Box::new(move |_, x, _, _, _, _| Some(x.kind() == k)));
    }
    // numeric around real values: collect the values present
    let mut nl: BTreeSet<u64> = BTreeSet::new();
    let mut ino: BTreeSet<u64> = BTreeSet::new();
    let mut ids: BTreeSet<u64> = [0u64, 1, 2, 54321, 54322, 1 << 31].into_iter().collect();
    for p in all_paths {
        for st in [lb::lstat(Path::new(p)), lb::stat(Path::new(p))].into_iter().flatten() {
            nl.insert(st.nlink);
            ino.insert(st.ino);
            ids.insert(st.uid as u64);
            ids.insert(st.gid as u64);
        }
    }
    // operands that only differ from a real value above bit 31 (ids are 32-bit, operands are not)
    for base in [0u64, 1, 54321, 1 << 31] {
        ids.insert(base + (1 << 32));
    }
    nl.insert(1 + (1u64 << 32));
    nl.insert(2 + (1u64 << 32));
    let forms = |vals: &BTreeSet<u64>, around: bool| -> Vec<(String, u64, u8)> {
        let mut o = vec![];
        let mut vs: BTreeSet<u64> = vals.clone();
        if around {
            for x in vals {
                vs.insert(x + 1);
                vs.insert(x.saturating_sub(1));
            }
        }
        for x in vs {
            for (f, pre) in ["", "+", "-"].iter().enumerate() {
                o.push((format!("{pre}{x}"), x, f as u8));
            }
        }
        o
    };
    let cmp = |m: u64, n: u64, f: u8| match f {
        0 => m == n,
        1 => m > n,
        _ => m < n,
    };
    for (s, n, f) in forms(&nl, true) {
        add(lb::t(&["-links", &s]), false, Box::new(move |r, _, _, _, _, _| Some(cmp(r.nlink, n, f))));
    }
    for (s, n, f) in forms(&ino, false) {
        add(lb::t(&["-inum", &s]), false, Box::new(move |r, _, _, _, _, _| Some(cmp(r.ino, n, f))));
    }
    for (s, n, f) in forms(&ids, false) {
        let s2 = s.clone();
        add(lb::t(&["-uid", &s]), false, Box::new(move |r, _, _, _, _, _| Some(cmp(r.uid as u64, n, f))));
        add(lb::t(&["-gid", &s2]), false, Box::new(move |r, _, _, _, _, _| Some(cmp(r.gid as u64, n, f))));
    }
    for (name, id) in [("root", 0u32), ("daemon", 1), ("bin", 2), ("0", 0), ("1", 1), ("54321", 54321), ("54322", 54322), ("2147483648", 1 << 31)] {
        add(lb::t(&["-user", name]), false, Box::new(move |r, _, _, _, _, _| Some(r.uid == id)));
        add(lb::t(&["-group", name]), false, Box::new(move |r, _, _, _, _, _| Some(r.gid == id)));
    }
    add(
        lb::t(&["-empty"]),
        false,
        Box::new(|r, _, _, p, _, _| {
            Some(match r.kind() {
                'f' => r.size == 0,
                'd' => dir_is_empty(p),
                _ => false,
            })
        }),
    );
    add(lb::t(&["-lname", "*"]), true, Box::new(|r, _, _, _, _, _| Some(r.kind() == 'l')));
    for refp in all_paths.iter().filter(|p| p.matches('/').count() == 1) {
        let rp = refp.clone();
        add(
            lb::t(&["-samefile", refp]),
            false,
            Box::new(move |r, _, _, _, follow, _| {
                let rl = lb::lstat(Path::new(&rp))?;
                let rr = if rl.kind() == 'l' {
                    match follow {
                        'P' => rl,
                        'L' => lb::stat(Path::new(&rp)).unwrap_or(rl),
                        _ => return None,
                    }
                } else {
                    rl
                };
                Some((r.dev, r.ino) == (rr.dev, rr.ino))
            }),
        );
    }
    for (op, kind, mask) in [("4755", 0, 0o4755u32), ("-4000", 1, 0o4000), ("/022", 2, 0o022), ("777", 0, 0o777), ("-0644", 1, 0o644), ("/7000", 2, 0o7000), ("-u+s", 1, 0o4000), ("u=rw,g=r,o=r", 0, 0o644), ("/000", 2, 0)] {
        add(
            lb::t(&["-perm", op]),
            true,
            Box::new(move |r, _, _, _, _, _| {
                Some(match kind {
                    0 => r.perm() == mask,
                    1 => r.perm() & mask == mask,
                    _ => mask == 0 || r.perm() & mask != 0,
                })
            }),
        );
    }
    v
}

fn part_kinds(ctx: &mut Ctx) {
    let sbx = ctx.sbx.clone();
    if let Err(e) = build_kinds(&sbx) {
        ctx.rep.machinery(format!("kinds sandbox: {e}"));
        return;
    }
    let mut top: Vec<String> = lb::list_tree("r").into_iter().filter(|(_, d)| *d == 1).map(|(p, _)| p).collect();
    top.push("out/of".into());
    let all: Vec<String> = lb::list_tree("r").into_iter().map(|(p, _)| p).chain(["out/of".to_string()]).collect();
    let tests = kind_tests(&all);
    ctx.rep.count("kind_tests_in_vocabulary", tests.len() as u64);
    let mut job = 0u64;
    for follow in ['P', 'H', 'L'] {
        for (rname, roots, maxdepth) in [("dir", vec!["r".to_string()], None), ("each-entry-a-root", top.clone(), None), ("each-entry-a-root-maxdepth0", top.clone(), Some(0usize))] {
            for (ci, chunk) in tests.chunks(40).enumerate() {
                job += 1;
                if !ctx.mine(job) {
                    continue;
                }
                ctx.progress(job);
                let vis = visits(&roots, follow, maxdepth);
                let tl: Vec<Test> = chunk.iter().map(|k| k.test.clone()).collect();
                let flag = format!("-{follow}");
                let rs: Vec<&str> = roots.iter().map(|s| s.as_str()).collect();
                let md = maxdepth.map(|m| m.to_string());
                let globals: Vec<&str> = match &md {
                    Some(m) => vec!["-maxdepth", m.as_str()],
                    None => vec![],
                };
                let sel = match lb::run_labelled(&[&flag], &rs, &globals, &tl, default_now()) {
                    Ok(s) => s,
                    Err((why, out, argv)) => {
                        let sig = if out.panicked() { "C13 panic".to_string() } else { "C13 output not attributable (entry selected twice or stray line)".to_string() };
                        ctx.rep.violation(&sig, format!("{why}\nfind {:?}\n{}", argv, out.brief()), json!({"prop":"C13","part":"kinds","argv":argv}));
                        continue;
                    }
                };
                if job % 7 == 0 {
                    match lb::cross_check(&sel) {
                        Ok(()) => ctx.rep.traces_validated += 1,
                        Err(e) => ctx.rep.machinery(e),
                    }
                }
                if sel.out.code != Ok(0) {
                    ctx.rep.violation("C13 non-zero status on a readable sandbox", format!("find {:?}\n{}", sel.argv, sel.out.brief()), json!({"prop":"C13","part":"kinds","argv":sel.argv}));
                    continue;
                }
                for (path, depth) in &vis {
                    let p = Path::new(path);
                    let Some(l) = lb::lstat(p) else { continue };
                    let f = follows(follow, *depth);
                    let s = lb::stat(p).unwrap_or_else(|| l.clone());
                    let (r, x) = if f { (s.clone(), l.clone()) } else { (l.clone(), s.clone()) };
                    for (ti, kt) in chunk.iter().enumerate() {
                        let got = sel.sel[ti].contains(path);
                        ctx.rep.evaluations += 1;
                        let Some(want) = (kt.want)(&r, &x, &l, path, follow, *depth) else {
                            ctx.rep.count("not_judged_samefile_link_reference_under_H", 1);
                            continue;
                        };
                        if l.kind() == 'l' || kt.nontrivial_always {
                            ctx.rep.nontrivial += 1;
                        }
                        ctx.rep.class(&format!("{} {} {}", kt.test[0], if l.kind() == 'l' { "link" } else { "nonlink" }, got));
                        if got != want {
                            let what = if l.kind() == 'l' {
                                if lb::stat(p).is_none() {
                                    "dangling link"
                                } else if f {
                                    "link the follow mode resolves"
                                } else {
                                    "link the follow mode does not resolve"
                                }
                            } else {
                                "non-link"
                            };
                            ctx.rep.violation(
                                &format!("C13 {} {} on a {what} [-{follow} depth{}]", kt.test[0], if got { "true, must be false," } else { "false, must be true," }, if *depth == 0 { "=0" } else { ">0" }),
                                format!("find {flag} {:?} {:?}: {path} (depth {depth}); lstat: kind {} perm {:o} nlink {} ino {} uid {} gid {} size {}; stat: kind {} perm {:o} nlink {} ino {} uid {} gid {} size {}; the follow mode selects the {} record; got {got}, expected {want}", rs, kt.test, l.kind(), l.perm(), l.nlink, l.ino, l.uid, l.gid, l.size, s.kind(), s.perm(), s.nlink, s.ino, s.uid, s.gid, s.size, if f { "stat()" } else { "lstat()" }),
                                json!({"prop":"C13","part":"kinds","follow":follow.to_string(),"roots":roots,"maxdepth":maxdepth,"test":kt.test,"path":path,"depth":depth,"expected":want}),
                            );
                        }
                    }
                }
                // nothing outside the reference visit list may be selected
                let vset: BTreeSet<&String> = vis.iter().map(|v| &v.0).collect();
                for (ti, s) in sel.sel.iter().enumerate() {
                    for p in s {
                        if !vset.contains(p) {
                            ctx.rep.violation("C13 test selected an entry outside the reference walk", format!("find {flag} {:?} {:?} printed {p}", rs, chunk[ti].test), json!({"prop":"C13","part":"kinds","argv":sel.argv}));
                        }
                    }
                }
                if ci == 0 && rname == "dir" {
                    ctx.rep.sample(json!({"part":"kinds","find": sel.argv.iter().take(12).collect::<Vec<_>>(), "visited": vis.iter().map(|v| format!("{}@{}", v.0, v.1)).collect::<Vec<_>>()}));
                }
            }
        }
    }
}

// ---------------------------------------------------------------------------------------------
// part 2: permission grid
// ---------------------------------------------------------------------------------------------

fn build_perm(sbx: &Path, dirs: bool) -> Result<(), String> {
    let e = |x: std::io::Error| x.to_string();
    for d in ["pm", "pd", "pb"] {
        let _ = crate::sandbox::force_remove(&sbx.join(d));
    }
    std::fs::create_dir(sbx.join("pm")).map_err(e)?;
    for m in 0..4096u32 {
        let p = sbx.join(format!("pm/{m:04o}"));
        std::fs::write(&p, b"").map_err(e)?;
        std::fs::set_permissions(&p, std::fs::Permissions::from_mode(m)).map_err(e)?;
    }
    if dirs {
        std::fs::create_dir(sbx.join("pd")).map_err(e)?;
        for m in 0..4096u32 {
            let p = sbx.join(format!("pd/{m:04o}"));
            std::fs::create_dir(&p).map_err(e)?;
            std::fs::set_permissions(&p, std::fs::Permissions::from_mode(m)).map_err(e)?;
        }
    }
    std::fs::create_dir(sbx.join("pb")).map_err(e)?;
    for m in probe_modes() {
        let p = sbx.join(format!("pb/{m:04o}"));
        std::fs::write(&p, b"").map_err(e)?;
        std::fs::set_permissions(&p, std::fs::Permissions::from_mode(m)).map_err(e)?;
    }
    Ok(())
}

fn probe_modes() -> Vec<u32> {
    let mut v: BTreeSet<u32> = [0u32, 0o7777].into_iter().collect();
    for b in 0..12 {
        v.insert(1 << b);
        v.insert(0o7777 ^ (1 << b));
    }
    v.into_iter().collect()
}

fn octal_operands(t: Tier) -> Vec<u32> {
    if t == Tier::Thorough {
        return (0..4096).collect();
    }
    let mut v: BTreeSet<u32> = [0u32, 0o7777, 0o700, 0o070, 0o007, 0o7000, 0o777, 0o4700, 0o2070, 0o1007, 0o644, 0o755].into_iter().collect();
    for m in 0..4096u32 {
        if m.count_ones() <= 3 || m.count_ones() >= 10 {
            v.insert(m);
        }
    }
    v.into_iter().collect()
}

fn formula(form: usize, mask: u32, mode: u32) -> bool {
    match form {
        0 => mode == mask,
        1 => mode & mask == mask,
        _ => mask == 0 || mode & mask != 0,
    }
}

/// run `-perm OP` for a list of (form, operand text, reference mask) over `dir` whose entries are named by their octal mode.
/// The '/' form is evaluated negated (prints the complement) to keep the output small.
fn perm_run(ctx: &mut Ctx, dir: &str, ops: &[(usize, String, u32)], part: &str) {
    let tests: Vec<Test> = ops.iter().map(|(form, txt, _)| if *form == 2 { lb::t(&["!", "-perm", txt]) } else { lb::t(&["-perm", txt]) }).collect();
    let sel = match lb::run_labelled(&[], &[dir], &["-mindepth", "1"], &tests, default_now()) {
        Ok(s) if s.out.code == Ok(0) => s,
        Ok(s) if ops.len() > 1 && s.out.out.is_empty() => {
            // one operand of the chunk was rejected: find out which
            let _ = s;
            for o in ops {
                perm_run(ctx, dir, std::slice::from_ref(o), part);
            }
            return;
        }
        Ok(s) => {
            ctx.rep.violation(&format!("C13 -perm: operand rejected or non-zero status [{part}]"), format!("find {:?} ...\n{}", s.argv.iter().take(12).collect::<Vec<_>>(), s.out.brief().chars().take(600).collect::<String>()), json!({"prop":"C13","part":part,"ops":ops.iter().map(|o| o.1.clone()).collect::<Vec<_>>()}));
            return;
        }
        Err((why, out, argv)) => {
            let sig = if out.panicked() { "C13 panic in -perm".to_string() } else { "C13 -perm output not attributable".to_string() };
            ctx.rep.violation(&sig, format!("{why}\nfind {:?}\n{}", argv.iter().take(12).collect::<Vec<_>>(), out.brief().chars().take(600).collect::<String>()), json!({"prop":"C13","part":part}));
            return;
        }
    };
    let modes: Vec<u32> = if dir == "pb" { probe_modes() } else { (0..4096).collect() };
    for (ti, (form, txt, mask)) in ops.iter().enumerate() {
        let mut wrong = 0u32;
        let mut first = None;
        for &m in &modes {
            let path = format!("{dir}/{m:04o}");
            let printed = sel.sel[ti].contains(&path);
            let got = if *form == 2 { !printed } else { printed };
            let want = formula(*form, *mask, m);
            ctx.rep.evaluations += 1;
            ctx.rep.nontrivial += 1;
            if got != want {
                wrong += 1;
                if first.is_none() {
                    first = Some((m, got, want));
                }
            }
        }
        ctx.rep.class(&format!("{part} form{form} wrong={}", wrong.min(1)));
        if let Some((m, got, want)) = first {
            let fname = ["MODE", "-MODE", "/MODE"][*form];
            // classify which bits are involved for the signature
            let special = if mask & 0o7000 != 0 { " (operand has setuid/setgid/sticky bits)" } else { "" };
            let sig = if part == "octal" { format!("C13 -perm {fname} octal operand disagrees with the bit formula{special}") } else { format!("C13 -perm {fname} symbolic operand not interchangeable with its octal value{special}") };
            ctx.rep.violation(
                &sig,
                format!("-perm {txt:?} (reference value {mask:04o}) on {dir}/{m:04o}: find says {got}, formula says {want}; {wrong} of {} entries differ", modes.len()),
                json!({"prop":"C13","part":part,"dir":dir,"form":form,"operand":txt,"mask":mask,"mode":m}),
            );
        }
    }
}

fn part_octal(ctx: &mut Ctx, base_job: &mut u64) {
    let ops = octal_operands(ctx.tier);
    let mut list: Vec<(usize, String, u32)> = vec![];
    for &m in &ops {
        list.push((0, format!("{m:o}"), m));
        list.push((1, format!("-{m:04o}"), m));
        list.push((2, format!("/{m:o}"), m));
    }
    let dirs: Vec<&str> = if ctx.tier == Tier::Thorough { vec!["pm", "pd"] } else { vec!["pm"] };
    for dir in dirs {
        for chunk in list.chunks(96) {
            *base_job += 1;
            if !ctx.mine(*base_job) {
                continue;
            }
            ctx.progress(*base_job);
            perm_run(ctx, dir, chunk, "octal");
        }
    }
    if ctx.shard == 0 {
        ctx.rep.sample(json!({"part":"octal","operands": list.iter().take(9).map(|o| o.1.clone()).collect::<Vec<_>>(), "files":"pm/0000 .. pm/7777"}));
    }
}

// ---------------------------------------------------------------------------------------------
// part 3: symbolic spellings
// ---------------------------------------------------------------------------------------------

const WHOS: [&str; 8] = ["", "u", "g", "o", "a", "ug", "go", "uo"];
const OPS: [char; 3] = ['=', '+', '-'];
const PERMS: [&str; 18] = ["", "r", "w", "x", "rw", "rx", "wx", "rwx", "s", "t", "xs", "xt", "rwxs", "rwxt", "st", "u", "g", "o"];

fn who_mask(w: &str) -> u32 {
    if w.is_empty() {
        return 0o7777;
    }
    let mut m = 0;
    for c in w.chars() {
        m |= match c {
            'u' => 0o4700,
            'g' => 0o2070,
            'o' => 0o1007,
            _ => 0o7777,
        };
    }
    m
}

/// chmod semantics of one clause applied to `mode` (umask 0)
fn apply_clause(mode: u32, who: &str, op: char, perms: &str) -> u32 {
    let w = who_mask(who);
    let p = match perms {
        "u" => {
            let v = (mode >> 6) & 7;
            v << 6 | v << 3 | v
        }
        "g" => {
            let v = (mode >> 3) & 7;
            v << 6 | v << 3 | v
        }
        "o" => {
            let v = mode & 7;
            v << 6 | v << 3 | v
        }
        _ => perms.chars().fold(0, |a, c| {
            a | match c {
                'r' => 0o444,
                'w' => 0o222,
                'x' => 0o111,
                's' => 0o6000,
                't' => 0o1000,
                _ => 0,
            }
        }),
    };
    let bits = p & w;
    match op {
        '+' => mode | bits,
        '-' => mode & !bits,
        _ => (mode & !w) | bits,
    }
}

fn clauses() -> Vec<(String, &'static str, char, &'static str)> {
    let mut v = vec![];
    for w in WHOS {
        for o in OPS {
            for p in PERMS {
                v.push((format!("{w}{o}{p}"), w, o, p));
            }
        }
    }
    v
}

fn part_symbolic(ctx: &mut Ctx, base_job: &mut u64) {
    // find's reading of a symbolic mode does not depend on the process's umask (who-less clauses
    // included): run this part under a umask that would mask group-write and everything of "other"
    struct Umask(libc::mode_t);
    impl Drop for Umask {
        fn drop(&mut self) {
            unsafe { libc::umask(self.0) };
        }
    }
    let _umask = Umask(unsafe { libc::umask(0o027) });
    let cl = clauses();
    let sub: Vec<usize> = cl.iter().enumerate().filter(|(_, c)| ["u", "a", ""].contains(&c.1) && ["r", "x", "rw", "s", "t", "u"].contains(&c.3)).map(|(i, _)| i).collect();
    // sequences
    let mut seqs: Vec<Vec<usize>> = (0..cl.len()).map(|i| vec![i]).collect();
    let n1 = seqs.len();
    if ctx.tier == Tier::Thorough {
        for a in 0..cl.len() {
            for b in 0..cl.len() {
                seqs.push(vec![a, b]);
            }
        }
    } else {
        for &a in &sub {
            for &b in &sub {
                seqs.push(vec![a, b]);
            }
        }
    }
    let spell = |s: &Vec<usize>| s.iter().map(|&i| cl[i].0.clone()).collect::<Vec<_>>().join(",");
    let value = |s: &Vec<usize>| s.iter().fold(0u32, |m, &i| apply_clause(m, cl[i].1, cl[i].2, cl[i].3));
    // an operand must not start with '-' or '/' ambiguity: "-SYM" where SYM itself starts with '-'
    // (who-less '-' clause) is spelled e.g. "--r": legitimate, the first character selects the form.
    let mut probe_ops: Vec<(usize, String, u32)> = vec![];
    let mut exact_ops: Vec<(usize, String, u32)> = vec![];
    for (k, s) in seqs.iter().enumerate() {
        let (txt, val) = (spell(s), value(s));
        probe_ops.push((1, format!("-{txt}"), val));
        probe_ops.push((2, format!("/{txt}"), val));
        // exact form: a bare symbolic mode starting with '-' or '/' would be read as a form prefix; skip those
        if k < n1 && !txt.starts_with(['-', '/', '+']) {
            exact_ops.push((0, txt, val));
        }
    }
    ctx.rep.count("symbolic_sequences_all_shards", seqs.len() as u64);
    for chunk in probe_ops.chunks(400) {
        *base_job += 1;
        if !ctx.mine(*base_job) {
            continue;
        }
        ctx.progress(*base_job);
        perm_run(ctx, "pb", chunk, "symbolic");
    }
    for chunk in exact_ops.chunks(48) {
        *base_job += 1;
        if !ctx.mine(*base_job) {
            continue;
        }
        ctx.progress(*base_job);
        perm_run(ctx, "pm", chunk, "symbolic");
    }
    if ctx.shard == 0 {
        ctx.rep.sample(json!({"part":"symbolic","operands": probe_ops.iter().skip(500).step_by(977).take(8).map(|o| format!("{} = {:04o}", o.1, o.2)).collect::<Vec<_>>()}));
    }
}

/// Mounted file systems inside the walk: a tmpfs on m/mnt (the directory entry's inode number is
/// that of the covered directory, the status record's that of the mounted root) and two separate
/// tmpfs instances A and B whose files carry the same inode numbers. -inum N/+N/-N must follow the
/// status record; -samefile must compare device AND inode.
fn mount_slice(ctx: &mut Ctx) {
    use std::ffi::CString;
    let sbx = ctx.sbx.clone();
    crate::sandbox::clear_dir(&sbx);
    for d in ["m/mnt", "m/plain", "A", "B"] {
        std::fs::create_dir_all(sbx.join(d)).unwrap();
    }
    struct Unmount(Vec<CString>);
    impl Drop for Unmount {
        fn drop(&mut self) {
            for t in &self.0 {
                unsafe { libc::umount2(t.as_ptr(), libc::MNT_DETACH) };
            }
        }
    }
    let mut guard = Unmount(vec![]);
    let (src, fst) = (CString::new("none").unwrap(), CString::new("tmpfs").unwrap());
    for d in ["m/mnt", "A", "B"] {
        let target = CString::new(sbx.join(d).to_string_lossy().as_bytes()).unwrap();
        if unsafe { libc::mount(src.as_ptr(), target.as_ptr(), fst.as_ptr(), 0, std::ptr::null()) } != 0 {
            ctx.rep.count("mount_slice_skipped_(mount_not_permitted)", 1);
            return;
        }
        guard.0.push(target);
    }
    std::fs::write(sbx.join("m/mnt/x"), b"").unwrap();
    std::fs::write(sbx.join("m/plain/y"), b"").unwrap();
    for d in ["A", "B"] {
        for k in 0..6 {
            std::fs::write(sbx.join(d).join(format!("f{k}")), b"").unwrap();
        }
    }
    std::fs::hard_link(sbx.join("A/f1"), sbx.join("A/hard")).unwrap();
    std::env::set_current_dir(&sbx).unwrap();
    // (1) -inum
    let paths: Vec<String> = lb::list_tree("m").into_iter().map(|(p, _)| p).collect();
    let inos: BTreeSet<u64> = paths.iter().filter_map(|p| lb::lstat(Path::new(p)).map(|s| s.ino)).collect();
    let mut tests: Vec<Test> = vec![];
    let mut meta: Vec<(u64, u8)> = vec![];
    for n in &inos {
        for (f, pre) in ["", "+", "-"].iter().enumerate() {
            tests.push(lb::t(&["-inum", &format!("{pre}{n}")]));
            meta.push((*n, f as u8));
        }
    }
    match lb::run_labelled(&[], &["m"], &[], &tests, default_now()) {
        Ok(sel) if sel.out.code == Ok(0) => {
            for (ti, (n, f)) in meta.iter().enumerate() {
                for p in &paths {
                    let ino = lb::lstat(Path::new(p)).unwrap().ino;
                    let want = [ino == *n, ino > *n, ino < *n][*f as usize];
                    let got = sel.sel[ti].contains(p);
                    ctx.rep.evaluations += 1;
                    ctx.rep.nontrivial += 1;
                    if got != want {
                        ctx.rep.violation(
                            "C13 -inum does not follow the status record on a mount point",
                            format!("find m ... {:?}: {p} (lstat inode {ino}{}) selected={got}, expected {want}", tests[ti], if p == "m/mnt" { ", a mount point" } else { "" }),
                            json!({"prop":"C13","part":"mount"}),
                        );
                    }
                }
            }
        }
        Ok(sel) => ctx.rep.violation("C13 non-zero status [mount slice]", sel.out.brief(), json!({"prop":"C13","part":"mount"})),
        Err((why, out, _)) => ctx.rep.violation("C13 output not attributable [mount slice]", format!("{why}: {}", out.brief()), json!({"prop":"C13","part":"mount"})),
    }
    // (2) -samefile across two file systems whose inode numbers coincide
    let all: Vec<String> = lb::list_tree("A").into_iter().chain(lb::list_tree("B")).map(|(p, _)| p).collect();
    let id = |p: &str| lb::lstat(Path::new(p)).map(|s| (s.dev, s.ino)).unwrap();
    let coincide = all.iter().any(|a| all.iter().any(|b| id(a).1 == id(b).1 && id(a).0 != id(b).0));
    if !coincide {
        ctx.rep.count("mount_slice_no_coinciding_inode_numbers", 1);
    }
    let refs: Vec<&String> = all.iter().filter(|p| p.contains("/f") || p.ends_with("hard")).collect();
    let tests: Vec<Test> = refs.iter().map(|r| lb::t(&["-samefile", r])).collect();
    match lb::run_labelled(&[], &["A", "B"], &[], &tests, default_now()) {
        Ok(sel) if sel.out.code == Ok(0) => {
            for (ti, r) in refs.iter().enumerate() {
                for p in &all {
                    let want = id(p) == id(r);
                    let got = sel.sel[ti].contains(p);
                    ctx.rep.evaluations += 1;
                    ctx.rep.nontrivial += 1;
                    if got != want {
                        ctx.rep.violation(
                            "C13 -samefile across file systems: device and inode number must both agree",
                            format!("find A B -samefile {r}: {p} (dev,ino {:?}; reference {:?}) selected={got}, expected {want}", id(p), id(r)),
                            json!({"prop":"C13","part":"mount"}),
                        );
                    }
                }
            }
        }
        Ok(sel) => ctx.rep.violation("C13 non-zero status [mount slice]", sel.out.brief(), json!({"prop":"C13","part":"mount"})),
        Err((why, out, _)) => ctx.rep.violation("C13 output not attributable [mount slice]", format!("{why}: {}", out.brief()), json!({"prop":"C13","part":"mount"})),
    }
    ctx.rep.count("mount_slice_runs", 1);
    std::env::set_current_dir(&sbx).unwrap();
    drop(guard);
    crate::sandbox::clear_dir(&sbx);
}

/// A link whose target exists but cannot be reached by the user running find (it lies in a
/// mode-000 directory, find runs as uid 65534): it is not a dangling link, so -xtype l is false for
/// it; the dangling link next to it is -xtype l.
fn unreachable_target_slice(ctx: &mut Ctx) {
    let sbx = ctx.sbx.clone();
    crate::sandbox::clear_dir(&sbx);
    let _ = std::fs::set_permissions(&sbx, std::fs::Permissions::from_mode(0o755));
    std::fs::create_dir_all(sbx.join("u/locked")).unwrap();
    std::fs::write(sbx.join("u/locked/f"), b"x").unwrap();
    std::fs::create_dir(sbx.join("u/locked/d")).unwrap();
    std::os::unix::fs::symlink("locked/f", sbx.join("u/lf")).unwrap();
    std::os::unix::fs::symlink("locked/d", sbx.join("u/ld")).unwrap();
    std::os::unix::fs::symlink("nowhere", sbx.join("u/dang")).unwrap();
    std::fs::write(sbx.join("u/plain"), b"").unwrap();
    std::fs::set_permissions(sbx.join("u/locked"), std::fs::Permissions::from_mode(0o000)).unwrap();
    for (follow, expr, want) in [
        ("-P", vec!["-xtype", "l"], vec!["u/dang"]),
        ("-H", vec!["-xtype", "l"], vec!["u/dang"]),
        ("-P", vec!["-type", "l"], vec!["u/dang", "u/ld", "u/lf"]),
        ("-P", vec!["-xtype", "f"], vec!["u/plain"]),
    ] {
        let mut args: Vec<&str> = vec![follow, "u", "-sorted", "-mindepth", "1"];
        args.extend(expr.iter());
        let got = crate::props::c02::run_find_as_nobody(&args, &sbx);
        ctx.rep.evaluations += 1;
        ctx.rep.nontrivial += 1;
        ctx.rep.count("unreachable_target_runs", 1);
        let sel: Vec<String> = String::from_utf8_lossy(&got.out).lines().filter(|l| *l != "u/locked").map(String::from).collect();
        if got.panicked() || sel != want {
            ctx.rep.violation(
                "C13 a link whose target exists but cannot be reached is treated like a dangling link (or the other way round)",
                format!("as uid 65534: find {:?}: selected {:?}, expected {:?}; status {:?} stderr {:?}", args, sel, want, got.code, String::from_utf8_lossy(&got.err)),
                json!({"prop":"C13","part":"unreachable"}),
            );
        }
    }
    let _ = std::fs::set_permissions(sbx.join("u/locked"), std::fs::Permissions::from_mode(0o755));
    crate::sandbox::clear_dir(&sbx);
}

/// The follow mode given as the word -follow AFTER the tests (tests that capture the mode when they
/// are parsed would miss it): every test of the vocabulary must select exactly what it selects
/// under -L.
/// -empty on directories whose only entries have names that are not valid UTF-8 (a file named 0xff, a
/// directory named by a lone continuation byte, a truncated sequence): they are not empty — at depth
/// 0 and 1, reached directly and through a link, under every follow mode.
fn empty_with_undecodable_names(ctx: &mut Ctx) {
    use crate::findrun::run_find;
    use std::os::unix::ffi::OsStrExt;
    let base = ctx.sbx.join("eu");
    let _ = crate::sandbox::force_remove(&base);
    let os = |b: &[u8]| std::ffi::OsStr::from_bytes(b).to_os_string();
    for d in ["e0", "e1", "e2", "e3", "e4", "e5"] {
        std::fs::create_dir_all(base.join("t").join(d)).unwrap();
    }
    std::fs::write(base.join("t/e1/a"), b"").unwrap();
    std::fs::write(base.join("t/e2").join(os(b"\xff")), b"").unwrap();
    std::fs::create_dir(base.join("t/e3").join(os(b"\x80"))).unwrap();
    std::fs::write(base.join("t/e4/\u{e9}"), b"").unwrap();
    std::os::unix::fs::symlink("nowhere", base.join("t/e5").join(os(b"ab\xc3"))).unwrap();
    std::os::unix::fs::symlink("e2", base.join("t/l2")).unwrap();
    std::os::unix::fs::symlink("e0", base.join("t/l0")).unwrap();
    std::env::set_current_dir(&base).unwrap();
    for flag in ["-P", "-H", "-L"] {
        // depth 1
        for (neg, want) in [(false, if flag == "-L" { vec!["e0", "l0"] } else { vec!["e0"] }), (true, if flag == "-L" { vec!["e1", "e2", "e3", "e4", "e5", "l2"] } else { vec!["e1", "e2", "e3", "e4", "e5"] })] {
            let mut args: Vec<&str> = vec![flag, "t", "-mindepth", "1", "-maxdepth", "1", "-sorted", "-type", "d"];
            if neg {
                args.push("!");
            }
            args.extend(["-empty", "-printf", "%f\\n"]);
            let got = run_find(&args);
            ctx.rep.evaluations += 1;
            ctx.rep.nontrivial += 1;
            let lines: Vec<String> = String::from_utf8_lossy(&got.out).lines().map(String::from).collect();
            if lines != want || got.code != Ok(0) {
                ctx.rep.violation(
                    &format!("C13 -empty on a directory whose entries have names that are not valid UTF-8 [{flag}]"),
                    format!("find {:?}: printed {:?}, expected {:?}; status {:?}", args, lines, want, got.code),
                    json!({"prop":"C13","empty_undecodable":true}),
                );
            }
        }
        // depth 0, directly and through a link
        for (root, want_empty) in [("t/e0", true), ("t/e2", false), ("t/e3", false), ("t/e5", false), ("t/l2/", false), ("t/l0/", true)] {
            let got = run_find(&[flag, root, "-maxdepth", "0", "-empty", "-printf", "E\n"]);
            ctx.rep.evaluations += 1;
            ctx.rep.nontrivial += 1;
            let is = got.out == b"E\n";
            if is != want_empty || got.code != Ok(0) {
                ctx.rep.violation(
                    &format!("C13 -empty on a directory whose entries have names that are not valid UTF-8 [{flag}]"),
                    format!("find {flag} {root} -maxdepth 0 -empty: selected={is}, expected {want_empty}; status {:?}", got.code),
                    json!({"prop":"C13","empty_undecodable":true}),
                );
            }
        }
    }
    std::env::set_current_dir(&ctx.sbx).unwrap();
    let _ = crate::sandbox::force_remove(&base);
}

/// 150 hard links (and 150 symbolic links to them) in 150 directories, 64 file descriptors: -samefile,
/// -inum, -links, -type and -xtype answer for the last entry as for the first, under -P and -L.
fn low_descriptor_slice(ctx: &mut Ctx) {
    use crate::props::lowfd;
    let sbx = lowfd::build(ctx);
    let ino = lb::lstat(&sbx.join("lf/d000/f")).map(|s| s.ino).unwrap_or(0).to_string();
    let n = lowfd::NDIRS;
    for (flag, test, want) in [
        ("-P", vec!["-samefile", "lf/d000/f"], n),
        ("-L", vec!["-samefile", "lf/d000/f"], 2 * n),
        ("-P", vec!["-inum", ino.as_str()], n),
        ("-L", vec!["-inum", ino.as_str()], 2 * n),
        ("-P", vec!["-links", "150"], n),
        ("-L", vec!["-links", "150"], 2 * n),
        ("-P", vec!["-type", "l"], n),
        ("-P", vec!["-xtype", "f"], 2 * n),
        ("-L", vec!["-xtype", "l"], n),
        ("-P", vec!["-lname", "f"], n),
        ("-P", vec!["-empty"], 0),
        ("-P", vec!["-perm", "-600", "-type", "f"], n),
        ("-P", vec!["-uid", "0", "-gid", "0", "-type", "f"], n),
    ] {
        let mut args: Vec<&str> = vec![flag, "lf"];
        args.extend(test.iter().copied());
        let o = lowfd::find(ctx, &args, 64, vec![]);
        ctx.rep.evaluations += 1;
        ctx.rep.nontrivial += 1;
        ctx.rep.count("low_descriptor_limit_cases", 1);
        let got = lowfd::lines(&o.out).len();
        if o.died() || o.code != Some(0) || got != want {
            ctx.rep.violation(
                &format!("C13 {} over 150 directories with 64 file descriptors: later entries are not judged on their own status records [{flag}]", test[0]),
                format!("find {:?} under RLIMIT_NOFILE=64: {got} entries selected, expected {want}; status {:?}; stderr {:?}", args, o.code, String::from_utf8_lossy(&o.err).lines().take(2).collect::<Vec<_>>()),
                json!({"prop":"C13","low_descriptor":true}),
            );
        }
    }
    lowfd::remove(ctx);
}

fn follow_word_after_slice(ctx: &mut Ctx) {
    let sbx = ctx.sbx.clone();
    if let Err(e) = build_kinds(&sbx) {
        ctx.rep.machinery(format!("kinds sandbox: {e}"));
        return;
    }
    std::env::set_current_dir(&sbx).unwrap();
    let paths: Vec<String> = lb::list_tree("r").into_iter().map(|(p, _)| p).collect();
    // (-samefile takes a reference file, which GNU find resolves with the mode in force where the
    // test is written: "-follow affects only those tests which appear after it" — not judged here)
    let all: Vec<Test> = kind_tests(&paths).into_iter().map(|k| k.test).filter(|t| t[0] != "-samefile").collect();
    for tests in all.chunks(40) {
        let reference = lb::run_labelled(&["-L"], &["r"], &["-sorted"], tests, default_now());
        let mut argv = lb::argv_for(&[], &["r"], &["-sorted"], tests);
        argv.push("-follow".into());
        let args: Vec<&str> = argv.iter().map(|s| s.as_str()).collect();
        let got = crate::findrun::run_find_at(&args, default_now());
        ctx.rep.evaluations += tests.len() as u64;
        ctx.rep.nontrivial += tests.len() as u64;
        ctx.rep.count("follow_word_after_runs", 1);
        let Ok(reference) = reference else {
            ctx.rep.machinery("follow-word slice: the -L run could not be attributed".into());
            continue;
        };
        if got.out != reference.out.out || got.code != reference.out.code {
            // which test differs?
            let lines = |b: &[u8]| -> BTreeSet<String> { String::from_utf8_lossy(b).lines().map(String::from).collect() };
            let (a, b) = (lines(&reference.out.out), lines(&got.out));
            let diff: Vec<&String> = a.symmetric_difference(&b).take(4).collect();
            let label = diff.first().and_then(|l| l.split('\t').next()).and_then(|l| l.strip_prefix('L')).and_then(|k| k.parse::<usize>().ok());
            let which = label.and_then(|k| tests.get(k)).map(|t| t[0].clone()).unwrap_or_else(|| "?".into());
            ctx.rep.violation(
                &format!("C13 {which}: the word -follow written after the test does not have the effect of -L"),
                format!("find r -sorted ( ... {:?} ... ) -follow differs from find -L r -sorted ( ... ): first differing lines {:?}", label.and_then(|k| tests.get(k)), diff),
                json!({"prop":"C13","part":"follow_word"}),
            );
        }
    }
}

/// An entry removed by an earlier action before the test looks at it: the diagnostic goes to standard
/// error, standard output lists exactly the entries the test selects.
fn removed_entry_slice(ctx: &mut Ctx) {
    let cases: Vec<(Vec<&str>, bool, Vec<&str>)> = vec![(vec!["-empty"], true, vec!["ec/d/keep"]), (vec!["-perm", "-000"], false, vec!["ec/d", "ec/d/keep"]), (vec!["-uid", "0"], false, vec!["ec/d", "ec/d/keep"]), (vec!["-links", "-100"], true, vec!["ec/d", "ec/d/keep"]), (vec!["-user", "root"], false, vec!["ec/d", "ec/d/keep"]), (vec!["-samefile", "ec/d/keep"], false, vec!["ec/d/keep"]), (vec!["-inum", "+0"], false, vec!["ec/d", "ec/d/keep"])];
    for (test, victim_is_dir, expect) in cases {
        ctx.rep.evaluations += 1;
        ctx.rep.nontrivial += 1;
        ctx.rep.count("removed_entry_cases", 1);
        if let Err(d) = crate::props::labelled::removed_entry_case(&ctx.sbx.clone(), &test, victim_is_dir, &expect) {
            ctx.rep.violation(&format!("C13 {} on an entry that was removed just before: standard output is not exactly the selected entries (a diagnostic belongs on standard error)", test[0]), d, json!({"prop":"C13","removed_entry":true}));
        }
    }
}

/// Two names (hard links) of ONE symbolic link with a relative target, in directories where that
/// target resolves to different kinds: same device and inode, different stat() records. -xtype (and
/// -type under -L) is a function of the record of the name at hand, in either visiting order.
fn hard_linked_symlink_slice(ctx: &mut Ctx) {
    use std::ffi::OsStr;
    let sbx = ctx.sbx.clone();
    let dir = sbx.join("hl");
    let _ = std::fs::remove_dir_all(&dir);
    std::fs::create_dir_all(dir.join("a")).unwrap();
    std::fs::create_dir_all(dir.join("b/t")).unwrap();
    std::fs::create_dir_all(dir.join("c")).unwrap();
    std::fs::write(dir.join("a/t"), b"x").unwrap();
    std::os::unix::fs::symlink("t", dir.join("a/l")).unwrap();
    if std::fs::hard_link(dir.join("a/l"), dir.join("b/l")).is_err() || std::fs::hard_link(dir.join("a/l"), dir.join("c/l")).is_err() {
        ctx.rep.machinery("C13: cannot hard-link a symbolic link here".into());
        return;
    }
    let find = crate::binrun::repo_bin("find");
    // (roots, tests, expected lines)
    let cases: Vec<(Vec<&str>, Vec<&str>, Vec<&str>)> = vec![
        (vec!["hl/a/l", "hl/b/l", "hl/c/l"], vec!["-xtype", "f"], vec!["hl/a/l"]),
        (vec!["hl/a/l", "hl/b/l", "hl/c/l"], vec!["-xtype", "d"], vec!["hl/b/l"]),
        (vec!["hl/a/l", "hl/b/l", "hl/c/l"], vec!["-xtype", "l"], vec!["hl/c/l"]),
        (vec!["hl/c/l", "hl/b/l", "hl/a/l"], vec!["-xtype", "f"], vec!["hl/a/l"]),
        (vec!["hl/c/l", "hl/b/l", "hl/a/l"], vec!["-xtype", "d"], vec!["hl/b/l"]),
        (vec!["hl/c/l", "hl/b/l", "hl/a/l"], vec!["-xtype", "l"], vec!["hl/c/l"]),
        (vec!["hl/b/l", "hl/a/l"], vec!["-xtype", "f"], vec!["hl/a/l"]),
        (vec!["hl"], vec!["-name", "l", "-xtype", "f"], vec!["hl/a/l"]),
        (vec!["hl"], vec!["-name", "l", "-xtype", "d"], vec!["hl/b/l"]),
        (vec!["hl"], vec!["-name", "l", "-xtype", "l"], vec!["hl/c/l"]),
        (vec!["hl"], vec!["-name", "l", "-type", "l"], vec!["hl/a/l", "hl/b/l", "hl/c/l"]),
        (vec!["-L", "hl"], vec!["-name", "l", "-type", "f"], vec!["hl/a/l"]),
        (vec!["-L", "hl"], vec!["-name", "l", "-type", "d"], vec!["hl/b/l"]),
        (vec!["-L", "hl"], vec!["-name", "l", "-type", "l"], vec!["hl/c/l"]),
        (vec!["-L", "hl"], vec!["-name", "l", "-xtype", "l"], vec!["hl/a/l", "hl/b/l", "hl/c/l"]),
        (vec!["-H", "hl/b/l", "hl/a/l", "hl/c/l"], vec!["-maxdepth", "0", "-type", "d"], vec!["hl/b/l"]),
        (vec!["-H", "hl/b/l", "hl/a/l", "hl/c/l"], vec!["-maxdepth", "0", "-type", "f"], vec!["hl/a/l"]),
        (vec!["hl"], vec!["-name", "l", "-printf", "%p %Y\\n"], vec!["hl/a/l f", "hl/b/l d", "hl/c/l N"]),
    ];
    for (roots, tests, want) in cases {
        let mut a: Vec<&OsStr> = roots.iter().map(OsStr::new).collect();
        a.extend(tests.iter().map(OsStr::new));
        let o = crate::binrun::run(&find, &a, &sbx, &crate::binrun::Opts::default());
        let mut got: Vec<String> = String::from_utf8_lossy(&o.out).lines().map(|s| s.to_string()).collect();
        got.sort();
        ctx.rep.evaluations += 1;
        ctx.rep.nontrivial += 1;
        ctx.rep.count("hard_linked_symlink_cases", 1);
        if o.code != Some(0) || got != want {
            ctx.rep.violation(
                &format!("C13 {} on two names of one symbolic link whose relative target resolves differently in each directory", tests.iter().find(|t| t.starts_with("-xtype") || t.starts_with("-type") || t.starts_with("-printf")).unwrap_or(&"?")),
                format!("find {:?} {:?}: status {:?}, expected {:?}, got {:?}", roots, tests, o.code, want, got),
                json!({"prop":"C13","hard_linked_symlink":true}),
            );
        }
    }
    let _ = std::fs::remove_dir_all(&dir);
}

fn run(ctx: &mut Ctx) {
    if ctx.shard == 7 % ctx.nshards {
        hard_linked_symlink_slice(ctx);
    }
    if ctx.shard == 4 % ctx.nshards {
        follow_word_after_slice(ctx);
    }
    if ctx.shard == 2 % ctx.nshards {
        mount_slice(ctx);
    }
    if ctx.shard == 3 % ctx.nshards {
        unreachable_target_slice(ctx);
    }
    if ctx.shard == 5 % ctx.nshards {
        empty_with_undecodable_names(ctx);
    }
    if ctx.shard == 6 % ctx.nshards {
        low_descriptor_slice(ctx);
    }
    if ctx.shard == 8 % ctx.nshards {
        removed_entry_slice(ctx);
    }

    part_kinds(ctx);
    let sbx = ctx.sbx.clone();
    if let Err(e) = build_perm(&sbx, ctx.tier == Tier::Thorough) {
        ctx.rep.machinery(format!("perm sandbox: {e}"));
        return;
    }
    let mut job = 10_000u64;
    part_octal(ctx, &mut job);
    part_symbolic(ctx, &mut job);
}

fn replay(case: &Value, ctx: &mut Ctx) -> Option<String> {
    if case["removed_entry"] == true {
        removed_entry_slice(ctx);
        return ctx.rep.violations.keys().next().cloned();
    }
    let sbx = ctx.sbx.clone();
    if case["low_descriptor"] == true {
        low_descriptor_slice(ctx);
        return ctx.rep.violations.keys().next().cloned();
    }
    if case["empty_undecodable"] == true {
        empty_with_undecodable_names(ctx);
        return ctx.rep.violations.keys().next().cloned();
    }
    if case["part"] == "follow_word" {
        follow_word_after_slice(ctx);
        return ctx.rep.violations.keys().next().cloned();
    }
    if case["part"] == "mount" {
        mount_slice(ctx);
        return ctx.rep.violations.keys().next().cloned();
    }
    if case["part"] == "unreachable" {
        unreachable_target_slice(ctx);
        return ctx.rep.violations.keys().next().cloned();
    }
    if case["part"] == "kinds" {
        build_kinds(&sbx).ok()?;
        let tst: Test = case["test"].as_array()?.iter().map(|v| v.as_str().unwrap_or("").to_string()).collect();
        let roots: Vec<String> = case["roots"].as_array()?.iter().map(|v| v.as_str().unwrap_or("").to_string()).collect();
        let rs: Vec<&str> = roots.iter().map(|s| s.as_str()).collect();
        let flag = format!("-{}", case["follow"].as_str()?);
        let md = case["maxdepth"].as_u64().map(|m| m.to_string());
        let globals: Vec<&str> = match &md {
            Some(m) => vec!["-maxdepth", m.as_str()],
            None => vec![],
        };
        let sel = lb::run_labelled(&[&flag], &rs, &globals, &[tst.clone()], default_now()).ok()?;
        let got = sel.sel[0].contains(case["path"].as_str()?);
        let want = case["expected"].as_bool()?;
        if got != want {
            let sig = "C13 replayed case still differs".to_string();
            ctx.rep.violation(&sig, format!("find {:?}: {} selected={got}, expected {want}", sel.argv, case["path"]), case.clone());
            return Some(sig);
        }
        None
    } else {
        build_perm(&sbx, true).ok()?;
        let form = case["form"].as_u64()? as usize;
        let ops = vec![(form, case["operand"].as_str()?.to_string(), case["mask"].as_u64()? as u32)];
        perm_run(ctx, case["dir"].as_str()?, &ops, case["part"].as_str()?);
        ctx.rep.violations.keys().next().cloned()
    }
}
