//! Binary-level runner: the hooks-off find/xargs (or any program) with a fixed minimal
//! environment, optional RLIMIT_STACK, uid, stdin data, and a timeout.

use std::ffi::{OsStr, OsString};
use std::io::{Read, Write};
use std::os::unix::process::{CommandExt, ExitStatusExt};
use std::path::Path;
use std::process::{Command, Stdio};

#[derive(Clone, Debug, PartialEq, Eq)]
pub struct BinOut {
    pub code: Option<i32>,
    pub signal: Option<i32>,
    pub timed_out: bool,
    pub out: Vec<u8>,
    pub err: Vec<u8>,
}

impl BinOut {
    pub fn died(&self) -> bool {
        self.timed_out || self.signal.is_some() || matches!(self.code, Some(101) | Some(134))
    }
}

#[derive(Clone, Default)]
pub struct Opts {
    pub env: Vec<(OsString, OsString)>,
    /// RLIMIT_STACK soft+hard in bytes (None = inherit; Some(u64::MAX) = unlimited)
    pub stack: Option<u64>,
    /// leave the hard RLIMIT_STACK alone: `stack` sets only the soft limit (what the kernel uses)
    pub stack_soft_only: bool,
    /// RLIMIT_NOFILE soft+hard (None = inherit)
    pub nofile: Option<u64>,
    pub uid: Option<u32>,
    pub stdin: Option<Vec<u8>>,
    pub timeout_s: u64,
}

pub fn repo_bin(name: &str) -> std::path::PathBuf {
    crate::engine::repo_bin_dir().join(name)
}

pub fn run(program: &Path, args: &[&OsStr], cwd: &Path, o: &Opts) -> BinOut {
    let mut c = Command::new(program);
    c.args(args).current_dir(cwd).env_clear().env("PATH", "/usr/bin:/bin").env("LC_ALL", "C").env("TZ", "UTC");
    for (k, v) in &o.env {
        c.env(k, v);
    }
    c.stdin(if o.stdin.is_some() { Stdio::piped() } else { Stdio::null() }).stdout(Stdio::piped()).stderr(Stdio::piped());
    if let Some(u) = o.uid {
        c.uid(u).gid(u);
    }
    if let Some(s) = o.stack {
        let soft_only = o.stack_soft_only;
        unsafe {
            c.pre_exec(move || {
                let mut lim = libc::rlimit { rlim_cur: if s == u64::MAX { libc::RLIM_INFINITY } else { s }, rlim_max: if s == u64::MAX { libc::RLIM_INFINITY } else { s } };
                if soft_only {
                    let mut old = libc::rlimit { rlim_cur: 0, rlim_max: 0 };
                    if libc::getrlimit(libc::RLIMIT_STACK, &mut old) == 0 {
                        lim.rlim_max = old.rlim_max;
                    }
                }
                if libc::setrlimit(libc::RLIMIT_STACK, &lim) != 0 {
                    return Err(std::io::Error::last_os_error());
                }
                Ok(())
            });
        }
    }
    if let Some(n) = o.nofile {
        unsafe {
            c.pre_exec(move || {
                let lim = libc::rlimit { rlim_cur: n, rlim_max: n };
                if libc::setrlimit(libc::RLIMIT_NOFILE, &lim) != 0 {
                    return Err(std::io::Error::last_os_error());
                }
                Ok(())
            });
        }
    }
    let mut ch = match c.spawn() {
        Ok(c) => c,
        Err(e) => return BinOut { code: None, signal: None, timed_out: false, out: vec![], err: format!("spawn failed: {e}").into_bytes() },
    };
    let stdin_data = o.stdin.clone();
    let mut si = ch.stdin.take();
    let writer = std::thread::spawn(move || {
        if let (Some(mut s), Some(d)) = (si.take(), stdin_data) {
            let _ = s.write_all(&d);
        }
    });
    let mut so = ch.stdout.take().unwrap();
    let mut se = ch.stderr.take().unwrap();
    let t1 = std::thread::spawn(move || {
        let mut b = vec![];
        let _ = so.read_to_end(&mut b);
        b
    });
    let t2 = std::thread::spawn(move || {
        let mut b = vec![];
        let _ = se.read_to_end(&mut b);
        b
    });
    let t0 = std::time::Instant::now();
    let limit = if o.timeout_s == 0 { 120 } else { o.timeout_s };
    let mut timed_out = false;
    let status = loop {
        match ch.try_wait() {
            Ok(Some(st)) => break Some(st),
            Ok(None) => {
                if t0.elapsed().as_secs() >= limit {
                    timed_out = true;
                    let _ = ch.kill();
                    break ch.wait().ok();
                }
                std::thread::sleep(std::time::Duration::from_micros(300));
            }
            Err(_) => break None,
        }
    };
    let _ = writer.join();
    let out = t1.join().unwrap_or_default();
    let err = t2.join().unwrap_or_default();
    BinOut { code: status.and_then(|s| s.code()), signal: status.and_then(|s| s.signal()), timed_out, out, err }
}

/// `A | B` with a real pipe: stdout of the first program is the stdin of the second.
pub fn pipeline(p1: &Path, a1: &[&OsStr], p2: &Path, a2: &[&OsStr], cwd: &Path, env: &[(OsString, OsString)]) -> (BinOut, BinOut) {
    let mk = |p: &Path, a: &[&OsStr]| {
        let mut c = Command::new(p);
        c.args(a).current_dir(cwd).env_clear().env("PATH", "/usr/bin:/bin").env("LC_ALL", "C");
        for (k, v) in env {
            c.env(k, v);
        }
        c
    };
    let mut c1 = mk(p1, a1);
    c1.stdin(Stdio::null()).stdout(Stdio::piped()).stderr(Stdio::piped());
    let mut ch1 = match c1.spawn() {
        Ok(c) => c,
        Err(e) => {
            let b = BinOut { code: None, signal: None, timed_out: false, out: vec![], err: format!("spawn failed: {e}").into_bytes() };
            return (b.clone(), b);
        }
    };
    let out1 = ch1.stdout.take().unwrap();
    let mut c2 = mk(p2, a2);
    c2.stdin(Stdio::from(out1)).stdout(Stdio::piped()).stderr(Stdio::piped());
    let ch2 = c2.spawn();
    let mut e1 = vec![];
    if let Some(mut s) = ch1.stderr.take() {
        let _ = s.read_to_end(&mut e1);
    }
    let st1 = ch1.wait().ok();
    let b1 = BinOut { code: st1.and_then(|s| s.code()), signal: st1.and_then(|s| s.signal()), timed_out: false, out: vec![], err: e1 };
    let b2 = match ch2 {
        Ok(ch2) => match ch2.wait_with_output() {
            Ok(o) => BinOut { code: o.status.code(), signal: o.status.signal(), timed_out: false, out: o.stdout, err: o.stderr },
            Err(e) => BinOut { code: None, signal: None, timed_out: false, out: vec![], err: e.to_string().into_bytes() },
        },
        Err(e) => BinOut { code: None, signal: None, timed_out: false, out: vec![], err: format!("spawn failed: {e}").into_bytes() },
    };
    (b1, b2)
}
