//! C04 xargs batching — explicit-state search over the implementation's own batching state
//! (hook H3: limiter counters, batch under construction, pending flag, sticky result),
//! driven through the real `xargs_main -a FILE` (option parser, normalize_options, reader,
//! limiter chain, process_input), with every explored history checked end-to-end against a
//! reference batcher. Child invocations are intercepted by hook H2.

use crate::engine::{Ctx, Prop, Spec, Tier};
use crate::model::xargs::{batch, BatchCfg, Term};
use crate::xargsrun::{run_xargs, Outcome, XOut};
use serde_json::{json, Value};
use std::collections::{HashSet, VecDeque};

pub const PROP: Prop = Prop {
    id: "C04",
    spec,
    run,
    replay,
};

#[derive(Clone, Debug, PartialEq)]
enum Mode {
    None,
    N(usize),
    L(usize),
    /// both given: (n, l, l_is_last)
    Both(usize, usize, bool),
}

#[derive(Clone, Debug)]
struct Cfg {
    mode: Mode,
    /// -s = base + delta
    s_delta: Option<usize>,
    x: bool,
    r: bool,
    initial: Vec<&'static str>,
}

const CMD: &str = "cmd";
/// argument shapes: byte lengths 1,2,3,6 of an ASCII letter, one 2-byte, 1-character argument (é),
/// and the empty argument (written "" in the input)
const LENS: [usize; 6] = [1, 2, 3, 6, 2, 0];
const TERMS: [&str; 3] = [" ", "\n", " \n"];

impl Cfg {
    fn base_cost(&self) -> usize {
        CMD.len() + 1 + self.initial.iter().map(|a| a.len() + 1).sum::<usize>()
    }
    fn argv(&self, file: &str) -> Vec<String> {
        let mut a: Vec<String> = vec!["-a".into(), file.into()];
        match &self.mode {
            Mode::None => {}
            Mode::N(n) => a.push(format!("-n{n}")),
            Mode::L(l) => a.push(format!("-L{l}")),
            Mode::Both(n, l, l_last) => {
                if *l_last {
                    a.push(format!("-n{n}"));
                    a.push(format!("-L{l}"));
                } else {
                    a.push(format!("-L{l}"));
                    a.push(format!("-n{n}"));
                }
            }
        }
        if let Some(d) = self.s_delta {
            a.push("-s".into());
            a.push((self.base_cost() + d).to_string());
        }
        if self.x {
            a.push("-x".into());
        }
        if self.r {
            a.push("-r".into());
        }
        a.push(CMD.into());
        a.extend(self.initial.iter().map(|s| s.to_string()));
        a
    }
    fn reference(&self) -> BatchCfg {
        let (n, l) = match &self.mode {
            Mode::None => (None, None),
            Mode::N(n) => (Some(*n), None),
            Mode::L(l) => (None, Some(*l)),
            // mutually exclusive: the option given last decides
            Mode::Both(n, l, l_last) => {
                if *l_last {
                    (None, Some(*l))
                } else {
                    (Some(*n), None)
                }
            }
        };
        let mut base: Vec<Vec<u8>> = vec![CMD.as_bytes().to_vec()];
        base.extend(self.initial.iter().map(|s| s.as_bytes().to_vec()));
        BatchCfg {
            max_args: n,
            max_lines: l,
            max_chars: self.s_delta.map(|d| self.base_cost() + d),
            exit_if_too_long: self.x,
            no_run_if_empty: self.r,
            base,
        }
    }
    /// is the state space finite (some limit bounds the batch under construction)?
    fn bounded(&self) -> bool {
        self.s_delta.is_some() || matches!(self.mode, Mode::N(_) | Mode::Both(_, _, false))
    }
    fn describe(&self) -> String {
        format!("{:?} s={:?} x={} r={} initial={:?}", self.mode, self.s_delta.map(|d| format!("base+{d}")), self.x, self.r, self.initial)
    }
}

fn configs(t: Tier) -> Vec<Cfg> {
    let modes = vec![
        Mode::None,
        Mode::N(1),
        Mode::N(2),
        Mode::N(3),
        Mode::L(1),
        Mode::L(2),
        Mode::Both(2, 1, true),
        Mode::Both(1, 2, false),
    ];
    let deltas: Vec<Option<usize>> = match t {
        Tier::Quick => vec![None, Some(1), Some(2), Some(4), Some(5), Some(7), Some(9)],
        Tier::Thorough => std::iter::once(None).chain((1..=9).map(Some)).collect(),
    };
    let initials: Vec<Vec<&'static str>> = match t {
        Tier::Quick => vec![vec![], vec!["ii", "j"]],
        Tier::Thorough => vec![vec![], vec!["i"], vec!["ii", "j"]],
    };
    let mut v = vec![];
    for mode in &modes {
        for d in &deltas {
            for x in [false, true] {
                for r in [false, true] {
                    for ini in &initials {
                        v.push(Cfg { mode: mode.clone(), s_delta: *d, x, r, initial: ini.clone() });
                    }
                }
            }
        }
    }
    v
}

/// symbol = (length index, terminator index)
type Sym = (u8, u8);

fn input_of(h: &[Sym]) -> (Vec<u8>, Vec<(Vec<u8>, Term)>) {
    let mut bytes = vec![];
    let mut toks = vec![];
    for (i, (li, ti)) in h.iter().enumerate() {
        let arg: Vec<u8> = if *li == 4 { "\u{e9}".as_bytes().to_vec() } else { vec![b'a' + (i % 26) as u8; LENS[*li as usize]] };
        if *li == 5 {
            bytes.extend_from_slice(b"\"\"");
        } else {
            bytes.extend_from_slice(&arg);
        }
        bytes.extend_from_slice(TERMS[*ti as usize].as_bytes());
        // " " continues the line, "\n" ends it, " \n": a line ending in a blank continues
        toks.push((arg, if TERMS[*ti as usize] == "\n" { Term::Hard } else { Term::Soft }));
    }
    (bytes, toks)
}

fn hist_str(h: &[Sym]) -> String {
    h.iter().map(|(l, t)| format!("{}{}", if *l == 4 { "é".to_string() } else if *l == 5 { "\"\"".to_string() } else { LENS[*l as usize].to_string() }, ["_", "$", "_$"][*t as usize])).collect::<Vec<_>>().join(" ")
}

/// Returns (signature, detail) if the run violates the batching property.
fn judge(cfg: &Cfg, toks: &[(Vec<u8>, Term)], got: &XOut) -> Option<(String, String)> {
    let rc = cfg.reference();
    let want = batch(&rc, toks);
    if let Err(p) = &got.code {
        return Some((format!("C04 xargs panicked at {}", p.split(':').take(2).collect::<Vec<_>>().join(":")), p.clone()));
    }
    let base = &rc.base;
    let show = |b: &Vec<Vec<Vec<u8>>>| format!("{:?}", b.iter().map(|x| x.iter().map(|a| String::from_utf8_lossy(a).to_string()).collect::<Vec<_>>()).collect::<Vec<_>>());
    let mut appended: Vec<Vec<Vec<u8>>> = vec![];
    for inv in &got.inv {
        if inv.len() < base.len() || inv[..base.len()] != base[..] {
            return Some(("C04 an invocation does not begin with the unchanged command and initial arguments".into(), format!("invocation {:?}", inv.iter().map(|a| String::from_utf8_lossy(a).to_string()).collect::<Vec<_>>())));
        }
        appended.push(inv[base.len()..].to_vec());
    }
    let detail = || format!("expected batches {} fatal={:?}\n actual batches   {} status {:?} stderr {:?}", show(&want.batches), want.fatal, show(&appended), got.code, String::from_utf8_lossy(&got.err).lines().last().unwrap_or(""));
    let kind = if cfg.s_delta.is_some() { "with -s" } else { "without -s" };
    match want.fatal {
        None => {
            if appended != want.batches {
                let flat_a: Vec<&Vec<u8>> = appended.iter().flatten().collect();
                let flat_w: Vec<&Vec<u8>> = want.batches.iter().flatten().collect();
                let what = if toks.is_empty() {
                    "empty input: wrong number of runs"
                } else if flat_a != flat_w {
                    "arguments lost, duplicated or reordered"
                } else if appended.len() < want.batches.len() {
                    "a batch exceeds a limit"
                } else {
                    "a batch is not maximal / boundary in the wrong place"
                };
                return Some((format!("C04 {what} [{:?} {kind}]", mode_class(&cfg.mode)), detail()));
            }
            if got.code != Ok(0) {
                return Some((format!("C04 non-zero exit status although every limit could be met [{:?} {kind}]", mode_class(&cfg.mode)), detail()));
            }
        }
        Some(_) => {
            // the invocations made must be a prefix of the reference batches: either exactly the
            // completed ones, or those plus the batch that was pending at the fatal point
            let n = appended.len();
            let ok_prefix = n <= want.batches.len() + 1 && appended.iter().zip(want.batches.iter()).all(|(a, w)| a == w) && n >= want.batches.len();
            let pending_ok = n <= want.batches.len() || {
                // one extra batch: must be a contiguous run of the input following the completed batches
                let consumed: usize = want.batches.iter().map(|b| b.len()).sum();
                let extra = &appended[n - 1];
                toks.len() >= consumed + extra.len() && extra.iter().zip(toks[consumed..].iter()).all(|(a, t)| *a == t.0)
            };
            if !(ok_prefix && pending_ok) {
                return Some((format!("C04 after a fatal size overflow the invocations made are not a prefix of the reference batches [{:?}]", mode_class(&cfg.mode)), detail()));
            }
            if got.code != Ok(1) || got.err.is_empty() {
                return Some((format!("C04 unfittable argument / -x overflow not reported with exit status 1 and a diagnostic [{:?}]", mode_class(&cfg.mode)), detail()));
            }
        }
    }
    None
}

fn mode_class(m: &Mode) -> &'static str {
    match m {
        Mode::None => "no -n/-L",
        Mode::N(_) => "-n",
        Mode::L(_) => "-L",
        Mode::Both(_, _, true) => "-n then -L",
        Mode::Both(_, _, false) => "-L then -n",
    }
}

fn exec(cfg: &Cfg, file: &std::path::Path, h: &[Sym]) -> (XOut, Vec<(Vec<u8>, Term)>) {
    let (bytes, toks) = input_of(h);
    std::fs::write(file, &bytes).unwrap();
    let av = cfg.argv(file.to_str().unwrap());
    let args: Vec<&str> = av.iter().map(|s| s.as_str()).collect();
    let got = run_xargs(&args, &mut |_, _| Outcome::Exit(0));
    (got, toks)
}

#[derive(Hash, PartialEq, Eq, Clone)]
struct Key {
    snap: Option<findutils::xargs::verif_hooks::Snapshot>,
    last_term: u8,
    /// fatal runs are terminal states
    dead: bool,
}

fn explore(ctx: &mut Ctx, cfg: &Cfg, depth_cap: usize) {
    let file = ctx.sbx.join(".mc-xin");
    let mut seen: HashSet<Key> = HashSet::new();
    let mut frontier: VecDeque<Vec<Sym>> = VecDeque::new();
    // initial state (empty input): also a checked history
    let (got, toks) = exec(cfg, &file, &[]);
    ctx.rep.evaluations += 1;
    if let Some((sig, detail)) = judge(cfg, &toks, &got) {
        ctx.rep.violation(&sig, format!("config {} ; empty input\n {detail}", cfg.describe()), case_json(cfg, &[]));
    }
    seen.insert(Key { snap: None, last_term: 9, dead: false });
    frontier.push_back(vec![]);
    let mut max_depth = 0;
    let mut capped = false;
    let mut violations_here = 0u32;
    while let Some(h) = frontier.pop_front() {
        if h.len() >= depth_cap {
            capped = true;
            continue;
        }
        for li in 0..LENS.len() as u8 {
            for ti in 0..TERMS.len() as u8 {
                let mut h2 = h.clone();
                h2.push((li, ti));
                let (got, toks) = exec(cfg, &file, &h2);
                ctx.rep.evaluations += 1;
                ctx.rep.nontrivial += 1;
                ctx.rep.transitions += 1;
                let mut violated = false;
                if let Some((sig, detail)) = judge(cfg, &toks, &got) {
                    let (g2, _) = exec(cfg, &file, &h2);
                    if g2 != got {
                        ctx.rep.machinery(format!("nondeterministic run: {} / {}", cfg.describe(), hist_str(&h2)));
                    } else {
                        ctx.rep.violation(&sig, format!("config {} ; history [{}] (argv xargs {:?})\n {detail}", cfg.describe(), hist_str(&h2), cfg.argv("FILE")), case_json(cfg, &h2));
                        violated = true;
                        violations_here += 1;
                    }
                }
                ctx.rep.class(&format!("status={:?} batches={}", got.code.as_ref().map(|c| *c).unwrap_or(101), got.inv.len().min(6)));
                // a history that already violates the property is not extended (its extensions
                // would only repeat it), and a configuration with many violating histories is
                // abandoned: the state space of broken code need not be finite
                let dead = got.code != Ok(0) || violated;
                if violations_here >= 200 {
                    ctx.rep.count("configs_abandoned_after_200_violating_histories", 1);
                    ctx.rep.states += seen.len() as u64;
                    return;
                }
                let key = Key { snap: got.snaps.last().cloned(), last_term: ti, dead };
                if seen.insert(key) {
                    max_depth = max_depth.max(h2.len());
                    if !dead {
                        frontier.push_back(h2);
                    }
                }
            }
        }
    }
    ctx.rep.states += seen.len() as u64;
    if capped {
        ctx.rep.count("configs_explored_to_depth_cap(unbounded_state_space)", 1);
    } else {
        ctx.rep.count("configs_explored_to_closure", 1);
    }
    let cur = ctx.rep.extra.get("max_closure_depth").and_then(|v| v.as_u64()).unwrap_or(0);
    if !capped && max_depth as u64 > cur {
        ctx.rep.extra.insert("max_closure_depth".into(), json!(max_depth));
    }
    if capped && cfg.bounded() {
        ctx.rep.caps_hit.push(format!("depth cap {depth_cap} hit on a bounded configuration: {}", cfg.describe()));
    }
}

/// Cross-check of the canonicalisation: plain enumeration without hashing.
fn plain_enum(ctx: &mut Ctx, cfg: &Cfg, maxlen: usize) {
    let file = ctx.sbx.join(".mc-xin");
    let mut h: Vec<Sym> = vec![];
    fn rec(ctx: &mut Ctx, cfg: &Cfg, file: &std::path::Path, h: &mut Vec<Sym>, maxlen: usize) {
        if !h.is_empty() {
            let (got, toks) = exec(cfg, file, h);
            ctx.rep.evaluations += 1;
            ctx.rep.count("plain_enumeration_runs", 1);
            if let Some((sig, detail)) = judge(cfg, &toks, &got) {
                ctx.rep.violation(&sig, format!("config {} ; history [{}]\n {detail}", cfg.describe(), hist_str(h)), case_json(cfg, h));
            }
        }
        if h.len() == maxlen {
            return;
        }
        for li in 0..LENS.len() as u8 {
            for ti in 0..TERMS.len() as u8 {
                h.push((li, ti));
                rec(ctx, cfg, file, h, maxlen);
                h.pop();
            }
        }
    }
    rec(ctx, cfg, &file, &mut h, maxlen);
}

fn case_json(cfg: &Cfg, h: &[Sym]) -> Value {
    let (n, l, l_last) = match &cfg.mode {
        Mode::None => (0, 0, false),
        Mode::N(n) => (*n, 0, false),
        Mode::L(l) => (0, *l, true),
        Mode::Both(n, l, ll) => (*n, *l, *ll),
    };
    json!({"prop":"C04","n":n,"l":l,"l_last":l_last,"s_delta":cfg.s_delta,"x":cfg.x,"r":cfg.r,"initial":cfg.initial,"history":h.iter().map(|(a,b)| vec![*a,*b]).collect::<Vec<_>>(), "argv": cfg.argv("FILE"), "input": String::from_utf8_lossy(&input_of(h).0)})
}

fn cfg_from_json(v: &Value) -> Option<(Cfg, Vec<Sym>)> {
    let n = v["n"].as_u64()? as usize;
    let l = v["l"].as_u64()? as usize;
    let ll = v["l_last"].as_bool()?;
    let mode = match (n, l) {
        (0, 0) => Mode::None,
        (n, 0) => Mode::N(n),
        (0, l) => Mode::L(l),
        (n, l) => Mode::Both(n, l, ll),
    };
    let initial: Vec<&'static str> = v["initial"].as_array()?.iter().filter_map(|x| ["i", "ii", "j"].into_iter().find(|k| Some(*k) == x.as_str())).collect();
    let h: Vec<Sym> = v["history"].as_array()?.iter().filter_map(|p| Some((p[0].as_u64()? as u8, p[1].as_u64()? as u8))).collect();
    Some((Cfg { mode, s_delta: v["s_delta"].as_u64().map(|d| d as usize), x: v["x"].as_bool()?, r: v["r"].as_bool()?, initial }, h))
}

fn spec(t: Tier) -> Spec {
    Spec {
        id: "C04",
        level: "model_checking",
        rule: format!("{} configurations (mode in none,-n1,-n2,-n3,-L1,-L2,'-n2 -L1','-L2 -n1' x -s in absent, base+k x -x x -r x initial args); for each an explicit-state BFS over the implementation's own batching state (hook H3 snapshot: every limiter's counters, lengths of the batch under construction, pending flag, sticky result; plus the reader's unconsumed terminator) from the empty history, input symbols = argument in {{1,2,3,6 ASCII bytes, 'é' (2 bytes, 1 character), the empty argument written \"\"}} x terminator in {{blank, newline, blank+newline}}; a state seen before is not expanded; every expanded history is run to EOF through the real xargs_main and its invocations (hook H2) compared with the reference greedy batcher (lossless, in order, command+initial args unchanged, -n/-L/-s respected simultaneously, maximal, empty-input rule, fatal overflow rule); configurations whose state space is finite are explored to closure, the unbounded ones (no -s and no -n) to depth {}; plain enumeration without hashing to depth {} cross-checks the canonicalisation; scale slice: inputs of 100, 1000 and 5000 arguments (lengths cycling 1..13 bytes, é and empty arguments interspersed, lines of 1..5 arguments, some ending in a blank) under -n 7|64|1000, -L 3|100, both orders of -n/-L, -s base+50|1000|5000|100000, -x on/off, with/without initial arguments, each end to end against the reference batcher; spelling slice: every way of writing -n, -L, -s, -x, -r, -P 1 and -a FILE (separate, attached, long, long with '=') on four inputs gives the invocations, status and diagnostics-or-not of the first spelling; echo slice: xargs without a command writing to a pipe, four runs ending with an error (unterminated quote, oversized argument, -x overflow) and two ending normally: what the command lines already run wrote has arrived, status 1 / 0; binary slice: all histories <= {} for 8 configurations through the xargs binary and a recorder child", configs(t).len(), t.pick(3, 4), t.pick(2, 3), t.pick(2, 3)),
        bound: json!({"configs": configs(t).len(), "symbols": 18, "closure_depth_cap": 12, "unbounded_depth": t.pick(3, 4)}),
        assumptions: vec![
            "when -n and -L are both given the one given last decides (they are mutually exclusive)".into(),
            "on a fatal overflow either 'pending batch run first' or 'stop at once' is accepted".into(),
        ],
        shards: 0,
        wall_cap_s: t.pick(300, 3600),
    }
}

fn run(ctx: &mut Ctx) {
    let cfgs = configs(ctx.tier);
    let unb_depth = ctx.tier.pick(3, 4);
    let plain_depth = ctx.tier.pick(2, 3);
    for (i, cfg) in cfgs.iter().enumerate() {
        if !ctx.mine(i as u64) {
            continue;
        }
        ctx.progress(i as u64);
        ctx.progress_note(&cfg.describe());
        explore(ctx, cfg, if cfg.bounded() { 12 } else { unb_depth });
        if i % 7 == 0 {
            plain_enum(ctx, cfg, plain_depth);
        }
        if ctx.rep.samples.len() < 2 {
            ctx.rep.sample(json!({"config": cfg.describe(), "argv": cfg.argv("FILE"), "example_history": "2_ 1$ 6_$  (length + terminator: _ blank, $ newline)"}));
        }
    }
    scale_slice(ctx);
    if ctx.shard == 1 % ctx.nshards {
        spelling_slice(ctx);
    }
    if ctx.shard == 2 % ctx.nshards {
        echo_then_error_slice(ctx);
    }
    binary_slice(ctx);
    let _ = std::fs::remove_file(ctx.sbx.join(".mc-xin"));
}

/// Every way of writing each limit option (-n 2, -n2, --max-args 2, --max-args=2; likewise -L,
/// -s; -x / --exit; -r / --no-run-if-empty; -a FILE / -aFILE / --arg-file FILE / --arg-file=FILE;
/// -P 1 in its four forms, which changes nothing) must give the invocations, exit status and
/// diagnostics-or-not of the first spelling of its family (which the search above judges against
/// the reference batcher), on four inputs.
pub fn spelling_slice(ctx: &mut Ctx) {
    let file = ctx.sbx.join(".mc-xin");
    let f = file.to_str().unwrap().to_string();
    let inputs: [&[u8]; 4] = [b"a b c\nd e\nf\n g h i j\n", b"", b"aaaa bbbb cccc dddd eeee ffff\n'x y' z\n", b"aaaaaaaaaaaaaaaaaaaaaaaaaaaaaaaa b\n"];
    let fam = |v: &[&[&str]]| -> Vec<Vec<String>> { v.iter().map(|a| a.iter().map(|s| s.to_string()).collect()).collect() };
    let families: Vec<(&str, Vec<Vec<String>>)> = vec![
        ("-n", fam(&[&["-n", "2"], &["-n2"], &["--max-args", "2"], &["--max-args=2"]])),
        ("-L", fam(&[&["-L", "2"], &["-L2"], &["--max-lines", "2"], &["--max-lines=2"]])),
        ("-s", fam(&[&["-s", "24"], &["-s24"], &["--max-chars", "24"], &["--max-chars=24"]])),
        ("-x", fam(&[&["-s", "24", "-n", "3", "-x"], &["-s", "24", "-n", "3", "--exit"], &["--exit", "--max-chars=24", "--max-args=3"], &["-x", "-s24", "-n3"]])),
        ("-r", fam(&[&["-r"], &["--no-run-if-empty"]])),
        ("-r with -n", fam(&[&["-r", "-n", "2"], &["--no-run-if-empty", "--max-args=2"], &["-n2", "-r"]])),
        ("-P 1", fam(&[&["-n", "2"], &["-P", "1", "-n", "2"], &["-P1", "-n", "2"], &["--max-procs", "1", "-n", "2"], &["--max-procs=1", "-n", "2"]])),
        ("-n with -L (last wins)", fam(&[&["-L", "1", "-n", "2"], &["--max-lines=1", "--max-args=2"], &["-L1", "-n2"], &["--max-lines", "1", "-n", "2"], &["-L", "1", "--max-args", "2"]])),
        ("-L with -n (last wins)", fam(&[&["-n", "3", "-L", "1"], &["--max-args=3", "--max-lines=1"], &["-n3", "-L1"], &["-n", "3", "--max-lines=1"], &["--max-args", "3", "-L", "1"], &["-n", "3", "--max-lines", "1"]])),
        ("-L with -s and -x", fam(&[&["-L", "1", "-s", "24", "-x"], &["--max-lines=1", "--max-chars=24", "--exit"], &["-x", "-s24", "-L1"]])),
    ];
    let afile: Vec<Vec<String>> = vec![vec!["-a".into(), f.clone()], vec![format!("-a{f}")], vec!["--arg-file".into(), f.clone()], vec![format!("--arg-file={f}")]];
    for input in inputs {
        std::fs::write(&file, input).unwrap();
        for (name, spellings) in &families {
            let mut first: Option<(Vec<Vec<Vec<u8>>>, Result<i32, String>, bool)> = None;
            for (si, sp) in spellings.iter().enumerate() {
                // the -a spellings are cycled through along with the option's own
                let mut av: Vec<String> = afile[si % afile.len()].clone();
                av.extend(sp.iter().cloned());
                av.extend(["cmd".to_string(), "init".to_string()]);
                let args: Vec<&str> = av.iter().map(|s| s.as_str()).collect();
                let got = run_xargs(&args, &mut |_, _| Outcome::Exit(0));
                ctx.rep.evaluations += 1;
                ctx.rep.nontrivial += 1;
                ctx.rep.count("option_spelling_runs", 1);
                let obs = (got.inv.clone(), got.code.clone(), got.err.is_empty());
                match &first {
                    None => first = Some(obs),
                    Some(f0) if *f0 != obs => {
                        ctx.rep.violation(
                            &format!("C04 one spelling of {name} (or of -a FILE) does not behave like the others"),
                            format!("input {:?}: xargs {:?} gives {} invocation(s) {:?}, status {:?}, stderr {:?}\n the first spelling {:?} gives {} invocation(s) {:?}, status {:?}", String::from_utf8_lossy(input), av, got.inv.len(), show_inv(&got.inv), got.code, String::from_utf8_lossy(&got.err), spellings[0], f0.0.len(), show_inv(&f0.0), f0.1),
                            json!({"prop":"C04","spelling":name}),
                        );
                    }
                    _ => {}
                }
            }
        }
    }
}

fn show_inv(inv: &[Vec<Vec<u8>>]) -> Vec<String> {
    inv.iter().take(6).map(|a| a.iter().map(|x| String::from_utf8_lossy(x).to_string()).collect::<Vec<_>>().join(" ")).collect()
}

/// Inputs far longer than the state-space search reaches: N = 100, 1000, 5000 arguments (lengths
/// cycling through 1..13 bytes, every 11th the 2-byte é, every 17th empty (""), terminators cycling
/// blank / newline / blank+newline with lines of 1..5 arguments) under limits that only bind after many
/// arguments: -n 7|64|1000, -L 3|100, -s base+50|1000|5000|100000, -x on/off, with and without
/// initial arguments; each run end to end against the reference batcher.
fn scale_slice(ctx: &mut Ctx) {
    let file = ctx.sbx.join(".mc-xin");
    let modes = [Mode::None, Mode::N(7), Mode::N(64), Mode::N(1000), Mode::L(3), Mode::L(100), Mode::Both(64, 3, true), Mode::Both(3, 64, false)];
    let deltas = [None, Some(50usize), Some(1000), Some(5000), Some(100_000)];
    let mut job = 0u64;
    for n in [100usize, 1000, 5000] {
        let mut bytes: Vec<u8> = vec![];
        let mut toks: Vec<(Vec<u8>, Term)> = vec![];
        for i in 0..n {
            let arg: Vec<u8> = if i % 17 == 16 {
                vec![]
            } else if i % 11 == 10 {
                "\u{e9}".as_bytes().to_vec()
            } else {
                vec![b'a' + (i % 26) as u8; 1 + (i * 7) % 13]
            };
            if arg.is_empty() {
                bytes.extend_from_slice(b"\"\"");
            } else {
                bytes.extend_from_slice(&arg);
            }
            // lines of 1..5 arguments; every third line ends in a blank before the newline
            let line_len = 1 + (i / 5) % 5;
            let ends_line = i % line_len == line_len - 1;
            let term = if !ends_line {
                " "
            } else if (i / 3) % 3 == 0 {
                " \n"
            } else {
                "\n"
            };
            bytes.extend_from_slice(term.as_bytes());
            toks.push((arg, if term == "\n" { Term::Hard } else { Term::Soft }));
        }
        for mode in &modes {
            for d in deltas {
                for x in [false, true] {
                    for initial in [vec![], vec!["ii", "j"]] {
                        job += 1;
                        if job % ctx.nshards != ctx.shard {
                            continue;
                        }
                        let cfg = Cfg { mode: mode.clone(), s_delta: d, x, r: false, initial };
                        std::fs::write(&file, &bytes).unwrap();
                        let av = cfg.argv(file.to_str().unwrap());
                        let args: Vec<&str> = av.iter().map(|s| s.as_str()).collect();
                        let got = run_xargs(&args, &mut |_, _| Outcome::Exit(0));
                        ctx.rep.evaluations += 1;
                        ctx.rep.nontrivial += 1;
                        ctx.rep.count("scale_runs", 1);
                        ctx.rep.count("scale_invocations_checked", got.inv.len() as u64);
                        if let Some((sig, detail)) = judge(&cfg, &toks, &got) {
                            let d = if detail.len() > 1200 { format!("{}...", detail.chars().take(1200).collect::<String>()) } else { detail };
                            ctx.rep.violation(&sig, format!("scale slice: {n} arguments, config {} (argv xargs {:?})\n {d}", cfg.describe(), cfg.argv("FILE")), json!({"prop":"C04","scale":true}));
                        }
                    }
                }
            }
        }
    }
}

/// xargs without a command (its own echo) whose run ends with an error: what the earlier command lines
/// wrote has reached standard output (a pipe) when xargs exits 1 — nothing already processed is lost.
fn echo_then_error_slice(ctx: &mut Ctx) {
    use std::ffi::OsStr;
    let sbx = ctx.sbx.clone();
    let cases: Vec<(Vec<&str>, &[u8], &str, i32)> = vec![
        (vec!["-n1"], b"a b\nc \"d\n", "a\nb\n", 1),
        // (whether the last complete command line before the error still runs is not stated: only the
        // ones that were dispatched because a further argument had arrived are required)
        (vec!["-n2"], b"a b c d 'e\n", "a b\n", 1),
        (vec!["-L1", "-s", "12", "-x"], b"aa\nbb\ncccccccccccccccccc dddd\n", "aa\nbb\n", 1),
        (vec!["-s", "12", "-n1"], b"aa\nbb\ncccccccccccccccccc\nzz\n", "aa\nbb\n", 1),
        (vec!["-n1"], b"a b\nc d\n", "a\nb\nc\nd\n", 0),
        (vec!["-t", "-n1"], b"a b\n", "a\nb\n", 0),
    ];
    for (opts, input, want_prefix, want_code) in cases {
        let args: Vec<&OsStr> = opts.iter().map(OsStr::new).collect();
        let o = crate::binrun::run(&crate::binrun::repo_bin("xargs"), &args, &sbx, &crate::binrun::Opts { stdin: Some(input.to_vec()), timeout_s: 30, ..Default::default() });
        ctx.rep.evaluations += 1;
        ctx.rep.nontrivial += 1;
        ctx.rep.count("echo_then_error_cases", 1);
        let out = String::from_utf8_lossy(&o.out).to_string();
        if o.code != Some(want_code) || !out.starts_with(want_prefix) || (want_code == 0 && out != want_prefix) {
            ctx.rep.violation(
                "C04 xargs' own echo: the output of command lines already run is lost (or the status is wrong) when the run ends",
                format!("xargs {:?} < {:?} | cat: status {:?} (expected {want_code}), standard output {:?} (must begin with {:?}); stderr {:?}", opts, String::from_utf8_lossy(input), o.code, out, want_prefix, String::from_utf8_lossy(&o.err).lines().take(2).collect::<Vec<_>>()),
                json!({"prop":"C04","echo_then_error":true}),
            );
        }
    }
}

fn binary_slice(ctx: &mut Ctx) {
    let maxlen = ctx.tier.pick(2, 3);
    let vrec = crate::engine::self_bin_dir().join("vrec");
    let log = ctx.sbx.join(".mc-vrec.log");
    let file = ctx.sbx.join(".mc-xin");
    let picks = [
        Cfg { mode: Mode::None, s_delta: None, x: false, r: false, initial: vec![] },
        Cfg { mode: Mode::N(2), s_delta: None, x: false, r: true, initial: vec!["i"] },
        Cfg { mode: Mode::L(1), s_delta: None, x: false, r: false, initial: vec![] },
        Cfg { mode: Mode::L(2), s_delta: Some(6), x: false, r: false, initial: vec![] },
        Cfg { mode: Mode::None, s_delta: Some(5), x: false, r: false, initial: vec!["ii", "j"] },
        Cfg { mode: Mode::N(3), s_delta: Some(7), x: true, r: false, initial: vec![] },
        Cfg { mode: Mode::Both(2, 1, true), s_delta: None, x: false, r: false, initial: vec![] },
        Cfg { mode: Mode::N(1), s_delta: Some(2), x: false, r: true, initial: vec![] },
    ];
    let mut hs: Vec<Vec<Sym>> = vec![vec![]];
    let mut h: Vec<Sym> = vec![];
    fn rec(h: &mut Vec<Sym>, maxlen: usize, out: &mut Vec<Vec<Sym>>) {
        if h.len() == maxlen {
            return;
        }
        for li in 0..LENS.len() as u8 {
            for ti in 0..3u8 {
                h.push((li, ti));
                out.push(h.clone());
                rec(h, maxlen, out);
                h.pop();
            }
        }
    }
    rec(&mut h, maxlen, &mut hs);
    for cfg in &picks {
        // the recorder replaces "cmd": same length is not needed for the comparison, but -s is
        // computed from the command actually used, so build a config-specific -s
        for h in &hs {
            if !ctx.next_mine() {
                continue;
            }
            let (inproc, _) = exec(cfg, &file, h);
            let (bytes, _) = input_of(h);
            let _ = std::fs::remove_file(&log);
            // same limits relative to the real command line: cmd -> vrec path + log path
            let real_base = vrec.as_os_str().len() + 1 + log.as_os_str().len() + 1 + cfg.initial.iter().map(|a| a.len() + 1).sum::<usize>();
            let mut av: Vec<String> = vec![];
            let proto = cfg.argv("X");
            let mut i = 2; // skip -a X
            while i < proto.len() && proto[i] != CMD {
                if proto[i] == "-s" {
                    av.push("-s".into());
                    av.push((real_base + cfg.s_delta.unwrap()).to_string());
                    i += 2;
                } else {
                    av.push(proto[i].clone());
                    i += 1;
                }
            }
            av.push(vrec.to_string_lossy().to_string());
            av.push(log.to_string_lossy().to_string());
            av.extend(cfg.initial.iter().map(|s| s.to_string()));
            let os: Vec<&std::ffi::OsStr> = av.iter().map(std::ffi::OsStr::new).collect();
            use std::io::Write;
            let (code, _o, _e) = crate::xargsrun::run_xargs_bin(&os, &ctx.sbx, &[], &mut |si| {
                let _ = si.write_all(&bytes);
            });
            ctx.rep.evaluations += 1;
            let recs = crate::vreclog::read(&log).unwrap_or_default();
            let got: Vec<Vec<Vec<u8>>> = recs.into_iter().map(|r| r.args).collect();
            let want: Vec<Vec<Vec<u8>>> = inproc.inv.iter().map(|v| v[1..].to_vec()).collect();
            if got != want || code != inproc.code {
                ctx.rep.violation(
                    "C04 binary-level run differs from the in-process run of the same configuration",
                    format!("config {} history [{}]: in-process {:?} status {:?}; binary {:?} status {:?}", cfg.describe(), hist_str(h), want.len(), inproc.code, got.len(), code),
                    json!({"prop":"C04","binary":true}),
                );
            } else {
                ctx.rep.traces_validated += 1;
            }
        }
    }
    let _ = std::fs::remove_file(&log);
}

fn replay(case: &Value, ctx: &mut Ctx) -> Option<String> {
    if case["echo_then_error"] == true {
        echo_then_error_slice(ctx);
        return ctx.rep.violations.keys().next().cloned();
    }
    if case["spelling"].is_string() {
        spelling_slice(ctx);
        return ctx.rep.violations.keys().next().cloned();
    }
    if case["binary"] == true {
        println!("binary-level cases are replayed by re-running the check");
        return None;
    }
    if case["scale"] == true {
        let (s0, n0) = (ctx.shard, ctx.nshards);
        ctx.shard = 0;
        ctx.nshards = 1;
        scale_slice(ctx);
        ctx.shard = s0;
        ctx.nshards = n0;
        return ctx.rep.violations.keys().next().cloned();
    }
    let (cfg, h) = cfg_from_json(case)?;
    let file = ctx.sbx.join(".mc-xin");
    let (got, toks) = exec(&cfg, &file, &h);
    println!("xargs {:?} < {:?}", cfg.argv("FILE"), String::from_utf8_lossy(&input_of(&h).0));
    match judge(&cfg, &toks, &got) {
        Some((sig, detail)) => {
            ctx.rep.violation(&sig, detail, case.clone());
            Some(sig)
        }
        None => None,
    }
}
