//! Exploration engine: shard workers (one process per core, own cwd / stdout / stderr),
//! report merging, known-findings matching, evidence and replay files.
//!
//! Exit codes of `mc check`: 0 = property held on everything explored (KNOWN-FINDING
//! lines allowed), 1 = at least one VIOLATION not listed in known_findings.json,
//! 2 = machinery failure (never a verdict).

use serde_json::{json, Map, Value};
use std::collections::{BTreeMap, BTreeSet};
use std::io::{Read, Write};
use std::os::unix::io::FromRawFd;
use std::path::{Path, PathBuf};
use std::time::Instant;

#[derive(Clone, Copy, PartialEq, Eq, Debug)]
pub enum Tier {
    Quick,
    Thorough,
}

impl Tier {
    pub fn name(self) -> &'static str {
        match self {
            Tier::Quick => "quick",
            Tier::Thorough => "thorough",
        }
    }
    pub fn pick<T>(self, q: T, t: T) -> T {
        match self {
            Tier::Quick => q,
            Tier::Thorough => t,
        }
    }
}

#[derive(Clone, Debug)]
pub struct Violation {
    pub sig: String,
    pub detail: String,
    pub case: Value,
}

/// What one shard (or the merged run) covered.
#[derive(Default, Debug)]
pub struct Report {
    pub evaluations: u64,
    pub nontrivial: u64,
    pub states: u64,
    pub transitions: u64,
    pub traces_validated: u64,
    pub counters: BTreeMap<String, u64>,
    pub outcome_classes: BTreeSet<String>,
    pub samples: Vec<Value>,
    /// signature -> (occurrences, first occurrence in enumeration order)
    pub violations: BTreeMap<String, (u64, Violation)>,
    pub caps_hit: Vec<String>,
    pub machinery_errors: Vec<String>,
    pub extra: Map<String, Value>,
}

const MAX_CLASSES: usize = 400;
const MAX_SAMPLES: usize = 8;

impl Report {
    pub fn count(&mut self, key: &str, n: u64) {
        *self.counters.entry(key.to_string()).or_insert(0) += n;
    }
    pub fn class(&mut self, c: &str) {
        if self.outcome_classes.len() < MAX_CLASSES || self.outcome_classes.contains(c) {
            self.outcome_classes.insert(c.to_string());
        }
    }
    pub fn sample(&mut self, v: Value) {
        if self.samples.len() < MAX_SAMPLES {
            self.samples.push(v);
        }
    }
    pub fn violation(&mut self, sig: &str, detail: String, case: Value) {
        let e = self.violations.entry(sig.to_string()).or_insert_with(|| {
            (
                0,
                Violation {
                    sig: sig.to_string(),
                    detail,
                    case,
                },
            )
        });
        e.0 += 1;
    }
    pub fn machinery(&mut self, msg: String) {
        if self.machinery_errors.len() < 20 {
            self.machinery_errors.push(msg);
        }
    }

    pub fn to_json(&self) -> Value {
        json!({
            "evaluations": self.evaluations,
            "nontrivial": self.nontrivial,
            "states": self.states,
            "transitions": self.transitions,
            "traces_validated": self.traces_validated,
            "counters": self.counters,
            "outcome_classes": self.outcome_classes,
            "samples": self.samples,
            "violations": self.violations.iter().map(|(k,(n,v))| json!({"sig":k,"n":n,"detail":v.detail,"case":v.case})).collect::<Vec<_>>(),
            "caps_hit": self.caps_hit,
            "machinery_errors": self.machinery_errors,
            "extra": self.extra,
        })
    }

    pub fn merge_json(&mut self, v: &Value) {
        let u = |k: &str| v[k].as_u64().unwrap_or(0);
        self.evaluations += u("evaluations");
        self.nontrivial += u("nontrivial");
        self.states += u("states");
        self.transitions += u("transitions");
        self.traces_validated += u("traces_validated");
        if let Some(m) = v["counters"].as_object() {
            for (k, n) in m {
                self.count(k, n.as_u64().unwrap_or(0));
            }
        }
        if let Some(a) = v["outcome_classes"].as_array() {
            for c in a {
                self.class(c.as_str().unwrap_or(""));
            }
        }
        if let Some(a) = v["samples"].as_array() {
            // take samples round-robin-ish: at most 2 per shard
            for s in a.iter().take(2) {
                self.sample(s.clone());
            }
        }
        if let Some(a) = v["violations"].as_array() {
            for x in a {
                let sig = x["sig"].as_str().unwrap_or("?").to_string();
                let n = x["n"].as_u64().unwrap_or(1);
                let e = self.violations.entry(sig.clone()).or_insert_with(|| {
                    (
                        0,
                        Violation {
                            sig,
                            detail: x["detail"].as_str().unwrap_or("").to_string(),
                            case: x["case"].clone(),
                        },
                    )
                });
                e.0 += n;
            }
        }
        for k in ["caps_hit", "machinery_errors"] {
            if let Some(a) = v[k].as_array() {
                for c in a {
                    let s = c.as_str().unwrap_or("").to_string();
                    if k == "caps_hit" {
                        if !self.caps_hit.contains(&s) {
                            self.caps_hit.push(s);
                        }
                    } else {
                        self.machinery(s);
                    }
                }
            }
        }
        if let Some(m) = v["extra"].as_object() {
            for (k, x) in m {
                // numeric extras add up, others: first wins
                match (self.extra.get(k).and_then(|o| o.as_u64()), x.as_u64()) {
                    (Some(a), Some(b)) if k.starts_with("max_") => {
                        self.extra.insert(k.clone(), json!(a.max(b)));
                    }
                    (Some(a), Some(b)) => {
                        self.extra.insert(k.clone(), json!(a + b));
                    }
                    (None, _) if !self.extra.contains_key(k) => {
                        self.extra.insert(k.clone(), x.clone());
                    }
                    _ => {}
                }
            }
        }
    }
}

/// Per-shard context handed to an explorer.
pub struct Ctx {
    pub tier: Tier,
    pub shard: u64,
    pub nshards: u64,
    pub seed: u64,
    /// private scratch directory on tmpfs (also the process cwd)
    pub sbx: PathBuf,
    pub rep: Report,
    pub started: Instant,
    progress_fd: i32,
    counter: u64,
}

impl Ctx {
    /// true if global case number `idx` belongs to this shard
    #[inline]
    pub fn mine(&self, idx: u64) -> bool {
        idx % self.nshards == self.shard
    }
    /// round-robin distribution without a global index: call once per case
    #[inline]
    pub fn next_mine(&mut self) -> bool {
        let i = self.counter;
        self.counter += 1;
        i % self.nshards == self.shard
    }
    /// record "now working on case idx" so that a crash of this shard can be attributed
    #[inline]
    pub fn progress(&self, idx: u64) {
        if self.progress_fd >= 0 {
            let b = idx.to_le_bytes();
            unsafe {
                libc::pwrite(self.progress_fd, b.as_ptr() as *const _, 8, 0);
            }
        }
    }
    pub fn progress_note(&self, s: &str) {
        if self.progress_fd >= 0 {
            let mut b = s.as_bytes().to_vec();
            b.truncate(4000);
            b.push(0);
            unsafe {
                libc::pwrite(self.progress_fd, b.as_ptr() as *const _, b.len(), 8);
            }
        }
    }
    pub fn elapsed(&self) -> f64 {
        self.started.elapsed().as_secs_f64()
    }
    pub fn single(&self) -> bool {
        self.nshards == 1
    }
}

/// Static description of a property check (goes into the evidence file).
pub struct Spec {
    pub id: &'static str,
    /// evidence "level"
    pub level: &'static str,
    pub rule: String,
    pub bound: Value,
    pub assumptions: Vec<String>,
    /// number of worker processes (0 = all cores)
    pub shards: u64,
    /// wall-clock cap for the whole check, seconds
    pub wall_cap_s: u64,
}

pub struct Prop {
    pub id: &'static str,
    pub spec: fn(Tier) -> Spec,
    pub run: fn(&mut Ctx),
    /// re-run one recorded case; prints expected vs actual; returns Some(sig) if it still violates
    pub replay: fn(&Value, &mut Ctx) -> Option<String>,
}

pub fn verif_root() -> PathBuf {
    if let Ok(r) = std::env::var("VERIF_ROOT") {
        return PathBuf::from(r);
    }
    // <root>/.build/target/release/mc  or  cargo's CARGO_MANIFEST_DIR/..
    let exe = std::env::current_exe().unwrap();
    let mut p = exe.as_path();
    while let Some(parent) = p.parent() {
        if parent.join("MANIFEST.json").exists() && parent.join("properties.jsonl").exists() {
            return parent.to_path_buf();
        }
        p = parent;
    }
    PathBuf::from("/verif")
}

/// Directory holding the hooks-off `find`/`xargs` binaries built from /repo's working tree.
pub fn repo_bin_dir() -> PathBuf {
    if let Ok(r) = std::env::var("VERIF_REPO_BIN") {
        return PathBuf::from(r);
    }
    verif_root().join(".build/repo/release")
}

pub fn self_bin_dir() -> PathBuf {
    std::env::current_exe()
        .unwrap()
        .parent()
        .unwrap()
        .to_path_buf()
}

fn seed() -> u64 {
    std::env::var("VERIF_SEED")
        .ok()
        .and_then(|s| s.parse().ok())
        .unwrap_or(0)
}

fn ncores() -> u64 {
    if let Ok(s) = std::env::var("VERIF_JOBS") {
        if let Ok(n) = s.parse::<u64>() {
            return n.max(1);
        }
    }
    std::thread::available_parallelism()
        .map(|n| n.get() as u64)
        .unwrap_or(4)
}

fn shm_base() -> PathBuf {
    let p = Path::new("/dev/shm");
    if p.is_dir() {
        p.to_path_buf()
    } else {
        let q = verif_root().join(".build/sbx");
        std::fs::create_dir_all(&q).ok();
        q
    }
}

/// Saved original stdout/stderr of a shard (fd 1 and 2 are redirected to files so that
/// anything the subject prints with println!/eprintln! is captured, not mixed into the report).
pub struct SavedFds {
    pub out: std::fs::File,
    pub err: std::fs::File,
}

pub fn redirect_std(sbx: &Path) -> SavedFds {
    unsafe {
        let so = libc::dup(1);
        let se = libc::dup(2);
        let mk = |name: &str| {
            let p = std::ffi::CString::new(sbx.join(name).to_str().unwrap()).unwrap();
            libc::open(
                p.as_ptr(),
                libc::O_RDWR | libc::O_CREAT | libc::O_TRUNC | libc::O_APPEND,
                0o600,
            )
        };
        let fo = mk(".mc-stdout");
        let fe = mk(".mc-stderr");
        assert!(fo >= 0 && fe >= 0);
        libc::dup2(fo, 1);
        libc::dup2(fe, 2);
        libc::close(fo);
        libc::close(fe);
        SavedFds {
            out: std::fs::File::from_raw_fd(so),
            err: std::fs::File::from_raw_fd(se),
        }
    }
}

/// Size of the file behind `fd` (1 or 2).
pub fn fd_size(fd: i32) -> u64 {
    unsafe {
        let mut st: libc::stat = std::mem::zeroed();
        if libc::fstat(fd, &mut st) == 0 {
            st.st_size as u64
        } else {
            0
        }
    }
}

/// Take (and discard from the file) everything written to `fd` so far.
pub fn fd_take(fd: i32) -> Vec<u8> {
    let n = fd_size(fd);
    if n == 0 {
        return vec![];
    }
    let mut buf = vec![0u8; n as usize];
    unsafe {
        let r = libc::pread(fd, buf.as_mut_ptr() as *mut _, buf.len(), 0);
        if r >= 0 {
            buf.truncate(r as usize);
        } else {
            buf.clear();
        }
        libc::ftruncate(fd, 0);
    }
    buf
}

pub fn run_shard(prop: &Prop, tier: Tier, shard: u64, nshards: u64) -> i32 {
    let base = shm_base();
    let sbx = base.join(format!("mc-{}-{}", std::process::id(), shard));
    let _ = std::fs::remove_dir_all(&sbx);
    std::fs::create_dir_all(&sbx).expect("sandbox");
    std::env::set_current_dir(&sbx).expect("chdir sandbox");
    unsafe {
        libc::umask(0);
    }
    let mut saved = redirect_std(&sbx);
    crate::findrun::install_panic_hook();
    let progress_fd = match std::env::var("MC_PROGRESS_FILE") {
        Ok(p) => unsafe {
            let c = std::ffi::CString::new(p).unwrap();
            libc::open(c.as_ptr(), libc::O_RDWR | libc::O_CREAT, 0o600)
        },
        Err(_) => -1,
    };
    let mut ctx = Ctx {
        tier,
        shard,
        nshards,
        seed: seed(),
        sbx: sbx.clone(),
        rep: Report::default(),
        started: Instant::now(),
        progress_fd,
        counter: 0,
    };
    let res = std::panic::catch_unwind(std::panic::AssertUnwindSafe(|| (prop.run)(&mut ctx)));
    if let Err(e) = res {
        let msg = crate::findrun::last_panic().unwrap_or_else(|| {
            e.downcast_ref::<String>()
                .cloned()
                .or_else(|| e.downcast_ref::<&str>().map(|s| s.to_string()))
                .unwrap_or_default()
        });
        ctx.rep
            .machinery(format!("shard {} harness panic: {}", shard, msg));
    }
    let out = serde_json::to_string(&ctx.rep.to_json()).unwrap();
    let _ = writeln!(saved.out, "MCREPORT {}", out);
    let _ = saved.out.flush();
    std::env::set_current_dir("/").ok();
    let _ = crate::sandbox::force_remove(&sbx);
    0
}

struct Known {
    findings: Vec<(String, String, String)>, // property, signature, what
}

fn load_known(root: &Path) -> Result<Known, String> {
    let p = root.join("known_findings.json");
    let mut k = Known { findings: vec![] };
    if !p.exists() {
        return Ok(k);
    }
    let v: Value = serde_json::from_str(&std::fs::read_to_string(&p).map_err(|e| e.to_string())?)
        .map_err(|e| format!("known_findings.json: {e}"))?;
    if let Some(a) = v["findings"].as_array() {
        for f in a {
            k.findings.push((
                f["property"].as_str().unwrap_or("").to_string(),
                f["signature"].as_str().unwrap_or("").to_string(),
                f["what"].as_str().unwrap_or("").to_string(),
            ));
        }
    }
    Ok(k)
}

fn hash_str(s: &str) -> String {
    // FNV-1a 64
    let mut h: u64 = 0xcbf29ce484222325;
    for b in s.bytes() {
        h ^= b as u64;
        h = h.wrapping_mul(0x100000001b3);
    }
    format!("{:016x}", h)
}

pub fn check(prop: &Prop, tier: Tier) -> i32 {
    let t0 = Instant::now();
    let root = verif_root();
    let spec = (prop.spec)(tier);
    let n = if spec.shards == 0 {
        ncores()
    } else {
        spec.shards.min(ncores().max(1))
    };
    let exe = std::env::current_exe().unwrap();
    let runid = std::process::id();
    let base = shm_base();
    let mut children = vec![];
    for k in 0..n {
        let pf = base.join(format!("mc-progress-{}-{}", runid, k));
        let _ = std::fs::remove_file(&pf);
        let child = std::process::Command::new(&exe)
            .arg("shard")
            .arg(prop.id)
            .arg(tier.name())
            .arg(k.to_string())
            .arg(n.to_string())
            .env("MC_PROGRESS_FILE", &pf)
            .env("VERIF_ROOT", &root)
            .env("LC_ALL", "C")
            .env("TZ", "UTC")
            .stdin(std::process::Stdio::null())
            .stdout(std::process::Stdio::piped())
            .stderr(std::process::Stdio::inherit())
            .spawn();
        match child {
            Ok(c) => children.push((k, c, pf)),
            Err(e) => {
                eprintln!("mc: cannot spawn shard {k}: {e}");
                return 2;
            }
        }
    }
    // reader threads so that no child blocks on a full pipe
    let mut handles = vec![];
    let pids: Vec<u32> = children.iter().map(|(_, c, _)| c.id()).collect();
    for (k, mut c, pf) in children {
        let mut so = c.stdout.take().unwrap();
        let h = std::thread::spawn(move || {
            let mut s = String::new();
            let _ = so.read_to_string(&mut s);
            let st = c.wait();
            (k, s, st, pf, c.id())
        });
        handles.push(h);
    }
    // watchdog on wall cap
    let cap = spec.wall_cap_s;
    let mut merged = Report::default();
    let mut machinery: Vec<String> = vec![];
    let mut crash_violations: Vec<Violation> = vec![];
    let deadline = t0 + std::time::Duration::from_secs(cap);
    for h in handles {
        // poll join with deadline
        while !h.is_finished() {
            if Instant::now() > deadline {
                eprintln!("mc: wall cap {cap}s hit; killing shards");
                for p in &pids {
                    unsafe {
                        libc::kill(*p as i32, libc::SIGKILL);
                    }
                }
                return 2;
            }
            std::thread::sleep(std::time::Duration::from_millis(20));
        }
        let (k, s, st, pf, pid) = h.join().unwrap();
        let mut got = false;
        for line in s.lines() {
            if let Some(j) = line.strip_prefix("MCREPORT ") {
                match serde_json::from_str::<Value>(j) {
                    Ok(v) => {
                        merged.merge_json(&v);
                        got = true;
                    }
                    Err(e) => machinery.push(format!("shard {k}: bad report: {e}")),
                }
            }
        }
        let ok = matches!(&st, Ok(s) if s.success());
        if !got || !ok {
            // abnormal end: attribute to the case in the progress file
            let mut note = String::new();
            let mut idx = 0u64;
            if let Ok(b) = std::fs::read(&pf) {
                if b.len() >= 8 {
                    idx = u64::from_le_bytes(b[..8].try_into().unwrap());
                    let rest = &b[8..];
                    let end = rest.iter().position(|&c| c == 0).unwrap_or(rest.len());
                    note = String::from_utf8_lossy(&rest[..end]).to_string();
                }
            }
            let how = match &st {
                Ok(s) => format!("{s}"),
                Err(e) => format!("{e}"),
            };
            crash_violations.push(Violation {
                sig: format!("{} subject aborted the process ({how})", prop.id),
                detail: format!("shard {k} died ({how}) while working on case #{idx}: {note}"),
                case: json!({"prop": prop.id, "kind":"crash", "index": idx, "note": note, "tier": tier.name(), "shard": k, "nshards": n}),
            });
        }
        let _ = std::fs::remove_file(&pf);
        let _ = crate::sandbox::force_remove(&base.join(format!("mc-{}-{}", pid, k)));
    }
    for m in &merged.machinery_errors {
        machinery.push(m.clone());
    }
    // A crash of the subject is a verdict only for the property that is about crashes (C11);
    // elsewhere it is a machinery failure (the C11 check owns that question).
    for cv in crash_violations {
        if prop.id == "C11" {
            merged.violation(&cv.sig.clone(), cv.detail.clone(), cv.case.clone());
        } else {
            machinery.push(cv.detail);
        }
    }

    let known = match load_known(&root) {
        Ok(k) => k,
        Err(e) => {
            eprintln!("mc: {e}");
            return 2;
        }
    };
    let mut unknown = 0u64;
    let mut known_hit: Vec<String> = vec![];
    let replays = root.join("replays");
    std::fs::create_dir_all(&replays).ok();
    let mut printed = 0usize;
    for (sig, (cnt, v)) in &merged.violations {
        if let Some((_, _, what)) = known
            .findings
            .iter()
            .find(|(p, s, _)| p == prop.id && s == sig)
        {
            println!(
                "KNOWN-FINDING: property={} {} [{}] ({} case(s))",
                prop.id, what, sig, cnt
            );
            known_hit.push(sig.clone());
        } else {
            unknown += 1;
            let path = replays.join(format!("{}-{}.json", prop.id, hash_str(sig)));
            let doc = json!({"property": prop.id, "signature": sig, "occurrences": cnt, "detail": v.detail, "case": v.case, "tier": tier.name()});
            let _ = std::fs::write(&path, serde_json::to_string_pretty(&doc).unwrap());
            printed += 1;
            if printed <= 12 {
                println!("VIOLATION property={} replay={}", prop.id, path.display());
                println!("  signature: {}", sig);
                println!("  cases: {}  first: {}", cnt, v.detail.replace('\n', "\n    "));
            }
        }
    }

    if printed > 12 {
        println!("  ... and {} more violation signatures (replay files written for all)", printed - 12);
    }
    if merged.samples.is_empty() {
        machinery.push("no sample case was recorded by any shard (evidence would be invalid)".into());
    }
    let wall = t0.elapsed().as_secs_f64();
    let exhaustive = merged.caps_hit.is_empty() && machinery.is_empty();
    let mut cov = Map::new();
    cov.insert("evaluations".into(), json!(merged.evaluations));
    cov.insert("distinct_nontrivial".into(), json!(merged.nontrivial));
    cov.insert("rule".into(), json!(spec.rule));
    cov.insert("samples".into(), json!(merged.samples));
    cov.insert("exhaustive".into(), json!(exhaustive));
    cov.insert("bound".into(), spec.bound.clone());
    cov.insert("counters".into(), json!(merged.counters));
    cov.insert(
        "outcome_classes".into(),
        json!(merged.outcome_classes.iter().take(60).collect::<Vec<_>>()),
    );
    cov.insert(
        "distinct_outcome_classes".into(),
        json!(merged.outcome_classes.len()),
    );
    cov.insert("caps_hit".into(), json!(merged.caps_hit));
    cov.insert("known_findings_hit".into(), json!(known_hit));
    cov.insert("workers".into(), json!(n));
    if merged.states > 0 || spec.level == "model_checking" {
        cov.insert("states".into(), json!(merged.states));
        cov.insert("transitions".into(), json!(merged.transitions));
    }
    cov.insert(
        "traces_validated_against_impl".into(),
        json!(merged.traces_validated),
    );
    for (k, v) in &merged.extra {
        cov.insert(k.clone(), v.clone());
    }
    let ev = json!({
        "property_id": prop.id,
        "tier": tier.name(),
        "seed": seed(),
        "level": spec.level,
        "coverage": Value::Object(cov),
        "assumptions": spec.assumptions,
        "wall_s": (wall * 100.0).round() / 100.0,
        "violations": unknown,
        "machinery_errors": machinery,
    });
    let evdir = root.join("evidence");
    std::fs::create_dir_all(&evdir).ok();
    if let Err(e) = std::fs::write(
        evdir.join(format!("{}.json", prop.id)),
        serde_json::to_string_pretty(&ev).unwrap() + "\n",
    ) {
        eprintln!("mc: cannot write evidence: {e}");
        return 2;
    }
    println!(
        "{} {}: evaluations={} nontrivial={} states={} transitions={} classes={} known={} violations={} wall={:.1}s",
        prop.id,
        tier.name(),
        merged.evaluations,
        merged.nontrivial,
        merged.states,
        merged.transitions,
        merged.outcome_classes.len(),
        known_hit.len(),
        unknown,
        wall
    );
    for m in &machinery {
        eprintln!("MACHINERY: {m}");
    }
    for c in &merged.caps_hit {
        eprintln!("CAP: {c}");
    }
    // A violation that was reproduced twice is reported as such even if some other part of the run
    // had a machinery problem; a run without violations but with a machinery problem or a cap is
    // not a verdict (exit 2).
    if unknown > 0 {
        1
    } else if !machinery.is_empty() || !merged.caps_hit.is_empty() {
        2
    } else {
        0
    }
}

pub fn replay(props: &[Prop], file: &str) -> i32 {
    let doc: Value = match std::fs::read_to_string(file)
        .map_err(|e| e.to_string())
        .and_then(|s| serde_json::from_str(&s).map_err(|e| e.to_string()))
    {
        Ok(v) => v,
        Err(e) => {
            eprintln!("mc replay: {file}: {e}");
            return 2;
        }
    };
    let id = doc["property"].as_str().unwrap_or("");
    let Some(prop) = props.iter().find(|p| p.id == id) else {
        eprintln!("mc replay: unknown property {id}");
        return 2;
    };
    let base = shm_base();
    let sbx = base.join(format!("mc-{}-replay", std::process::id()));
    let _ = std::fs::remove_dir_all(&sbx);
    std::fs::create_dir_all(&sbx).unwrap();
    std::env::set_current_dir(&sbx).unwrap();
    unsafe {
        libc::umask(0);
    }
    let mut saved = redirect_std(&sbx);
    crate::findrun::install_panic_hook();
    let mut outcomes = vec![];
    for round in 0..2 {
        let mut ctx = Ctx {
            tier: Tier::Quick,
            shard: 0,
            nshards: 1,
            seed: seed(),
            sbx: sbx.clone(),
            rep: Report::default(),
            started: Instant::now(),
            progress_fd: -1,
            counter: 0,
        };
        let r = (prop.replay)(&doc["case"], &mut ctx);
        let _ = writeln!(saved.out, "replay run {}: {}", round + 1, match &r {
            Some(s) => format!("VIOLATES [{s}]"),
            None => "holds".to_string(),
        });
        for (_, (_, v)) in &ctx.rep.violations {
            let _ = writeln!(saved.out, "  {}", v.detail.replace('\n', "\n  "));
        }
        outcomes.push(r);
    }
    std::env::set_current_dir("/").ok();
    let _ = crate::sandbox::force_remove(&sbx);
    if outcomes[0] != outcomes[1] {
        let _ = writeln!(saved.out, "replay: the two runs differ -> uncontrolled nondeterminism");
        return 2;
    }
    if outcomes[0].is_some() {
        let _ = writeln!(saved.out, "VIOLATION property={} replay={}", id, file);
        1
    } else {
        0
    }
}
