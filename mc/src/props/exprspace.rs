//! Shared by C01 and C11: the space of token sequences over the 16-token alphabet, the
//! fixed trees they are run on, and the reference expectation for a sentence.

use crate::model::expr::{self, Tok};
use crate::model::tree::{self, Follow, Fs, WalkCfg, WalkNotes, K};
use std::path::Path;

/// r/{x, xy, y, z, d/{xy}} : the two name tests take all four truth combinations,
/// d makes -prune and a mid-walk -quit observable.   e/{xy} : the small tree.
pub fn c01_fs() -> Fs {
    let mut fs = Fs::new();
    let r = fs.add(0, "r", K::Dir);
    for n in ["x", "xy", "y", "z"] {
        fs.add(r, n, K::File);
    }
    let d = fs.add(r, "d", K::Dir);
    fs.add(d, "xy", K::File);
    let e = fs.add(0, "e", K::Dir);
    fs.add(e, "xy", K::File);
    // w/{d/{x1}, x01..x12, xy, z}: thirteen consecutive entries matching only 'x*', then one matching
    // both name tests (state carried from entry to entry needs more entries than r has)
    let w = fs.add(0, "w", K::Dir);
    let wd = fs.add(w, "d", K::Dir);
    fs.add(wd, "x1", K::File);
    for i in 1..=12 {
        fs.add(w, &format!("x{i:02}"), K::File);
    }
    fs.add(w, "xy", K::File);
    fs.add(w, "z", K::File);
    fs
}

pub fn build_c01(sbx: &Path) -> Fs {
    let fs = c01_fs();
    crate::sandbox::clear_dir(sbx);
    crate::sandbox::materialize(&fs, 0, sbx).expect("materialize c01 tree");
    crate::sandbox::validate(&fs, 0, sbx).expect("validate c01 tree");
    fs
}

/// Second, independent recogniser (a counter automaton) used to generate sentences by DFS
/// and to cross-check the recursive-descent recogniser.
#[derive(Clone, Copy, PartialEq, Eq, Debug)]
pub struct Auto {
    pub depth: u32,
    /// true = an operand is required next; false = just after an operand
    pub need: bool,
    /// just after '(' (so ')' would make "( )")
    pub dead: bool,
}

impl Auto {
    pub fn start() -> Auto {
        Auto {
            depth: 0,
            need: true,
            dead: false,
        }
    }
    pub fn step(self, t: Tok) -> Option<Auto> {
        if self.dead {
            return None;
        }
        let mut a = self;
        if t.is_not() {
            a.need = true;
            Some(a)
        } else if t == Tok::LP {
            a.depth += 1;
            a.need = true;
            Some(a)
        } else if t == Tok::RP {
            if a.need || a.depth == 0 {
                None
            } else {
                a.depth -= 1;
                Some(a)
            }
        } else if t.is_and() || t.is_or() || t == Tok::Comma {
            if a.need {
                None
            } else {
                a.need = true;
                Some(a)
            }
        } else {
            a.need = false;
            Some(a)
        }
    }
    pub fn accepting(self, len: usize) -> bool {
        len == 0 || (!self.need && self.depth == 0)
    }
}

pub fn auto_accepts(t: &[Tok]) -> bool {
    let mut a = Auto::start();
    // '!' directly before an operator / ')' / end is caught by need=true
    for &x in t {
        match a.step(x) {
            Some(n) => a = n,
            None => return false,
        }
    }
    a.accepting(t.len())
}

/// Reference stdout for `find ROOT <toks>` on the abstract tree.
/// `toks` is the complete expression (including a leading Sorted when used).
pub fn expected_output(fs: &Fs, root: &str, toks: &[Tok], ex: &Option<expr::Ex>) -> Vec<u8> {
    expected_output_order(fs, root, toks, ex, false)
}

/// The same under -depth (`depth_first`): a directory's entries before the directory itself.
pub fn expected_output_order(fs: &Fs, root: &str, toks: &[Tok], ex: &Option<expr::Ex>, depth_first: bool) -> Vec<u8> {
    let has_action = toks.iter().any(|t| t.is_action());
    let cfg = WalkCfg {
        follow: Follow::P,
        mindepth: 0,
        maxdepth: usize::MAX,
        depth_first,
    };
    let mut notes = WalkNotes::default();
    let mut st = expr::EvalState::default();
    tree::walk(fs, 0, root, &cfg, &mut notes, &mut |v| {
        let name = v.path.rsplit('/').next().unwrap_or(&v.path);
        let e = expr::Entry {
            path: &v.path,
            name,
            is_dir: fs.is_dir(v.eff),
        };
        st.prune = false;
        expr::eval_top(ex, has_action, &e, &mut st);
        tree::Decision {
            prune: st.prune,
            quit: st.quit,
        }
    });
    st.out
}

/// Reference stdout for `find ROOTS... <toks>`: the starting points one after the other, nothing
/// further once -quit was evaluated.
pub fn expected_output_roots(fs: &Fs, roots: &[&str], toks: &[Tok], ex: &Option<expr::Ex>) -> Vec<u8> {
    let has_action = toks.iter().any(|t| t.is_action());
    let cfg = WalkCfg { follow: Follow::P, mindepth: 0, maxdepth: usize::MAX, depth_first: false };
    let mut notes = WalkNotes::default();
    let mut st = expr::EvalState::default();
    for root in roots {
        if st.quit {
            break;
        }
        tree::walk(fs, 0, root, &cfg, &mut notes, &mut |v| {
            let name = v.path.rsplit('/').next().unwrap_or(&v.path);
            let e = expr::Entry { path: &v.path, name, is_dir: fs.is_dir(v.eff) };
            st.prune = false;
            expr::eval_top(ex, has_action, &e, &mut st);
            tree::Decision { prune: st.prune, quit: st.quit }
        });
    }
    st.out
}

/// Decode a sequence number into tokens (little-endian base-|alphabet| digits, fixed length).
pub fn decode(mut idx: u64, len: usize, alphabet: &[Tok], out: &mut Vec<Tok>) {
    out.clear();
    let b = alphabet.len() as u64;
    for _ in 0..len {
        out.push(alphabet[(idx % b) as usize]);
        idx /= b;
    }
}

pub fn toks_to_json(t: &[Tok]) -> serde_json::Value {
    serde_json::json!(expr::argv(t))
}

/// Parse argv words back into tokens (for replay files).
pub fn toks_from_words(words: &[String]) -> Option<Vec<Tok>> {
    let all = [
        Tok::LP,
        Tok::RP,
        Tok::Not,
        Tok::And,
        Tok::Or,
        Tok::Comma,
        Tok::True,
        Tok::False,
        Tok::NameX,
        Tok::NameY,
        Tok::PrA,
        Tok::PrB,
        Tok::Print,
        Tok::Prune,
        Tok::Quit,
        Tok::Noleaf,
        Tok::Sorted,
        Tok::NotWord,
        Tok::AndWord,
        Tok::OrWord,
    ];
    let mut out = vec![];
    let mut i = 0;
    'outer: while i < words.len() {
        for t in all {
            let w = t.words();
            if i + w.len() <= words.len() && w.iter().zip(&words[i..]).all(|(a, b)| a == b) {
                // prefer the longest match: two-word tokens start with -name/-printf which no
                // one-word token shares
                out.push(t);
                i += w.len();
                continue 'outer;
            }
        }
        return None;
    }
    Some(out)
}
