//! C05 xargs input splitting x read() chunking — the readers are run (hook H1) over every
//! string up to a bound and, for each string, over EVERY way of cutting the stream into
//! read() results (environment schedules), plus buffer-edge placements and EINTR injection.

use crate::engine::{Ctx, Prop, Spec, Tier};
use crate::model::xargs::{split_delim, tokenize, Term, Tokens};
use findutils::xargs::verif_hooks::{read_args, ReaderKind};
use serde_json::{json, Value};
use std::io::Read;

pub const PROP: Prop = Prop {
    id: "C05",
    spec,
    run,
    replay,
};

const WS_ALPHA: [&[u8]; 10] = [b" ", b"\t", b"\n", b"'", b"\"", b"\\", b"a", b"b", "\u{e9}".as_bytes(), "\u{e0}".as_bytes()];
const BYTE_ALPHA: [&[u8]; 11] = [b"a", b"b", b"\0", b"x", b"\n", b"'", b"\"", b"\\", b" ", b"\xff", "\u{e9}".as_bytes()];

fn bounds(t: Tier) -> (usize, usize, usize, usize, usize) {
    // (single-read len, all-chunkings len, buffer-edge suffix len, byte-mode len, byte-mode chunk len)
    t.pick((6, 5, 2, 4, 3), (8, 7, 3, 5, 4))
}

fn spec(t: Tier) -> Spec {
    let (a, b, c, d, e) = bounds(t);
    Spec {
        id: "C05",
        level: "model_checking",
        rule: format!("default mode: every string of <= {a} symbols over {{space,tab,newline,',\",\\,a,b,é,à}} is read by the real WhitespaceDelimitedArgumentReader (hook H1) in one read() and compared with the reference tokenizer (bytes and line-end flags); every string of <= {b} symbols is read under EVERY composition of its bytes into read() results (incl. 1-byte reads, cuts inside é, inside quotes, after a backslash) and must give the single-read answer; buffer edge: 'a'*k ++ s for every 4090 <= k+|s| <= 4100 and every s of <= {c} symbols with 0, 1 and 2 extra cuts at every position within +-4 of 4096; EINTR injected before each read (must be retried), EIO (must propagate). -0 / -d x / -d '\\n': strings <= {d} over {{a,b,NUL,x,newline,',\",\\,space,0xFF,é}} in one read, <= {e} under every chunking, and 'a'*k ++ s around the BufReader's 8192 edge. state = (bytes consumed, reader's pending/escape state) explored through every environment schedule; transitions = read() answers. Scale slice: three streams of 12000 arguments (50000 in thorough), 150-250 KB (0.6-1 MB) in all (arguments of cycling lengths incl. 5000, 9000 and 20000 bytes, a 6000-byte quoted argument with blanks, tabs and single quotes, backslash-newline, é/à, a run of 4097 blanks / 8193 delimiters) in one read(), in equal chunks of 1, 7, 4095..4097, 8191..8193 bytes and with each of the first 24 refills shifted by one byte. Every -d operand is given as -d OP, -dOP, --delimiter OP and --delimiter=OP (NUL also as -0 and --null). Runs of 300 000 bare separators between four items (-0, -d newline, -d comma, default mode with newlines and with blanks) through the binary under a 1 MiB stack. Special inputs through the binary: a /proc file (st_size 0), a FIFO written in two pieces, /proc/self/cmdline (NUL-separated), each via -a FILE and via standard input. Binary slice: strings <= 3 piped into the xargs binary byte-by-byte and in one write."),
        bound: json!({"single_read_len": a, "all_chunkings_len": b, "edge_suffix_len": c, "byte_mode_len": d, "byte_mode_chunk_len": e}),
        assumptions: vec![
            "set aside (run for determinism only): strings ending in a lone unquoted backslash, a newline inside quotes, CR/VT/FF".into(),
            "-0/-d: empty fields may be passed or skipped".into(),
        ],
        shards: 0,
        wall_cap_s: t.pick(300, 3600),
    }
}

/// A Read that delivers caller-chosen chunks and can inject errors before a given call.
struct Sched {
    data: Vec<u8>,
    pos: usize,
    chunks: Vec<usize>,
    ci: usize,
    calls: usize,
    eintr_before: Option<usize>,
    eio_before: Option<usize>,
    reads: std::rc::Rc<std::cell::Cell<u64>>,
}

impl Read for Sched {
    fn read(&mut self, buf: &mut [u8]) -> std::io::Result<usize> {
        let call = self.calls;
        self.calls += 1;
        self.reads.set(self.reads.get() + 1);
        if self.eintr_before == Some(call) {
            self.eintr_before = None;
            self.calls -= 1; // the retried call keeps its number
            return Err(std::io::Error::from(std::io::ErrorKind::Interrupted));
        }
        if self.eio_before == Some(call) {
            return Err(std::io::Error::from_raw_os_error(libc::EIO));
        }
        let rem = self.data.len() - self.pos;
        if rem == 0 {
            return Ok(0);
        }
        let want = if self.ci < self.chunks.len() {
            let c = self.chunks[self.ci];
            self.ci += 1;
            c
        } else {
            rem
        };
        let n = want.min(rem).min(buf.len());
        buf[..n].copy_from_slice(&self.data[self.pos..self.pos + n]);
        self.pos += n;
        Ok(n)
    }
}

type Toks = Result<Vec<(Vec<u8>, bool)>, String>;

fn run_reader(kind: &ReaderKind2, data: &[u8], chunks: &[usize], eintr: Option<usize>, eio: Option<usize>, reads: &std::rc::Rc<std::cell::Cell<u64>>) -> Toks {
    let s = Sched {
        data: data.to_vec(),
        pos: 0,
        chunks: chunks.to_vec(),
        ci: 0,
        calls: 0,
        eintr_before: eintr,
        eio_before: eio,
        reads: reads.clone(),
    };
    let k = match kind {
        ReaderKind2::Ws => ReaderKind::Whitespace,
        ReaderKind2::Byte(b) => ReaderKind::Byte(*b),
    };
    match std::panic::catch_unwind(std::panic::AssertUnwindSafe(|| read_args(k, Box::new(s)))) {
        Ok(r) => r,
        Err(_) => Err(format!("PANIC {}", crate::findrun::last_panic().unwrap_or_default())),
    }
}

#[derive(Clone, Copy, Debug, PartialEq)]
enum ReaderKind2 {
    Ws,
    Byte(u8),
}

fn show(b: &[u8]) -> String {
    let mut s = String::new();
    for &c in b {
        match c {
            b'\n' => s.push_str("\\n"),
            b'\t' => s.push_str("\\t"),
            0 => s.push_str("\\0"),
            0x20..=0x7e => s.push(c as char),
            _ => s.push_str(&format!("\\x{:02x}", c)),
        }
    }
    s
}

fn show_toks(t: &Toks) -> String {
    match t {
        Ok(v) => format!("[{}]", v.iter().map(|(b, h)| format!("{:?}{}", show(b), if *h { "$" } else { "" })).collect::<Vec<_>>().join(", ")),
        Err(e) => format!("Err({e})"),
    }
}

/// Compare the real reader's answer with the reference tokenizer. None = agrees or unjudged.
fn judge_ws(data: &[u8], got: &Toks) -> Option<(String, String)> {
    let want = tokenize(data);
    if let Err(e) = got {
        if e.starts_with("PANIC") {
            return Some((format!("C05 reader panicked: {}", e.split(':').take(2).collect::<Vec<_>>().join(":")), e.clone()));
        }
    }
    let detail = |w: String| format!("input {:?}\n expected {}\n actual   {}", show(data), w, show_toks(got));
    match want {
        Tokens::Unjudged(_) => None,
        Tokens::UnterminatedQuote => {
            if got.is_ok() {
                Some(("C05 unterminated quote not reported as an error".into(), detail("Err(unterminated quote)".into())))
            } else {
                None
            }
        }
        Tokens::Ok(w) => {
            let ws = format!("[{}]", w.iter().map(|(b, t)| format!("{:?}{}", show(b), match t { Term::Hard => "$", Term::Soft => "", Term::Eof => "~" })).collect::<Vec<_>>().join(", "));
            let Ok(g) = got else {
                return Some(("C05 error on well-formed input".into(), detail(ws)));
            };
            let gb: Vec<&Vec<u8>> = g.iter().map(|x| &x.0).collect();
            let wb: Vec<&Vec<u8>> = w.iter().map(|x| &x.0).collect();
            if gb != wb {
                let gne: Vec<&&Vec<u8>> = gb.iter().filter(|b| !b.is_empty()).collect();
                let wne: Vec<&&Vec<u8>> = wb.iter().filter(|b| !b.is_empty()).collect();
                let sig = if gne == wne {
                    if gb.len() > wb.len() {
                        "C05 spurious empty argument (not present in the input)"
                    } else {
                        "C05 quoted empty argument lost"
                    }
                } else if gb.len() == wb.len() {
                    "C05 argument bytes differ from the input"
                } else {
                    "C05 wrong split (different number of arguments)"
                };
                return Some((sig.into(), detail(ws)));
            }
            for ((_, h), (_, t)) in g.iter().zip(w.iter()) {
                let ok = match t {
                    Term::Hard => *h,
                    Term::Soft => !*h,
                    Term::Eof => true,
                };
                if !ok {
                    return Some(("C05 wrong line-end flag on an argument".into(), detail(ws)));
                }
            }
            None
        }
    }
}

fn judge_byte(data: &[u8], d: u8, got: &Toks) -> Option<(String, String)> {
    let want = split_delim(data, d);
    let detail = || format!("delimiter {:?} input {:?}\n expected {:?}\n actual   {}", show(&[d]), show(data), want.iter().map(|b| show(b)).collect::<Vec<_>>(), show_toks(got));
    match got {
        Err(e) if e.starts_with("PANIC") => Some((format!("C05 byte reader panicked: {}", e.split(':').take(2).collect::<Vec<_>>().join(":")), e.clone())),
        Err(_) => Some(("C05 -0/-d reader reported an error".into(), detail())),
        Ok(g) => {
            let gne: Vec<&Vec<u8>> = g.iter().map(|x| &x.0).filter(|b| !b.is_empty()).collect();
            let wne: Vec<&Vec<u8>> = want.iter().collect();
            if gne != wne {
                let utf8 = std::str::from_utf8(data).is_ok();
                let sig = if gne.len() == wne.len() {
                    if utf8 { "C05 -0/-d: argument bytes altered" } else { "C05 -0/-d: bytes that are not valid UTF-8 are altered" }
                } else {
                    "C05 -0/-d: wrong split"
                };
                return Some((sig.into(), detail()));
            }
            None
        }
    }
}

/// all compositions of n (n >= 1) as chunk-size lists
fn compositions(n: usize, f: &mut dyn FnMut(&[usize])) {
    if n == 0 {
        f(&[]);
        return;
    }
    let mut cur = vec![];
    for mask in 0u32..(1 << (n - 1)) {
        cur.clear();
        let mut run = 1;
        for i in 0..(n - 1) {
            if mask & (1 << i) != 0 {
                cur.push(run);
                run = 1;
            } else {
                run += 1;
            }
        }
        cur.push(run);
        f(&cur);
    }
}

fn strings(alpha: &[&[u8]], maxlen: usize, f: &mut dyn FnMut(&[u8], usize)) {
    fn rec(alpha: &[&[u8]], maxlen: usize, cur: &mut Vec<u8>, depth: usize, f: &mut dyn FnMut(&[u8], usize)) {
        f(cur, depth);
        if depth == maxlen {
            return;
        }
        for a in alpha {
            let l = cur.len();
            cur.extend_from_slice(a);
            rec(alpha, maxlen, cur, depth + 1, f);
            cur.truncate(l);
        }
    }
    rec(alpha, maxlen, &mut vec![], 0, f);
}

fn case_json(kind: ReaderKind2, data: &[u8], chunks: &[usize], eintr: Option<usize>) -> Value {
    json!({"prop":"C05","reader": match kind { ReaderKind2::Ws => json!("whitespace"), ReaderKind2::Byte(b) => json!(b) }, "input": data, "chunks": chunks, "eintr_before": eintr})
}

fn run(ctx: &mut Ctx) {
    let (single, chunked, edge, blen, bchunk) = bounds(ctx.tier);
    let reads = std::rc::Rc::new(std::cell::Cell::new(0u64));
    let mut states: u64 = 0;
    // ---- default mode, one read + all chunkings
    let mut todo: Vec<(Vec<u8>, usize)> = vec![];
    strings(&WS_ALPHA, single, &mut |s, depth| {
        if ctx.next_mine() {
            todo.push((s.to_vec(), depth));
        }
    });
    for (s, depth) in &todo {
        ctx.rep.evaluations += 1;
        let one = run_reader(&ReaderKind2::Ws, s, &[], None, None, &reads);
        let reference = tokenize(s);
        match &reference {
            Tokens::Unjudged(_) => ctx.rep.count("set_aside", 1),
            Tokens::Ok(v) if !v.is_empty() => ctx.rep.nontrivial += 1,
            Tokens::UnterminatedQuote => ctx.rep.nontrivial += 1,
            _ => {}
        }
        if ctx.rep.evaluations % 200_000 == 17 {
            ctx.rep.sample(json!({"input": show(s), "single_read": show_toks(&one)}));
        }
        ctx.rep.class(&format!("ws {}", match &one { Ok(v) => format!("ok{}", v.len().min(5)), Err(_) => "err".into() }));
        if let Some((sig, detail)) = judge_ws(s, &one) {
            ctx.rep.violation(&sig, detail, case_json(ReaderKind2::Ws, s, &[], None));
        }
        if *depth <= chunked && !s.is_empty() {
            let n = s.len();
            compositions(n, &mut |ch| {
                if ch.len() == 1 {
                    return;
                }
                ctx.rep.count("chunkings", 1);
                states += ch.len() as u64;
                let got = run_reader(&ReaderKind2::Ws, s, ch, None, None, &reads);
                if got != one {
                    ctx.rep.violation(
                        "C05 result depends on how the stream is cut into read() chunks",
                        format!("input {:?} chunks {:?}\n single read {}\n chunked     {}", show(s), ch, show_toks(&one), show_toks(&got)),
                        case_json(ReaderKind2::Ws, s, ch, None),
                    );
                }
            });
            // EINTR before each read of the 1-byte schedule; EIO must propagate
            if *depth <= 4 {
                let ones = vec![1usize; n];
                for k in 0..=n {
                    let got = run_reader(&ReaderKind2::Ws, s, &ones, Some(k), None, &reads);
                    ctx.rep.count("eintr_injections", 1);
                    if got != one {
                        ctx.rep.violation(
                            "C05 an interrupted read() (EINTR) changes the result",
                            format!("input {:?} EINTR before read #{k}\n expected {}\n actual   {}", show(s), show_toks(&one), show_toks(&got)),
                            case_json(ReaderKind2::Ws, s, &ones, Some(k)),
                        );
                    }
                }
                let got = run_reader(&ReaderKind2::Ws, s, &ones, None, Some(n / 2), &reads);
                ctx.rep.count("eio_injections", 1);
                if got.is_ok() && matches!(reference, Tokens::Ok(_)) {
                    ctx.rep.violation(
                        "C05 a failing read() (EIO) is swallowed",
                        format!("input {:?} EIO before read #{}: result {}", show(s), n / 2, show_toks(&got)),
                        case_json(ReaderKind2::Ws, s, &ones, None),
                    );
                }
            }
        }
    }
    // ---- buffer edge (4096)
    let mut todo: Vec<Vec<u8>> = vec![];
    strings(&WS_ALPHA, edge, &mut |s, _| {
        if ctx.next_mine() {
            todo.push(s.to_vec());
        }
    });
    for s in &todo {
        for total in 4090..=4100usize {
            if s.len() > total {
                continue;
            }
            let mut data = vec![b'a'; total - s.len()];
            data.extend_from_slice(s);
            // deviation 0: natural full-size reads
            let base = run_reader(&ReaderKind2::Ws, &data, &[], None, None, &reads);
            ctx.rep.evaluations += 1;
            ctx.rep.nontrivial += 1;
            ctx.rep.count("edge_cases", 1);
            if let Some((sig, detail)) = judge_ws(&data, &base) {
                ctx.rep.violation(&format!("{sig} (at the 4096-byte buffer edge)"), short_detail(&detail), case_json(ReaderKind2::Ws, &data, &[], None));
            }
            // deviations 1 and 2: extra cuts at positions within +-4 of 4096
            let lo = 4092usize;
            let hi = 4100usize.min(total.saturating_sub(1));
            for c1 in lo..=hi {
                for c2 in (c1..=hi).chain(std::iter::once(usize::MAX)) {
                    let chunks: Vec<usize> = if c2 == usize::MAX || c2 == c1 { vec![c1] } else { vec![c1, c2 - c1] };
                    if c2 == c1 {
                        continue;
                    }
                    states += chunks.len() as u64 + 1;
                    let got = run_reader(&ReaderKind2::Ws, &data, &chunks, None, None, &reads);
                    ctx.rep.count("edge_chunkings", 1);
                    if got != base {
                        ctx.rep.violation(
                            "C05 result depends on how the stream is cut into read() chunks (near the 4096-byte edge)",
                            format!("input 'a'*{} ++ {:?}, chunks {:?}: tail of single-read answer {} vs {}", total - s.len(), show(s), chunks, tail(&base), tail(&got)),
                            case_json(ReaderKind2::Ws, &data, &chunks, None),
                        );
                    }
                }
            }
        }
    }
    // ---- -0 / -d modes
    for d in [0u8, b'x', b'\n'] {
        let kind = ReaderKind2::Byte(d);
        let mut todo: Vec<(Vec<u8>, usize)> = vec![];
        strings(&BYTE_ALPHA, blen, &mut |s, depth| {
            if ctx.next_mine() {
                todo.push((s.to_vec(), depth));
            }
        });
        for (s, depth) in &todo {
            ctx.rep.evaluations += 1;
            let one = run_reader(&kind, s, &[], None, None, &reads);
            if s.contains(&d) {
                ctx.rep.nontrivial += 1;
            }
            ctx.rep.class(&format!("byte {}", match &one { Ok(v) => format!("ok{}", v.len().min(5)), Err(_) => "err".into() }));
            if let Some((sig, detail)) = judge_byte(s, d, &one) {
                ctx.rep.violation(&sig, detail, case_json(kind, s, &[], None));
            }
            if *depth <= bchunk && s.len() > 1 {
                compositions(s.len(), &mut |ch| {
                    if ch.len() == 1 {
                        return;
                    }
                    ctx.rep.count("chunkings", 1);
                    states += ch.len() as u64;
                    let got = run_reader(&kind, s, ch, None, None, &reads);
                    if got != one {
                        ctx.rep.violation(
                            "C05 -0/-d: result depends on how the stream is cut into read() chunks",
                            format!("input {:?} chunks {:?}\n single read {}\n chunked     {}", show(s), ch, show_toks(&one), show_toks(&got)),
                            case_json(kind, s, ch, None),
                        );
                    }
                });
            }
        }
    }
    // ---- BufReader edge (8192) for the byte reader
    let edge_alpha: [&[u8]; 4] = ["\u{e9}".as_bytes(), b"\0", b"a", "\u{20ac}".as_bytes()];
    let mut todo: Vec<Vec<u8>> = vec![];
    strings(&edge_alpha, edge.max(3), &mut |s, _| {
        if ctx.next_mine() {
            todo.push(s.to_vec());
        }
    });
    for s in &todo {
        for total in 8188..=8196usize {
            if s.len() > total {
                continue;
            }
            let mut data = vec![b'a'; total - s.len()];
            data.extend_from_slice(s);
            let base = run_reader(&ReaderKind2::Byte(0), &data, &[], None, None, &reads);
            ctx.rep.evaluations += 1;
            ctx.rep.nontrivial += 1;
            ctx.rep.count("edge_cases_8192", 1);
            if let Some((sig, detail)) = judge_byte(&data, 0, &base) {
                ctx.rep.violation(&format!("{sig} (at the 8192-byte buffer edge)"), short_detail(&detail), case_json(ReaderKind2::Byte(0), &data, &[], None));
            }
            for c1 in 8189..=8195usize.min(total.saturating_sub(1)) {
                let got = run_reader(&ReaderKind2::Byte(0), &data, &[c1], None, None, &reads);
                states += 2;
                if got != base {
                    ctx.rep.violation(
                        "C05 -0/-d: result depends on how the stream is cut into read() chunks (near the 8192-byte edge)",
                        format!("input 'a'*{} ++ {:?}, cut at {c1}: {} vs {}", total - s.len(), show(s), tail(&base), tail(&got)),
                        case_json(ReaderKind2::Byte(0), &data, &[c1], None),
                    );
                }
            }
        }
    }
    scale_slice(ctx, &reads, &mut states);
    if ctx.shard == 5 % ctx.nshards {
        special_input_slice(ctx);
    }
    ctx.rep.states = states;
    ctx.rep.transitions = reads.get();
    binary_slice(ctx);
}

/// Streams of tens of kilobytes (several buffer refills): arguments of cycling lengths with one of
/// 5000, one of 9000 and one of 20000 bytes (longer than one and than two buffers), a quoted argument of 6000 bytes
/// holding blanks, tabs and single quotes, a backslash-newline pair, é/à, runs of 3 and of 4097 separators.
/// Read in one read(), and in equal chunks of 1, 7, 4095, 4096, 4097, 8191, 8192 and 8193 bytes,
/// and with each of the first 24 refill positions shifted by one byte; default mode against the
/// reference tokenizer, -0 and -d ',' against the reference split.
fn scale_slice(ctx: &mut Ctx, reads: &std::rc::Rc<std::cell::Cell<u64>>, states: &mut u64) {
    // (the streams are longer than 128 KiB, and than 512 KiB in thorough: a budget on the whole
    // input, as opposed to one argument, would be exhausted)
    let n_items = ctx.tier.pick(12000usize, 50000);
    let mut ws: Vec<u8> = vec![];
    for i in 0..n_items {
        let len = match i {
            40 => 5000,
            700 => 9000,
            1100 => 20000,
            _ => 1 + (i * 5) % 23,
        };
        if i == 300 {
            ws.push(b'"');
            for j in 0..6000usize {
                ws.push(match j % 97 {
                    13 => b' ',
                    29 => b'\t',
                    51 => b'\'',
                    _ => b'q',
                });
            }
            ws.push(b'"');
        } else if i % 37 == 5 {
            ws.extend_from_slice("\u{e9}\u{e0}".as_bytes());
        } else if i % 41 == 7 {
            ws.extend_from_slice(b"x\\\ny");
        } else {
            ws.extend(std::iter::repeat(b'a' + (i % 26) as u8).take(len));
        }
        let sep: &[u8] = match i % 9 {
            0 => b"\n",
            1 => b" \n",
            2 => b"\t",
            3 => b"   ",
            _ => b" ",
        };
        ws.extend_from_slice(sep);
        if i == 900 {
            ws.extend(std::iter::repeat(b' ').take(4097));
        }
    }
    let mut by: Vec<u8> = vec![];
    for i in 0..n_items {
        let len = match i {
            40 => 5000,
            700 => 9000,
            1100 => 20000,
            _ => (i * 5) % 23,
        };
        by.extend((0..len).map(|j| match j % 13 {
            3 => b' ',
            5 => b'\'',
            7 => b'\n',
            9 => 0xff,
            _ => b'a' + (i % 26) as u8,
        }));
        by.push(0);
        if i == 900 {
            by.extend(std::iter::repeat(0u8).take(8193));
        }
    }
    if matches!(tokenize(&ws), Tokens::Unjudged(_)) {
        ctx.rep.machinery("scale slice: the reference tokenizer does not judge the long stream".into());
    }
    let by_comma: Vec<u8> = by.iter().map(|&b| if b == 0 { b',' } else { b }).collect();
    let cases: [(ReaderKind2, &Vec<u8>); 3] = [(ReaderKind2::Ws, &ws), (ReaderKind2::Byte(0), &by), (ReaderKind2::Byte(b','), &by_comma)];
    let mut job = 0u64;
    for (kind, data) in cases {
        let mut schedules: Vec<Vec<usize>> = vec![vec![]];
        for c in [1usize, 7, 4095, 4096, 4097, 8191, 8192, 8193] {
            schedules.push(vec![c; data.len() / c + 1]);
        }
        for k in 0..24usize {
            for (base, delta) in [(4096usize, -1i64), (4096, 1), (8192, -1), (8192, 1)] {
                let mut v = vec![base; data.len() / base + 1];
                if k < v.len() {
                    v[k] = (base as i64 + delta) as usize;
                    schedules.push(v);
                }
            }
        }
        let one = run_reader(&kind, data, &[], None, None, reads);
        for sched in schedules {
            job += 1;
            if job % ctx.nshards != ctx.shard {
                continue;
            }
            let got = run_reader(&kind, data, &sched, None, None, reads);
            ctx.rep.evaluations += 1;
            ctx.rep.nontrivial += 1;
            ctx.rep.count("scale_schedules", 1);
            *states += sched.len() as u64;
            let j = match kind {
                ReaderKind2::Ws => judge_ws(data, &got),
                ReaderKind2::Byte(d) => judge_byte(data, d, &got),
            };
            if let Some((sig, detail)) = j {
                ctx.rep.violation(&format!("{sig} (long stream)"), short_detail(&detail), case_json(kind, data, &sched, None));
            } else if got != one {
                ctx.rep.violation("C05 result depends on how the stream is cut into read() chunks (long stream)", format!("{} vs {}", tail(&one), tail(&got)), case_json(kind, data, &sched, None));
            }
        }
    }
}

fn tail(t: &Toks) -> String {
    match t {
        Ok(v) => format!("{} args, last {:?}", v.len(), v.iter().rev().take(3).rev().map(|(b, h)| (show(&b[b.len().saturating_sub(8)..]), *h)).collect::<Vec<_>>()),
        Err(e) => format!("Err({e})"),
    }
}

fn short_detail(d: &str) -> String {
    d.lines().map(|l| if l.len() > 300 { format!("{}…{}", &l[..120], &l[l.len() - 120..]) } else { l.to_string() }).collect::<Vec<_>>().join("\n")
}

/// strings <= 3 symbols piped into the real `xargs vrec LOG`, fed byte by byte and in one write
fn binary_slice(ctx: &mut Ctx) {
    use std::io::Write;
    let maxlen = ctx.tier.pick(2, 3);
    let vrec = crate::engine::self_bin_dir().join("vrec");
    let log = ctx.sbx.join(".mc-vrec.log");
    let mut todo: Vec<Vec<u8>> = vec![];
    strings(&WS_ALPHA, maxlen, &mut |s, _| {
        if ctx.next_mine() {
            todo.push(s.to_vec());
        }
    });
    let reads = std::rc::Rc::new(std::cell::Cell::new(0u64));
    for s in todo {
        let inproc = run_reader(&ReaderKind2::Ws, &s, &[], None, None, &reads);
        for bytewise in [false, true] {
            let _ = std::fs::remove_file(&log);
            let args: Vec<&std::ffi::OsStr> = vec![vrec.as_os_str(), log.as_os_str()];
            let (code, _o, err) = crate::xargsrun::run_xargs_bin(&args, &ctx.sbx, &[], &mut |si| {
                if bytewise {
                    for b in &s {
                        let _ = si.write_all(&[*b]);
                        let _ = si.flush();
                    }
                } else {
                    let _ = si.write_all(&s);
                }
            });
            ctx.rep.evaluations += 1;
            let recs = crate::vreclog::read(&log).unwrap_or_default();
            let got: Vec<Vec<u8>> = recs.into_iter().flat_map(|r| r.args).collect();
            match (&inproc, &code) {
                (Ok(v), Ok(0)) => {
                    let want: Vec<Vec<u8>> = v.iter().map(|x| x.0.clone()).collect();
                    if want != got {
                        ctx.rep.violation(
                            "C05 argv seen by the command differs from the reader's tokens (binary level)",
                            format!("input {:?} bytewise={bytewise}: tokens {} but argv {:?}", show(&s), show_toks(&inproc), got.iter().map(|b| show(b)).collect::<Vec<_>>()),
                            json!({"prop":"C05","binary":true,"input":s}),
                        );
                    } else {
                        ctx.rep.traces_validated += 1;
                    }
                }
                (Err(_), Ok(1)) => ctx.rep.traces_validated += 1,
                (Err(e), _) if e.starts_with("PANIC") => {}
                _ => ctx.rep.machinery(format!("bindings disagree on {:?}: in-process {} vs binary status {:?} stderr {:?}", show(&s), show_toks(&inproc), code, String::from_utf8_lossy(&err))),
            }
        }
    }
    let _ = std::fs::remove_file(&log);
    if ctx.shard == 0 {
        delimiter_option_slice(ctx);
    }
}

/// The -d operand through the real option parser: the input must be split at exactly the byte
/// (sequence) the operand names and nowhere else — or the operand refused and nothing run.
/// Inputs that are not regular files with a truthful size: a /proc file (st_size 0), a FIFO, the
/// process's own /proc/self/cmdline (NUL-separated), via -a FILE and via standard input.
fn special_input_slice(ctx: &mut Ctx) {
    use std::ffi::OsStr;
    let sbx = ctx.sbx.clone();
    let vrec = crate::engine::self_bin_dir().join("vrec");
    let xargs = crate::binrun::repo_bin("xargs");
    let log = sbx.join(".mc-vrec.log");
    let fifo = sbx.join(".mc-fifo");
    let _ = std::fs::remove_file(&fifo);
    let cf = std::ffi::CString::new(fifo.to_string_lossy().as_bytes()).unwrap();
    if unsafe { libc::mkfifo(cf.as_ptr(), 0o600) } != 0 {
        ctx.rep.machinery("mkfifo".into());
        return;
    }
    let ostype = std::fs::read_to_string("/proc/sys/kernel/ostype").unwrap_or_default().trim().to_string();
    let (x, v, l, f) = (xargs.display().to_string(), vrec.display().to_string(), log.display().to_string(), fifo.display().to_string());
    // (shell command, expected invocations, writes to the FIFO?)
    let cases: Vec<(String, Vec<Vec<String>>, bool)> = vec![
        (format!("exec {x} -a /proc/sys/kernel/ostype {v} {l}"), vec![vec![ostype.clone()]], false),
        (format!("exec {x} {v} {l} < /proc/sys/kernel/ostype"), vec![vec![ostype.clone()]], false),
        (format!("exec {x} -n2 -a {f} {v} {l}"), vec![vec!["a".into(), "b".into()], vec!["c".into(), "d".into()], vec!["e".into()]], true),
        (format!("exec {x} -n2 {v} {l} < {f}"), vec![vec!["a".into(), "b".into()], vec!["c".into(), "d".into()], vec!["e".into()]], true),
        (format!("exec {x} -0 -a /proc/self/cmdline {v} {l}"), vec![vec![x.clone(), "-0".into(), "-a".into(), "/proc/self/cmdline".into(), v.clone(), l.clone()]], false),
        (format!("exec {x} -0 {v} {l} < /proc/self/cmdline"), vec![vec![x.clone(), "-0".into(), v.clone(), l.clone()]], false),
    ];
    for (cmd, want, uses_fifo) in cases {
        let _ = std::fs::remove_file(&log);
        let writer = if uses_fifo {
            let fp = fifo.clone();
            Some(std::thread::spawn(move || {
                use std::io::Write;
                if let Ok(mut w) = std::fs::OpenOptions::new().write(true).open(&fp) {
                    let _ = w.write_all(b"a b\nc ");
                    std::thread::sleep(std::time::Duration::from_millis(30));
                    let _ = w.write_all(b"d e\n");
                }
            }))
        } else {
            None
        };
        let o = crate::binrun::run(std::path::Path::new("/bin/sh"), &[OsStr::new("-c"), OsStr::new(&cmd)], &sbx, &crate::binrun::Opts { timeout_s: 30, ..Default::default() });
        if let Some(w) = writer {
            let _ = w.join();
        }
        let got: Vec<Vec<String>> = crate::vreclog::read(&log).unwrap_or_default().into_iter().map(|r| r.args.iter().map(|a| String::from_utf8_lossy(a).to_string()).collect()).collect();
        ctx.rep.evaluations += 1;
        ctx.rep.nontrivial += 1;
        ctx.rep.count("special_input_cases", 1);
        if got != want || o.code != Some(0) {
            ctx.rep.violation(
                "C05 arguments lost or altered when the input is a FIFO or a /proc file (not a regular file with a truthful size)",
                format!("sh -c {cmd:?}: status {:?}\n expected {:?}\n actual   {:?}\n stderr {:?}", o.code, want, got, String::from_utf8_lossy(&o.err)),
                json!({"prop":"C05","binary":true,"input":[]}),
            );
        } else {
            ctx.rep.traces_validated += 1;
        }
    }
    let _ = std::fs::remove_file(&fifo);
    // runs of 300 000 bare delimiters between the items, the binary under a 1 MiB stack: repeated
    // separators yield no argument however many they are (-0, -d C, and blanks/newlines in default mode)
    for (opts, delim) in [(vec!["-0"], 0u8), (vec!["-d", "\\n"], b'\n'), (vec!["-d", ","], b','), (vec![], b'\n'), (vec![], b' ')] {
        let mut data: Vec<u8> = b"a".to_vec();
        data.extend(std::iter::repeat(delim).take(300_000));
        data.extend_from_slice(b"b");
        data.push(delim);
        data.extend_from_slice(b"c");
        data.extend(std::iter::repeat(delim).take(300_000));
        data.extend_from_slice(b"d");
        data.extend(std::iter::repeat(delim).take(5));
        let _ = std::fs::remove_file(&log);
        let mut args: Vec<&OsStr> = opts.iter().map(OsStr::new).collect();
        args.extend([OsStr::new("-n2"), vrec.as_os_str(), log.as_os_str()]);
        let o = crate::binrun::run(&xargs, &args, &sbx, &crate::binrun::Opts { stack: Some(1 << 20), stdin: Some(data), timeout_s: 60, ..Default::default() });
        let got: Vec<Vec<String>> = crate::vreclog::read(&log).unwrap_or_default().into_iter().map(|r| r.args.iter().map(|a| String::from_utf8_lossy(a).to_string()).collect()).collect();
        ctx.rep.evaluations += 1;
        ctx.rep.nontrivial += 1;
        ctx.rep.count("special_input_cases", 1);
        let want: Vec<Vec<String>> = vec![vec!["a".into(), "b".into()], vec!["c".into(), "d".into()]];
        if got != want || o.code != Some(0) {
            ctx.rep.violation(
                "C05 a long run of bare separators: arguments lost, or xargs died",
                format!("xargs {:?} -n2 on a, 300000 separators (byte {delim:#04x}), b, c, 300000 separators, d under a 1 MiB stack: status {:?} signal {:?}\n expected {:?}\n actual   {:?}\n stderr {:?}", opts, o.code, o.signal, want, got, String::from_utf8_lossy(&o.err).lines().take(2).collect::<Vec<_>>()),
                json!({"prop":"C05","binary":true,"input":[]}),
            );
        }
    }
    let _ = std::fs::remove_file(&log);
}

fn delimiter_option_slice(ctx: &mut Ctx) {
    use std::io::Write;
    let vrec = crate::engine::self_bin_dir().join("vrec");
    let log = ctx.sbx.join(".mc-vrec.log");
    // (operand, delimiter bytes it names)
    let cases: [(&str, &[u8]); 17] = [(",", b","), ("\\n", b"\n"), ("\\0", b"\0"), ("\\00", b"\0"), ("\\x2c", b","), ("\\054", b","), ("\\t", b"\t"), ("\\f", b"\x0c"), ("\\v", b"\x0b"), ("\\a", b"\x07"), ("\\b", b"\x08"), ("\\r", b"\r"), ("\\\\", b"\\"), ("\\x0c", b"\x0c"), ("\u{e9}", "\u{e9}".as_bytes()), ("\u{e0}", "\u{e0}".as_bytes()), ("ab", b"ab")];
    for (operand, delim) in cases {
        // (a NUL can only be in the input when it is the delimiter: it cannot be part of an argument)
        let input: Vec<u8> = format!("one\u{e9}tw\u{e0}o,thr\u{e9}e\tfo ur\nfi'v\"e{}si\\x ab seven\x0ceight\x0bnine\x07ten\x08eleven\rtwelve", if delim == b"\0" { "\0" } else { ";" }).into_bytes();
        // every way of writing the option: -d OP, -dOP, --delimiter OP, --delimiter=OP (for NUL also -0, --null)
        let mut forms: Vec<Vec<String>> = vec![vec!["-d".into(), operand.to_string()], vec![format!("-d{operand}")], vec!["--delimiter".into(), operand.to_string()], vec![format!("--delimiter={operand}")]];
        if operand == "\\00" {
            forms.push(vec!["-0".into()]);
            forms.push(vec!["--null".into()]);
        }
        for form in forms {
        let _ = std::fs::remove_file(&log);
        let mut args: Vec<&std::ffi::OsStr> = form.iter().map(std::ffi::OsStr::new).collect();
        args.extend([vrec.as_os_str(), log.as_os_str()]);
        let (code, _o, err) = crate::xargsrun::run_xargs_bin(&args, &ctx.sbx, &[], &mut |si| {
            let _ = si.write_all(&input);
        });
        let operand = &form.join(" ");
        ctx.rep.evaluations += 1;
        ctx.rep.nontrivial += 1;
        let got: Vec<Vec<u8>> = crate::vreclog::read(&log).unwrap_or_default().into_iter().flat_map(|r| r.args).collect();
        // reference split at the full delimiter sequence, empty fields dropped or kept (both accepted)
        let mut want: Vec<Vec<u8>> = vec![];
        let mut cur: Vec<u8> = vec![];
        let mut i = 0;
        while i < input.len() {
            if input[i..].starts_with(delim) {
                want.push(std::mem::take(&mut cur));
                i += delim.len();
            } else {
                cur.push(input[i]);
                i += 1;
            }
        }
        want.push(cur);
        let nonempty = |v: &Vec<Vec<u8>>| v.iter().filter(|a| !a.is_empty()).cloned().collect::<Vec<_>>();
        let refused = code != Ok(0) && got.is_empty();
        // `\0` alone: GNU reads it as NUL, the repository's own unit test pins it as an error and the
        // statement only speaks of "-d C", so both outcomes are accepted (never a different byte).
        let may_refuse = delim.len() > 1 || operand.ends_with("\\0");
        let ok = refused && may_refuse || code == Ok(0) && nonempty(&got) == nonempty(&want);
        if !ok {
            ctx.rep.violation(
                if delim.len() > 1 { "C05 -d with an operand longer than one byte is neither refused nor honoured as a whole" } else { "C05 -d OPERAND does not split at exactly the byte the operand names" },
                format!("xargs {operand} on {:?}: status {:?} stderr {:?}\n argv {:?}\n expected {:?}{}", show(&input), code, String::from_utf8_lossy(&err), got.iter().map(|b| show(b)).collect::<Vec<_>>(), want.iter().map(|b| show(b)).collect::<Vec<_>>(), if may_refuse { " (or the operand refused and nothing run)" } else { "" }),
                json!({"prop":"C05","binary":true,"input":input}),
            );
        } else {
            ctx.rep.traces_validated += 1;
        }
        }
    }
    let _ = std::fs::remove_file(&log);
}

fn replay(case: &Value, ctx: &mut Ctx) -> Option<String> {
    if case["binary"] == true {
        println!("binary-level cases are replayed by re-running the check");
        return None;
    }
    let data: Vec<u8> = case["input"].as_array()?.iter().map(|v| v.as_u64().unwrap_or(0) as u8).collect();
    let chunks: Vec<usize> = case["chunks"].as_array()?.iter().map(|v| v.as_u64().unwrap_or(1) as usize).collect();
    let eintr = case["eintr_before"].as_u64().map(|x| x as usize);
    let kind = match &case["reader"] {
        Value::String(_) => ReaderKind2::Ws,
        v => ReaderKind2::Byte(v.as_u64().unwrap_or(0) as u8),
    };
    let reads = std::rc::Rc::new(std::cell::Cell::new(0u64));
    let one = run_reader(&kind, &data, &[], None, None, &reads);
    let got = run_reader(&kind, &data, &chunks, eintr, None, &reads);
    println!("single read: {}\nas recorded: {}", tail(&one), tail(&got));
    let j = match kind {
        ReaderKind2::Ws => judge_ws(&data, &got),
        ReaderKind2::Byte(d) => judge_byte(&data, d, &got),
    };
    if let Some((sig, detail)) = j {
        ctx.rep.violation(&sig, short_detail(&detail), case.clone());
        return Some(sig);
    }
    if one != got {
        let sig = "C05 result depends on how the stream is cut into read() chunks".to_string();
        ctx.rep.violation(&sig, format!("{} vs {}", tail(&one), tail(&got)), case.clone());
        return Some(sig);
    }
    None
}
