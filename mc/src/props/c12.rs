//! C12 globs = fnmatch — every sequence of pattern atoms x every short subject, observed through
//! -lname (link targets are the subjects), -name, -path and the -i forms; oracle = glibc
//! fnmatch(3) AND a reference matcher written from the statement, which must agree.

use crate::engine::{Ctx, Prop, Spec, Tier};
use crate::findrun::run_find;
use crate::model::glob as g;
use serde_json::{json, Value};
use std::collections::{BTreeSet, HashMap};
use std::ffi::CString;
use std::os::unix::ffi::OsStrExt;
use std::os::unix::fs::MetadataExt;

pub const PROP: Prop = Prop { id: "C12", spec, run, replay };

const ATOMS: [&str; 36] = [
    "a", "b", "A", ".", "^", "$", "+", "(", "{", "|", "/", "-", "*", "?", "\\*", "\\?", "\\[", "\\\\", "\\a", "\\.", "[ab]", "[!a]", "[a-c]", "[]a]", "[!]a]", "[a-]", "[[:alpha:]]", "[![:digit:]a]", "[\\]]", "[[]", "[.]", "[!/]", "[/a]", "[", "]", "!",
];
const SUB_ATOMS: [&str; 12] = ["a", "b", "*", "?", "\\*", "\\\\", "[ab]", "[!a]", "[]a]", "[", "]", "!"];
const SUBJ: [u8; 15] = [b'a', b'b', b'A', b'c', b'.', b'/', b'\n', b'[', b']', b'!', b'-', b'\\', b'*', b'^', b'1'];

fn spec(t: Tier) -> Spec {
    Spec {
        id: "C12",
        level: "exploration",
        rule: format!("pattern = sequence of atoms from {:?} (literals incl. regex metacharacters, * ?, backslash escapes, well-formed bracket expressions with negation/range/class/leading ]/escaped ]/inner [, '/' inside a bracket, stray [ ] !); subject = every non-empty string of <= k characters over {:?}. -lname: one directory of symbolic links whose targets are all the subjects; -name: files named by the '/'-free subjects; -path: the same files, pattern prefixed by the literal directory; -ilname/-iname/-ipath with case folding. Slices: {}; plus every pattern of <= 2 atoms given to -iname and to -name in the same expression; plus -name/-iname on starting points spelled N, ./N, N/, N//, N/., N/.., ., .., N/./., N/../N, N/./, N/.//, N/../, ./, .//, ../ (subject = last path component as given). Tree slice: a directory tree whose paths continue one another's text (T/ab, T/ab/x, T/abc/g, T/abd, T/a/b/c, 'T/a b/y', T/AB/x) walked as one and as several starting points in different orders: -path/-wholename/-ipath/-iwholename with every path, every proper prefix + *, * + every suffix and every path with one character replaced by ?, -name/-iname likewise on the names, all evaluated on every entry in turn (oracle fnmatch). Unreadable-link slice (as uid 65534): a link in a directory of mode 0444 cannot be read; links in directories whose paths continue that directory's text, and in later starting points, are still matched. Environment slice (binary): nine patterns x -name/-iname/-path/-lname on dot-files with POSIXLY_CORRECT set (also empty), LC_ALL=en_US.UTF-8, LANG=C — the selection is fnmatch's without FNM_PERIOD whatever the environment; -lname on /proc/self/cwd and /proc/self/exe (lstat size 0). Long slice: runs of 1..14 `?` (alone, after/before `*`, between literals), 1..14 brackets, two/three stars separated by brackets, `?` or literals, literal patterns of 15..240 bytes, against subjects of 1..14, 20, 40, 100, 140, 160, 200, 240 bytes, for -name, -iname, -path, -lname, -ilname (oracle glibc fnmatch, plus the reference matcher up to 40 bytes). For each (pattern, subject) the real find's selection must equal fnmatch(): glibc fnmatch(3) (C locale, flags 0 / FNM_CASEFOLD) and the reference matcher written from the statement must agree, otherwise the pair is counted as oracle-undecided and not judged. evaluation = (primary, pattern, subject); non-trivial = pattern containing a special atom (not only literals)", ATOMS, SUBJ.iter().map(|c| (*c as char).to_string()).collect::<Vec<_>>(), t.pick("-lname atoms<=3 x k<=3 and 12-atom sub-alphabet<=3 x k<=3; other primaries atoms<=2 x k<=3", "-lname atoms<=4 x k<=3, atoms<=3 x k<=4, sub-alphabet<=5 x k<=3; other five primaries atoms<=3 x k<=3")),
        bound: json!({"atoms": ATOMS.len(), "sub_atoms": SUB_ATOMS.len(), "subject_alphabet": SUBJ.len()}),
        assumptions: vec![
            "ASCII only (glibc's C locale is bytewise)".into(),
            "patterns the reference parser calls unspecified (bracket starting with ^, reversed range, unknown class, [. .] [= =], unterminated [: inside a bracket) and character classes under the -i forms are not judged".into(),
        ],
        shards: 0,
        wall_cap_s: t.pick(300, 7200),
    }
}

fn subjects(k: usize) -> Vec<Vec<u8>> {
    let mut out: Vec<Vec<u8>> = vec![];
    let mut cur: Vec<Vec<u8>> = vec![vec![]];
    for _ in 0..k {
        let mut next = vec![];
        for s in &cur {
            for c in SUBJ {
                let mut t = s.clone();
                t.push(c);
                next.push(t);
            }
        }
        out.extend(next.iter().cloned());
        cur = next;
    }
    out
}

fn patterns(atoms: &[&str], n: usize) -> Vec<String> {
    let mut out: Vec<String> = vec![];
    let mut cur: Vec<String> = vec![String::new()];
    for _ in 0..n {
        let mut next = vec![];
        for p in &cur {
            for a in atoms {
                next.push(format!("{p}{a}"));
            }
        }
        out.extend(next.iter().cloned());
        cur = next;
    }
    out
}

#[derive(Clone, Copy, Debug, PartialEq, Eq)]
enum Mode {
    Lname,
    Name,
    Path,
    Ilname,
    Iname,
    Ipath,
}

impl Mode {
    fn prim(self) -> &'static str {
        match self {
            Mode::Lname => "-lname",
            Mode::Name => "-name",
            Mode::Path => "-path",
            Mode::Ilname => "-ilname",
            Mode::Iname => "-iname",
            Mode::Ipath => "-ipath",
        }
    }
    fn fold(self) -> bool {
        matches!(self, Mode::Ilname | Mode::Iname | Mode::Ipath)
    }
    fn dir(self) -> &'static str {
        match self {
            Mode::Lname | Mode::Ilname => "L",
            _ => "N",
        }
    }
    fn is_path(self) -> bool {
        matches!(self, Mode::Path | Mode::Ipath)
    }
    fn from(s: &str) -> Option<Mode> {
        [Mode::Lname, Mode::Name, Mode::Path, Mode::Ilname, Mode::Iname, Mode::Ipath].into_iter().find(|m| m.prim() == s)
    }
}

struct World {
    k: usize,
    /// subjects present as link targets in L/, with inode -> index
    l_subj: Vec<Vec<u8>>,
    l_ino: HashMap<u64, usize>,
    l_c: Vec<CString>,
    /// subjects present as file names in N/
    n_subj: Vec<Vec<u8>>,
    n_ino: HashMap<u64, usize>,
    n_c: Vec<CString>,
    /// "N/"+name
    np_c: Vec<CString>,
}

fn build(ctx: &Ctx, k: usize) -> Result<World, String> {
    let sbx = &ctx.sbx;
    for d in ["L", "N"] {
        let _ = crate::sandbox::force_remove(&sbx.join(d));
        std::fs::create_dir(sbx.join(d)).map_err(|e| e.to_string())?;
    }
    let all = subjects(k);
    let mut w = World { k, l_subj: vec![], l_ino: HashMap::new(), l_c: vec![], n_subj: vec![], n_ino: HashMap::new(), n_c: vec![], np_c: vec![] };
    for (i, s) in all.iter().enumerate() {
        let p = sbx.join(format!("L/s{i}"));
        std::os::unix::fs::symlink(std::ffi::OsStr::from_bytes(s), &p).map_err(|e| format!("symlink {:?}: {e}", String::from_utf8_lossy(s)))?;
        let ino = std::fs::symlink_metadata(&p).map_err(|e| e.to_string())?.ino();
        w.l_ino.insert(ino, w.l_subj.len());
        w.l_c.push(CString::new(s.clone()).unwrap());
        w.l_subj.push(s.clone());
        if !s.contains(&b'/') && s != b"." && s != b".." {
            let p = sbx.join("N").join(std::ffi::OsStr::from_bytes(s));
            std::fs::write(&p, b"").map_err(|e| e.to_string())?;
            let ino = std::fs::symlink_metadata(&p).map_err(|e| e.to_string())?.ino();
            w.n_ino.insert(ino, w.n_subj.len());
            w.n_c.push(CString::new(s.clone()).unwrap());
            let mut full = b"N/".to_vec();
            full.extend_from_slice(s);
            w.np_c.push(CString::new(full).unwrap());
            w.n_subj.push(s.clone());
        }
    }
    Ok(w)
}

fn feature(p: &str) -> &'static str {
    let b = p.as_bytes();
    // look inside bracket-looking spans
    let mut in_br = false;
    let mut feats: BTreeSet<&'static str> = BTreeSet::new();
    let mut i = 0;
    while i < b.len() {
        let c = b[i];
        if !in_br {
            match c {
                b'\\' => {
                    feats.insert("h backslash escape");
                    i += 1;
                }
                b'[' => {
                    if b[i + 1..].contains(&b']') {
                        in_br = true;
                        if b.get(i + 1) == Some(&b'!') {
                            feats.insert("f negated bracket");
                            i += 1;
                        }
                        if b.get(i + 1) == Some(&b']') {
                            feats.insert("d bracket with leading ]");
                            i += 1;
                        }
                        feats.insert("g bracket expression");
                    } else {
                        feats.insert("g2 stray [");
                    }
                }
                b'*' => {
                    feats.insert("i *");
                }
                b'?' => {
                    feats.insert("j ?");
                }
                _ => {}
            }
        } else {
            match c {
                b']' => in_br = false,
                b'\\' => {
                    feats.insert("a backslash inside bracket");
                    i += 1;
                }
                b'[' => {
                    if matches!(b.get(i + 1), Some(b':')) {
                        feats.insert("c character class");
                    } else {
                        feats.insert("b [ inside bracket");
                    }
                }
                b'-' => {
                    feats.insert("e range or - in bracket");
                }
                _ => {}
            }
        }
        i += 1;
    }
    feats.into_iter().next().map(|s| &s[s.find(' ').unwrap() + 1..]).unwrap_or("literals only")
}

fn show(b: &[u8]) -> String {
    String::from_utf8_lossy(b).replace('\n', "\\n")
}

/// Evaluate a batch of patterns under one mode; returns per pattern the selected subject indices.
fn run_batch(w: &World, mode: Mode, pats: &[String]) -> Result<Vec<BTreeSet<usize>>, (String, crate::findrun::FindOut, Vec<String>)> {
    let mut argv: Vec<String> = vec![mode.dir().into(), "-mindepth".into(), "1".into(), "(".into()];
    for (k, p) in pats.iter().enumerate() {
        if k > 0 {
            argv.push(",".into());
        }
        argv.push(mode.prim().into());
        argv.push(if mode.is_path() { format!("N/{p}") } else { p.clone() });
        argv.push("-printf".into());
        argv.push(format!("L{k} %i\\n"));
    }
    argv.push(")".into());
    let args: Vec<&str> = argv.iter().map(|s| s.as_str()).collect();
    let out = run_find(&args);
    if out.code != Ok(0) {
        return Err(("non-zero status or panic".into(), out, argv));
    }
    if (pats[0].len() * 31 + pats.len() + pats[pats.len() - 1].len() * 7) % 41 == 0 {
        match crate::findrun::cross_check_bin(&args, &out) {
            Ok(()) => XOK.with(|x| x.set(x.get() + 1)),
            Err(e) => return Err((format!("MACHINERY {e}"), out, argv)),
        }
    }
    let inos = if mode.dir() == "L" { &w.l_ino } else { &w.n_ino };
    let mut sel: Vec<BTreeSet<usize>> = vec![BTreeSet::new(); pats.len()];
    let text = String::from_utf8_lossy(&out.out).to_string();
    for line in text.split_terminator('\n') {
        let ok = (|| {
            let (l, i) = line.split_once(' ')?;
            let k: usize = l.strip_prefix('L')?.parse().ok()?;
            let idx = *inos.get(&i.parse::<u64>().ok()?)?;
            sel.get_mut(k)?.insert(idx);
            Some(())
        })();
        if ok.is_none() {
            return Err((format!("stray output line {line:?}"), out, argv));
        }
    }
    Ok(sel)
}

thread_local! {
    static XOK: std::cell::Cell<u64> = const { std::cell::Cell::new(0) };
}

fn judge_batch(ctx: &mut Ctx, w: &World, mode: Mode, pats: &[String]) {
    let sel = match run_batch(w, mode, pats) {
        Ok(s) => s,
        Err((why, _, _)) if why.starts_with("MACHINERY ") => {
            ctx.rep.machinery(why);
            return;
        }
        Err((why, out, argv)) => {
            if pats.len() > 1 {
                for p in pats {
                    judge_batch(ctx, w, mode, std::slice::from_ref(p));
                }
                return;
            }
            let sig = if out.panicked() { format!("C12 {} panic: {}", mode.prim(), feature(&pats[0])) } else { format!("C12 {} pattern rejected / non-zero status: {}", mode.prim(), feature(&pats[0])) };
            ctx.rep.violation(&sig, format!("{why}\nfind {:?}\n{}", argv, out.brief()), json!({"prop":"C12","mode":mode.prim(),"pattern":pats[0],"k":w.k}));
            return;
        }
    };
    let (subs, cs) = match mode {
        Mode::Lname | Mode::Ilname => (&w.l_subj, &w.l_c),
        Mode::Name | Mode::Iname => (&w.n_subj, &w.n_c),
        _ => (&w.n_subj, &w.np_c),
    };
    let fold = mode.fold();
    for (pi, p) in pats.iter().enumerate() {
        let full = if mode.is_path() { format!("N/{p}") } else { p.clone() };
        let parsed = g::parse(full.as_bytes());
        let nontrivial = feature(p) != "literals only";
        let parsed = match parsed {
            Ok(x) if !(fold && g::has_class(&x)) => x,
            _ => {
                ctx.rep.count("patterns_not_judged_unspecified", 1);
                ctx.rep.evaluations += subs.len() as u64;
                continue;
            }
        };
        let pc = CString::new(full.clone()).unwrap();
        let mut undecided = 0u64;
        for (si, s) in subs.iter().enumerate() {
            let subj: &[u8] = cs[si].as_bytes();
            let r = g::matches(&parsed, subj, fold);
            let l = g::libc_fnmatch(&pc, &cs[si], fold);
            ctx.rep.evaluations += 1;
            if l != Some(r) {
                undecided += 1;
                continue;
            }
            if nontrivial {
                ctx.rep.nontrivial += 1;
            }
            let got = sel[pi].contains(&si);
            if got != r {
                let dir = if got { "matches but fnmatch does not" } else { "does not match but fnmatch does" };
                ctx.rep.violation(
                    &format!("C12 {} {dir}: {}", mode.prim(), feature(p)),
                    format!("{} {:?} on subject {:?}: find says {got}; glibc fnmatch and the reference matcher both say {r}", mode.prim(), full, show(s)),
                    json!({"prop":"C12","mode":mode.prim(),"pattern":p,"subject":show(s),"k":w.k}),
                );
            }
        }
        if undecided > 0 {
            ctx.rep.count("pairs_oracle_undecided", undecided);
        }
        ctx.rep.class(&format!("{} {} selected={}", mode.prim(), feature(p), sel[pi].len().min(3)));
    }
}

fn slices(t: Tier) -> Vec<(Mode, Vec<String>, usize)> {
    let mut v = vec![];
    let others = [Mode::Name, Mode::Path, Mode::Ilname, Mode::Iname, Mode::Ipath];
    match t {
        Tier::Quick => {
            v.push((Mode::Lname, patterns(&ATOMS, 3), 3));
            v.push((Mode::Lname, patterns(&SUB_ATOMS, 3), 3));
            for m in others {
                v.push((m, patterns(&ATOMS, 2), 3));
            }
        }
        Tier::Thorough => {
            v.push((Mode::Lname, patterns(&ATOMS, 4), 3));
            v.push((Mode::Lname, patterns(&ATOMS, 3), 4));
            v.push((Mode::Lname, patterns(&SUB_ATOMS, 5), 3));
            for m in others {
                v.push((m, patterns(&ATOMS, 3), 3));
            }
        }
    }
    v
}

/// Long patterns against long subjects (far beyond the exhaustive slices): runs of 1..14 `?`
/// (alone, after and before `*`), 1..14 one-member brackets, two and three stars separated by
/// brackets / `?` / literals, literal patterns as long as the subject; subjects of 1..14, 20, 40, 100,
/// 140, 160, 200 and 240 bytes over a/b/digits. -name/-iname on files, -path with the directory
/// prefix, -lname/-ilname on links with these targets; oracle glibc fnmatch (and the reference
/// matcher for subjects of <= 40 bytes).
fn long_slice(ctx: &mut Ctx) {
    use crate::props::labelled::{run_labelled, t};
    let sbx = ctx.sbx.clone();
    for d in ["G", "GL"] {
        let _ = crate::sandbox::force_remove(&sbx.join(d));
        if let Err(e) = std::fs::create_dir(sbx.join(d)) {
            ctx.rep.machinery(format!("sandbox: {e}"));
            return;
        }
    }
    let mut subjects: Vec<String> = vec![];
    for len in (1..=14usize).chain([20, 40, 100, 140, 160, 200, 240]) {
        subjects.push("a".repeat(len));
        subjects.push(format!("{}b", "a".repeat(len - 1)));
        subjects.push(format!("b{}", "a".repeat(len - 1)));
        subjects.push((0..len).map(|i| if i % 2 == 0 { 'a' } else { 'b' }).collect());
        subjects.push(format!("{}7{}", "a".repeat(len / 2), "b".repeat(len - len / 2)));
        subjects.push((0..len).map(|i| if i % 3 == 0 { 'A' } else { 'a' }).collect());
        if len >= 3 {
            // the only way to match `*[a]*[b]*` / `*[a-z]*[0-9]*` lies at the very start: a backtracking
            // matcher reaches it last
            subjects.push(format!("ab{}", "a".repeat(len - 2)));
            subjects.push(format!("a7{}", "a".repeat(len - 2)));
        }
    }
    subjects.sort();
    subjects.dedup();
    for (i, sub) in subjects.iter().enumerate() {
        if std::fs::write(sbx.join("G").join(sub), b"").is_err() || std::os::unix::fs::symlink(sub, sbx.join("GL").join(format!("l{i:04}"))).is_err() {
            ctx.rep.machinery(format!("sandbox: cannot create {sub:?}"));
            return;
        }
    }
    let mut pats: Vec<String> = vec![];
    for k in 1..=14usize {
        pats.push("?".repeat(k));
        pats.push(format!("*{}", "?".repeat(k)));
        pats.push(format!("{}*", "?".repeat(k)));
        pats.push(format!("a{}b", "?".repeat(k)));
        pats.push("[a]".repeat(k));
        pats.push(format!("{}*", "[ab]".repeat(k)));
    }
    pats.extend(["*[a]*[b]*", "*[a-z]*[0-9]*", "*[b]*[a]*[b]", "*?*?*b", "*a*a*b", "*a*b*a", "*[!a]*[!b]*", "a*a*a", "*ab*ab*", "*[0-9]*", "*7*b"].map(String::from));
    for len in [15usize, 20, 40, 100, 140, 200, 240] {
        pats.push("a".repeat(len));
        pats.push(format!("{}b", "a".repeat(len - 1)));
        pats.push(format!("{}*", "a".repeat(len - 1)));
        pats.push(format!("*{}", "a".repeat(len - 1)));
    }
    let cs = |s: &str| CString::new(s).unwrap();
    let mut job = 0u64;
    for prim in ["-name", "-iname", "-path", "-lname", "-ilname"] {
        let fold = prim.starts_with("-i");
        for batch in pats.chunks(24) {
            job += 1;
            if job % ctx.nshards != ctx.shard {
                continue;
            }
            let (root, tests): (&str, Vec<_>) = match prim {
                "-path" => ("G", batch.iter().map(|p| t(&[prim, &format!("G/{p}")])).collect()),
                "-lname" | "-ilname" => ("GL", batch.iter().map(|p| t(&[prim, p])).collect()),
                _ => ("G", batch.iter().map(|p| t(&[prim, p])).collect()),
            };
            std::env::set_current_dir(&sbx).unwrap();
            let sel = match run_labelled(&[], &[root], &["-mindepth", "1"], &tests, std::time::SystemTime::now()) {
                Ok(s) => s,
                Err((why, out, argv)) => {
                    ctx.rep.violation(&format!("C12 {prim} long patterns: output cannot be attributed"), format!("{why}; find {:?} -> {}", argv.iter().take(8).collect::<Vec<_>>(), out.brief()), json!({"prop":"C12","long":true}));
                    continue;
                }
            };
            if sel.out.code != Ok(0) {
                ctx.rep.violation(&format!("C12 {prim} long patterns: non-zero status / panic"), sel.out.brief(), json!({"prop":"C12","long":true}));
                continue;
            }
            for (k, p) in batch.iter().enumerate() {
                for (i, sub) in subjects.iter().enumerate() {
                    let Some(want) = g::libc_fnmatch(&cs(p), &cs(sub), fold) else { continue };
                    if sub.len() <= 40 {
                        match g::parse(p.as_bytes()) {
                            Ok(parsed) if !(fold && g::has_class(&parsed)) => {
                                if g::matches(&parsed, sub.as_bytes(), fold) != want {
                                    ctx.rep.count("oracle_undecided", 1);
                                    continue;
                                }
                            }
                            _ => {}
                        }
                    }
                    let path = if root == "GL" { format!("GL/l{i:04}") } else { format!("G/{sub}") };
                    let got = sel.sel[k].contains(&path);
                    ctx.rep.evaluations += 1;
                    ctx.rep.nontrivial += 1;
                    if got != want {
                        ctx.rep.violation(
                            &format!("C12 {prim} {} on a long pattern or subject", if want { "does not match but fnmatch does" } else { "matches but fnmatch does not" }),
                            format!("{prim} {:?} on a subject of {} bytes ({:?}...): find says {got}, fnmatch says {want}", if p.len() > 60 { format!("{}...({} bytes)", &p[..60], p.len()) } else { p.clone() }, sub.len(), &sub[..sub.len().min(30)]),
                            json!({"prop":"C12","long":true}),
                        );
                    }
                }
            }
            ctx.rep.count("long_pattern_batches", 1);
        }
    }
}

/// Environment: the answers do not depend on POSIXLY_CORRECT (find calls fnmatch without
/// FNM_PERIOD: `*`, `?` and brackets match a leading '.'), and link targets are read in full on
/// file systems whose lstat size is not the target's length (/proc/self/cwd, exe, fd/0).
fn environment_slice(ctx: &mut Ctx) {
    use crate::findrun::run_find_bin_env;
    let sbx = ctx.sbx.clone();
    let d = sbx.join("E");
    let _ = crate::sandbox::force_remove(&d);
    std::fs::create_dir(&d).unwrap();
    let names = [".h", ".hid", "a.b", "x", ".."];
    for n in [".h", ".hid", "a.b", "x"] {
        std::fs::write(d.join(n), b"").unwrap();
        let _ = std::os::unix::fs::symlink(n, d.join(format!("l{}", n.replace('.', "_"))));
    }
    let _ = names;
    let cs = |s: &str| CString::new(s).unwrap();
    let pats = ["*", "*h*", "?h", "[.]h", ".*", "*.b", "?*", "[!a]*", "*d"];
    for (var, val) in [("POSIXLY_CORRECT", "1"), ("POSIXLY_CORRECT", ""), ("LC_ALL", "en_US.UTF-8"), ("LANG", "C")] {
        for prim in ["-name", "-iname", "-path", "-lname"] {
            for p in pats {
                let pat = if prim == "-path" { format!("E/{p}") } else { p.to_string() };
                let got = run_find_bin_env(&["E", "-mindepth", "1", prim, &pat, "-printf", "%f\\n"], &sbx, None, &[(var, val)]);
                ctx.rep.evaluations += 1;
                ctx.rep.nontrivial += 1;
                ctx.rep.count("environment_cases", 1);
                let sel: BTreeSet<String> = String::from_utf8_lossy(&got.out).lines().map(String::from).collect();
                let mut want: BTreeSet<String> = BTreeSet::new();
                for n in [".h", ".hid", "a.b", "x"] {
                    let link = format!("l{}", n.replace('.', "_"));
                    match prim {
                        "-lname" => {
                            if g::libc_fnmatch(&cs(p), &cs(n), false) == Some(true) {
                                want.insert(link);
                            }
                        }
                        _ => {
                            for cand in [n.to_string(), link] {
                                if g::libc_fnmatch(&cs(p), &cs(&cand), prim == "-iname") == Some(true) {
                                    want.insert(cand);
                                }
                            }
                        }
                    }
                }
                if sel != want || got.code != Ok(0) {
                    ctx.rep.violation(
                        &format!("C12 {prim}: the answer depends on the environment variable {var}"),
                        format!("{var}={val:?} find E -mindepth 1 {prim} {pat:?}: selected {:?}, fnmatch (no flags) selects {:?}; status {:?}", sel, want, got.code),
                        json!({"prop":"C12","environment":true}),
                    );
                }
            }
        }
    }
    // /proc links of the find process itself: cwd -> the sandbox, exe -> the binary
    let exe = crate::engine::repo_bin_dir().join("find");
    let exe = std::fs::canonicalize(&exe).unwrap_or(exe).display().to_string();
    let cwd = std::fs::canonicalize(&sbx).unwrap_or(sbx.clone()).display().to_string();
    for (link, target) in [("/proc/self/cwd", cwd.as_str()), ("/proc/self/exe", exe.as_str())] {
        let tail = format!("*{}", &target[target.len().saturating_sub(6)..]);
        for (pat, want) in [("*", true), (target, true), (tail.as_str(), true), ("*no-such-tail", false)] {
            let got = run_find_bin_env(&[link, "-maxdepth", "0", "-lname", pat, "-printf", "%l\\n"], &sbx, None, &[]);
            ctx.rep.evaluations += 1;
            ctx.rep.nontrivial += 1;
            ctx.rep.count("environment_cases", 1);
            let out = String::from_utf8_lossy(&got.out).to_string();
            let ok = if want { out == format!("{target}\n") } else { out.is_empty() };
            if !ok || got.code != Ok(0) {
                ctx.rep.violation(
                    "C12 -lname on a /proc link (lstat size is not the length of the target)",
                    format!("find {link} -maxdepth 0 -lname {pat:?} -printf '%l\\n': output {out:?}, the target is {target:?} (expected {}); status {:?}", if want { "a match" } else { "no match" }, got.code),
                    json!({"prop":"C12","environment":true}),
                );
            }
        }
    }
    let _ = crate::sandbox::force_remove(&d);
}

fn run(ctx: &mut Ctx) {
    let mut job = 0u64;
    let mut world: Option<World> = None;
    if ctx.shard == 0 {
        let _ = std::fs::create_dir(ctx.sbx.join("N"));
        roots_slice(ctx);
    }
    if ctx.shard == 1 % ctx.nshards {
        environment_slice(ctx);
    }
    if ctx.shard == 2 % ctx.nshards {
        tree_history_slice(ctx);
    }
    if ctx.shard == 3 % ctx.nshards {
        unreadable_link_slice(ctx);
    }
    if ctx.shard == 4 % ctx.nshards {
        low_descriptor_slice(ctx);
    }
    long_slice(ctx);
    // mixed slice first (patterns of <= 2 atoms, subjects <= 2|3)
    {
        let k = ctx.tier.pick(2, 3);
        match build(ctx, k) {
            Ok(w) => {
                for batch in patterns(&ATOMS, 2).chunks(32) {
                    job += 1;
                    if ctx.mine(job) {
                        mixed_batch(ctx, &w, batch);
                    }
                }
                world = Some(w);
            }
            Err(e) => {
                ctx.rep.machinery(format!("sandbox: {e}"));
                return;
            }
        }
    }
    for (mode, pats, k) in slices(ctx.tier) {
        if world.as_ref().map(|w| w.k) != Some(k) {
            world = match build(ctx, k) {
                Ok(w) => Some(w),
                Err(e) => {
                    ctx.rep.machinery(format!("sandbox: {e}"));
                    return;
                }
            };
        }
        let w = world.as_ref().unwrap();
        ctx.rep.count(&format!("patterns {} k<={k}", mode.prim()), if ctx.shard == 0 { pats.len() as u64 } else { 0 });
        for batch in pats.chunks(64) {
            job += 1;
            if !ctx.mine(job) {
                continue;
            }
            ctx.progress(job);
            ctx.progress_note(&format!("{} {:?}", mode.prim(), &batch[0]));
            judge_batch(ctx, w, mode, batch);
            ctx.rep.traces_validated += xok_take();
            if job % 2003 == 5 || ctx.rep.samples.is_empty() {
                ctx.rep.sample(json!({"primary": mode.prim(), "patterns": batch.iter().take(8).collect::<Vec<_>>(), "subjects": w.l_subj.iter().skip(40).step_by(211).take(6).map(|s| show(s)).collect::<Vec<_>>()}));
            }
        }
    }
}

/// Both case sensitivities of the same pattern text in ONE invocation (state shared between
/// primaries, e.g. a cache of compiled patterns, must not leak one's flags into the other).
fn mixed_batch(ctx: &mut Ctx, w: &World, pats: &[String]) {
    let mut argv: Vec<String> = vec!["N".into(), "-mindepth".into(), "1".into(), "(".into()];
    for (k, p) in pats.iter().enumerate() {
        for (j, prim) in ["-iname", "-name"].iter().enumerate() {
            if k + j > 0 {
                argv.push(",".into());
            }
            argv.extend([prim.to_string(), p.clone(), "-printf".to_string(), format!("L{} %i\\n", 2 * k + j)]);
        }
    }
    argv.push(")".into());
    let args: Vec<&str> = argv.iter().map(|s| s.as_str()).collect();
    let out = run_find(&args);
    if out.code != Ok(0) {
        return; // rejected patterns are judged by the per-primary slices
    }
    let mut sel: Vec<BTreeSet<usize>> = vec![BTreeSet::new(); 2 * pats.len()];
    for line in String::from_utf8_lossy(&out.out).split_terminator('\n') {
        if let Some((l, i)) = line.split_once(' ') {
            if let (Some(k), Some(idx)) = (l.strip_prefix('L').and_then(|x| x.parse::<usize>().ok()), i.parse::<u64>().ok().and_then(|i| w.n_ino.get(&i))) {
                if k < sel.len() {
                    sel[k].insert(*idx);
                }
            }
        }
    }
    for (k, p) in pats.iter().enumerate() {
        let Ok(parsed) = g::parse(p.as_bytes()) else { continue };
        // (a backslash inside a bracket is the known finding of the per-primary slices)
        if g::has_class(&parsed) || feature(p) == "backslash inside bracket" {
            continue;
        }
        let pc = CString::new(p.clone()).unwrap();
        for (si, s) in w.n_subj.iter().enumerate() {
            for (j, fold) in [(0usize, true), (1, false)] {
                let r = g::matches(&parsed, s, fold);
                if g::libc_fnmatch(&pc, &w.n_c[si], fold) != Some(r) {
                    continue;
                }
                ctx.rep.evaluations += 1;
                ctx.rep.nontrivial += 1;
                let got = sel[2 * k + j].contains(&si);
                if got != r {
                    ctx.rep.violation(
                        &format!("C12 {} wrong when -iname and -name carry the same pattern in one expression", if fold { "-iname" } else { "-name" }),
                        format!("find N ( -iname {p:?} -printf .. , -name {p:?} -printf .. ): subject {:?}: {} says {got}, fnmatch says {r}", show(s), if fold { "-iname" } else { "-name" }),
                        json!({"prop":"C12","mode":"mixed","pattern":p,"subject":show(s),"k":w.k}),
                    );
                }
            }
        }
    }
}

/// -name/-iname on starting points: the subject is the last component of the starting point as
/// given ('.' and '..' are components; trailing slashes are not).
fn roots_slice(ctx: &mut Ctx) {
    let roots = ["N", "./N", "N/", "N//", "N/.", "N/..", ".", "..", "N/./.", "N/../N", "N/./", "N/.//", "N/../", "./", ".//", "../"];
    let pats = [".", "..", "N", "n", "*", "?", "??", "N*", ".*", "[.]", "[.][.]", "w", "*.", "\\."];
    for root in roots {
        let trimmed = root.trim_end_matches('/');
        let subject = if trimmed.is_empty() { "/" } else { trimmed.rsplit('/').next().unwrap() };
        for (prim, fold) in [("-name", false), ("-iname", true)] {
            let mut argv: Vec<String> = vec![root.into(), "-maxdepth".into(), "0".into(), "(".into()];
            for (k, p) in pats.iter().enumerate() {
                if k > 0 {
                    argv.push(",".into());
                }
                argv.extend([prim.to_string(), p.to_string(), "-printf".to_string(), format!("L{k}\\n")]);
            }
            argv.push(")".into());
            let args: Vec<&str> = argv.iter().map(|s| s.as_str()).collect();
            let out = run_find(&args);
            if out.code != Ok(0) {
                ctx.rep.violation(&format!("C12 {prim} on a starting point: non-zero status / panic"), format!("find {:?}\n{}", argv, out.brief()), json!({"prop":"C12","mode":"roots","root":root}));
                continue;
            }
            let text = String::from_utf8_lossy(&out.out).to_string();
            for (k, p) in pats.iter().enumerate() {
                let Ok(parsed) = g::parse(p.as_bytes()) else { continue };
                let want = g::matches(&parsed, subject.as_bytes(), fold);
                let (pc, sc) = (CString::new(*p).unwrap(), CString::new(subject).unwrap());
                if g::libc_fnmatch(&pc, &sc, fold) != Some(want) {
                    continue;
                }
                let got = text.lines().any(|l| l == format!("L{k}"));
                ctx.rep.evaluations += 1;
                ctx.rep.nontrivial += 1;
                if got != want {
                    let kind = if root.ends_with("/.") || root.ends_with("..") || root == "." { "ending in . or .." } else if root.ends_with('/') { "with a trailing slash" } else { "plain" };
                    ctx.rep.violation(
                        &format!("C12 {prim} on a starting point {kind}: subject is not its last path component"),
                        format!("find {root} -maxdepth 0 {prim} {p:?}: selected={got}; the last component of {root:?} is {subject:?}, fnmatch says {want}"),
                        json!({"prop":"C12","mode":"roots","root":root}),
                    );
                }
            }
        }
    }
}

/// A real directory tree whose paths continue one another's text (T/ab, T/ab/x, T/abc, T/abc/g, T/abd,
/// T/a/b/c, "T/a b/y"), walked in name order, in reverse order of starting points, and as several
/// starting points: -path/-wholename/-ipath with every path, every proper prefix + `*`, `*` + every
/// suffix, and every path with one character replaced by `?`; -name/-iname likewise on the names.
/// All patterns of one primary are evaluated in one run, each by its own matcher, on every entry in
/// turn: an answer must not depend on which entry the matcher saw before.
fn tree_history_slice(ctx: &mut Ctx) {
    use crate::props::labelled as lb;
    let t = ctx.sbx.join("T");
    let _ = crate::sandbox::force_remove(&t);
    for d in ["T/ab", "T/abc", "T/a/b", "T/a b", "T/AB"] {
        std::fs::create_dir_all(ctx.sbx.join(d)).unwrap();
    }
    for f in ["T/ab/x", "T/abc/g", "T/abd", "T/a/b/c", "T/a b/y", "T/AB/x", "T/ab/abc"] {
        std::fs::write(ctx.sbx.join(f), b"").unwrap();
    }
    std::env::set_current_dir(&ctx.sbx).unwrap();
    let root_lists: Vec<Vec<&str>> = vec![vec!["T"], vec!["T/ab", "T/abc", "T/abd"], vec!["T/abd", "T/abc", "T/ab", "T/a"], vec!["T/a", "T/a b", "T/ab", "T/AB", "T/abc"]];
    let all_paths: Vec<String> = lb::list_tree("T").into_iter().map(|(p, _)| p).collect();
    let mut path_pats: BTreeSet<String> = BTreeSet::new();
    let mut name_pats: BTreeSet<String> = BTreeSet::new();
    for p in &all_paths {
        let name = p.rsplit('/').next().unwrap();
        for (src, dst) in [(p.as_str(), &mut path_pats), (name, &mut name_pats)] {
            dst.insert(src.to_string());
            for i in 1..src.len() {
                dst.insert(format!("{}*", &src[..i]));
                dst.insert(format!("*{}", &src[i..]));
                dst.insert(format!("{}?{}", &src[..i], &src[i + 1..]));
            }
        }
    }
    let cs = |s: &str| CString::new(s).unwrap();
    for roots in &root_lists {
        for (prim, fold, on_path) in [("-path", false, true), ("-wholename", false, true), ("-ipath", true, true), ("-iwholename", true, true), ("-name", false, false), ("-iname", true, false)] {
            let pats: Vec<&String> = if on_path { path_pats.iter().collect() } else { name_pats.iter().collect() };
            for chunk in pats.chunks(60) {
                let tests: Vec<lb::Test> = chunk.iter().map(|p| vec![prim.to_string(), p.to_string()]).collect();
                let sel = match lb::run_labelled(&[], roots, &["-sorted"], &tests, crate::findrun::default_now()) {
                    Ok(s) if s.out.code == Ok(0) => s,
                    Ok(s) => {
                        ctx.rep.violation(&format!("C12 {prim} on a directory tree: non-zero status / panic"), format!("find {:?}\n{}", s.argv, s.out.brief()), json!({"prop":"C12","mode":"tree"}));
                        continue;
                    }
                    Err((why, out, argv)) => {
                        ctx.rep.violation(&format!("C12 {prim} on a directory tree: output not attributable"), format!("{why}\nfind {:?}\n{}", argv, out.brief()), json!({"prop":"C12","mode":"tree"}));
                        continue;
                    }
                };
                ctx.rep.count("tree_history_runs", 1);
                for root in roots {
                    for (path, _) in lb::list_tree(root) {
                        let subject = if on_path { path.as_str() } else { path.rsplit('/').next().unwrap() };
                        for (k, pat) in chunk.iter().enumerate() {
                            let Some(want) = g::libc_fnmatch(&cs(pat), &cs(subject), fold) else { continue };
                            let got = sel.sel[k].contains(&path);
                            ctx.rep.evaluations += 1;
                            ctx.rep.nontrivial += 1;
                            if got != want {
                                ctx.rep.violation(
                                    &format!("C12 {prim} {} on an entry of a directory tree (the same pattern and subject are answered right in isolation or not at all)", if want { "does not match but fnmatch does" } else { "matches but fnmatch does not" }),
                                    format!("find {:?} -sorted ... {prim} {pat:?}: entry {path:?} selected={got}, fnmatch says {want}", roots),
                                    json!({"prop":"C12","mode":"tree","roots":roots,"prim":prim,"pattern":pat,"path":path}),
                                );
                            }
                        }
                    }
                }
            }
        }
    }
    let _ = crate::sandbox::force_remove(&t);
}

/// -lname when one link cannot be read: as uid 65534, a link inside a directory that can be listed but
/// not searched (mode 0444) gives a diagnostic and is false; links met afterwards — in directories
/// whose paths continue the text of the failed one (T/no2 after T/no), and in later starting points —
/// are still matched on their own contents.
fn unreadable_link_slice(ctx: &mut Ctx) {
    use std::os::unix::fs::PermissionsExt;
    let sbx = ctx.sbx.clone();
    let base = sbx.join("T2");
    let _ = crate::sandbox::force_remove(&base);
    for d in ["no", "no2", "no/sub", "other", "n"] {
        std::fs::create_dir_all(base.join(d)).unwrap();
    }
    for (t, p) in [("target-a", "no/la"), ("target-b", "no2/lb"), ("target-c", "other/lc"), ("target-d", "n/ld"), ("else", "no2/le")] {
        std::os::unix::fs::symlink(t, base.join(p)).unwrap();
    }
    let _ = std::fs::set_permissions(&sbx, std::fs::Permissions::from_mode(0o755));
    let _ = std::fs::set_permissions(base.join("no"), std::fs::Permissions::from_mode(0o444));
    for (roots, want) in [(vec!["T2/no", "T2/no2", "T2/other", "T2/n"], vec!["T2/n/ld", "T2/no2/lb", "T2/other/lc"]), (vec!["T2"], vec!["T2/n/ld", "T2/no2/lb", "T2/other/lc"]), (vec!["T2/no2", "T2/other"], vec!["T2/no2/lb", "T2/other/lc"])] {
        for prim in ["-lname", "-ilname"] {
            let mut args: Vec<&str> = roots.clone();
            args.extend(["-sorted", prim, if prim == "-lname" { "target*" } else { "TARGET*" }]);
            let got = crate::props::c02::run_find_as_nobody(&args, &sbx);
            ctx.rep.evaluations += 1;
            ctx.rep.nontrivial += 1;
            ctx.rep.count("unreadable_link_runs", 1);
            let mut lines: Vec<String> = String::from_utf8_lossy(&got.out).lines().map(String::from).collect();
            lines.sort();
            if got.panicked() || lines != want {
                ctx.rep.violation(
                    &format!("C12 {prim}: after a link that could not be read, later links are not matched on their own contents"),
                    format!("as uid 65534, T2/no has mode 0444: find {:?} printed {:?}, expected {:?}; status {:?}; stderr {:?}", args, lines, want, got.code, String::from_utf8_lossy(&got.err).lines().take(3).collect::<Vec<_>>()),
                    json!({"prop":"C12","mode":"unreadable_link","k":0}),
                );
            }
        }
    }
    let _ = std::fs::set_permissions(base.join("no"), std::fs::Permissions::from_mode(0o755));
    let _ = crate::sandbox::force_remove(&base);
}

/// 150 directories with 64 file descriptors (see props/lowfd.rs): -lname/-name/-path answer for the 150th link as for the first.
fn low_descriptor_slice(ctx: &mut Ctx) {
    use crate::props::lowfd;
    let _ = lowfd::build(ctx);
    let cases: Vec<(Vec<&str>, usize)> = vec![(vec!["lf", "-lname", "f"], 150), (vec!["lf", "-ilname", "F"], 150), (vec!["lf", "-name", "[fl]"], 300), (vec!["lf", "-path", "*/d1??/l"], 50), (vec!["-L", "lf", "-lname", "*"], 0), (vec!["lf", "-iname", "D0[0-4]?"], 50)];
    for (args, want) in cases {
        let o = lowfd::find(ctx, &args, 64, vec![]);
        ctx.rep.evaluations += 1;
        ctx.rep.nontrivial += 1;
        ctx.rep.count("low_descriptor_limit_cases", 1);
        let got = lowfd::lines(&o.out).len();
        if o.died() || o.code != Some(0) || got != want {
            ctx.rep.violation(
                "C12 over 150 directories with 64 file descriptors: the later entries are not handled like the first",
                format!("find {:?} under RLIMIT_NOFILE=64: {got} lines, expected {want}; status {:?}; stderr {:?}", args, o.code, String::from_utf8_lossy(&o.err).lines().take(2).collect::<Vec<_>>()),
                json!({"prop":"C12","low_descriptor":true}),
            );
        }
    }
    lowfd::remove(ctx);
}

fn xok_take() -> u64 {
    XOK.with(|x| x.replace(0))
}

fn replay(case: &Value, ctx: &mut Ctx) -> Option<String> {
    let k = case["k"].as_u64()? as usize;
    let w = build(ctx, k).ok()?;
    let mode = Mode::from(case["mode"].as_str()?).unwrap_or(Mode::Name);
    if case["mode"] == "roots" {
        roots_slice(ctx);
        return ctx.rep.violations.keys().next().cloned();
    }
    if case["low_descriptor"] == true {
        low_descriptor_slice(ctx);
        return ctx.rep.violations.keys().next().cloned();
    }
    if case["mode"] == "unreadable_link" {
        unreadable_link_slice(ctx);
        return ctx.rep.violations.keys().next().cloned();
    }
    if case["mode"] == "tree" {
        tree_history_slice(ctx);
        return ctx.rep.violations.keys().next().cloned();
    }
    if case["mode"] == "mixed" {
        mixed_batch(ctx, &w, &[case["pattern"].as_str()?.to_string()]);
        return ctx.rep.violations.keys().next().cloned();
    }
    judge_batch(ctx, &w, mode, &[case["pattern"].as_str()?.to_string()]);
    ctx.rep.violations.keys().next().cloned()
}
