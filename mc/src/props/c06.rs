//! C06 xargs vs the kernel's exec budget — grid of RLIMIT_STACK x environment size x argument
//! length distribution x options, with enough arguments to cross the budget several times;
//! the xargs binary really exec()s the recorder child, the kernel is the oracle.

use crate::binrun;
use crate::engine::{Ctx, Prop, Spec, Tier};
use crate::vreclog;
use serde_json::{json, Value};
use std::ffi::{OsStr, OsString};
use std::io::Write;
use std::os::unix::ffi::OsStrExt;

pub const PROP: Prop = Prop { id: "C06", spec, run, replay };

const KIB: u64 = 1024;
const STACKS: [(&str, u64); 5] = [("256KiB", 256 * KIB), ("1MiB", 1024 * KIB), ("8MiB", 8192 * KIB), ("64MiB", 65536 * KIB), ("unlimited", u64::MAX)];
const ENVS: [&str; 3] = ["minimal", "+16KiB-one-variable", "+64KiB-in-1000-variables"];
const LENS: [&str; 9] = ["1", "2", "7", "63", "1000", "4095", "alt-1-4095", "multibyte-1000", "60000"];
const OPTS: [&str; 6] = ["none", "-n100000", "-s-huge", "-n100000+3KiB-initial", "-s131000", "-t"];

fn spec(t: Tier) -> Spec {
    Spec {
        id: "C06",
        level: "exploration",
        rule: format!("grid: RLIMIT_STACK {:?} x environment {:?} x argument length {:?} x options {:?}; the number of arguments is derived so that the input is >= 2.5x the kernel's budget for that stack limit (max(stack/4, 128 KiB) capped at 6 MiB), i.e. up to several million one-byte arguments, so every grid point crosses the limit at least twice; the real xargs binary runs the recorder child (count + rolling hash per invocation): exit status must be 0, no 'Argument list too long', and the recorder must have seen every argument exactly once in order with the initial arguments first. -I slice: one input line of 10..200000 bytes among short ones substituted into templates with 1..6 occurrences of {{}}: every invocation accepted by exec with exactly the substituted arguments, or the line refused with exit 1 before anything runs with it. Single-argument slice (also under -t, where trace lines share standard error with the diagnostic): one argument of 131071 / 131072 / 200000 / 3000000 bytes among short ones: either everything is delivered, or xargs exits 1 with a diagnostic, never starts the recorder with that argument, and what was delivered is a prefix of the input. {}. evaluation = one grid point; non-trivial = run with >= 2 invocations", STACKS.iter().map(|s| s.0).collect::<Vec<_>>(), ENVS, LENS, OPTS, t.pick("three points with only the SOFT stack limit lowered (the hard limit left alone); quick: 2 stack limits x 2 environments x 4 lengths x 2 options + 5 extra points (-s with 1- and 2-byte arguments, large stack limits)", "thorough: the full grid")),
        bound: json!({"stacks": STACKS.iter().map(|s| s.0).collect::<Vec<_>>(), "envs": ENVS, "lengths": LENS, "options": OPTS, "budgets_crossed": 2.5}),
        assumptions: vec!["Linux execve accounting (strings + pointers against max(stack/4,128KiB) capped at 6 MiB; 128 KiB per string) is what the kernel of this sandbox enforces; it is observed, not modelled: only the derived argument count uses the formula".into()],
        shards: 0,
        wall_cap_s: t.pick(300, 7200),
    }
}

fn kernel_budget(stack: u64) -> u64 {
    (stack / 4).max(128 * KIB).min(6 * 1024 * KIB)
}

fn arg_for(kind: &str, i: usize) -> Vec<u8> {
    let c = b'a' + (i % 26) as u8;
    match kind {
        "alt-1-4095" => vec![c; if i % 2 == 0 { 1 } else { 4095 }],
        "multibyte-1000" => "\u{e9}".repeat(500).into_bytes(),
        k => vec![c; k.parse::<usize>().unwrap_or(1)],
    }
}

fn env_for(kind: &str) -> Vec<(OsString, OsString)> {
    match kind {
        "+16KiB-one-variable" => vec![("BIG".into(), "v".repeat(16 * 1024).into())],
        "+64KiB-in-1000-variables" => (0..1000).map(|k| (format!("V{k:04}").into(), "w".repeat(59).into())).collect(),
        _ => vec![],
    }
}

fn fnv_add(h: &mut u64, a: &[u8]) {
    for b in a {
        *h ^= *b as u64;
        *h = h.wrapping_mul(0x100000001b3);
    }
    *h ^= 0xff;
    *h = h.wrapping_mul(0x100000001b3);
}

struct Point<'a> {
    stack: (&'a str, u64),
    env: &'a str,
    len: &'a str,
    opt: &'a str,
    /// Some((position, length)) = single-argument slice: one big argument at that index
    big: Option<(usize, usize)>,
    nargs_override: Option<usize>,
    /// only the soft stack limit is lowered (the hard one stays where it is)
    soft_only: bool,
}

fn run_point(ctx: &mut Ctx, p: &Point) -> Option<(String, String)> {
    let sbx = ctx.sbx.clone();
    let vrec = crate::engine::self_bin_dir().join("vrec");
    let log = sbx.join(".mc-vrec.log");
    let _ = std::fs::remove_file(&log);
    let input = sbx.join("input");
    let budget = kernel_budget(p.stack.1);
    let avg = match p.len {
        "alt-1-4095" => 2049,
        "multibyte-1000" => 1001,
        k => k.parse::<usize>().unwrap_or(1) + 1,
    };
    let nargs = p.nargs_override.unwrap_or(((budget as f64 * 2.5) as usize) / avg + 3);
    // write the input (NUL-delimited so that no quoting is involved)
    {
        let f = std::fs::File::create(&input).ok()?;
        let mut w = std::io::BufWriter::with_capacity(1 << 20, f);
        for i in 0..nargs {
            let a = match p.big {
                Some((pos, l)) if pos == i => vec![b'Z'; l],
                _ => arg_for(p.len, i),
            };
            w.write_all(&a).ok()?;
            w.write_all(&[0]).ok()?;
        }
        w.flush().ok()?;
    }
    let initial: Vec<Vec<u8>> = if p.opt.contains("3KiB-initial") { vec![vec![b'I'; 1500], vec![b'J'; 1500]] } else { vec![b"FIX".to_vec()] };
    let mut args: Vec<OsString> = vec!["-0".into(), "-a".into(), input.clone().into()];
    if p.opt.starts_with("-n100000") {
        args.extend(["-n".into(), "100000".into()]);
    }
    if p.opt == "-s-huge" {
        args.extend(["-s".into(), "2000000000".into()]);
    }
    if p.opt == "-t" {
        // (the trace lines share standard error with the diagnostic)
        args.push("-t".into());
    }
    if p.opt == "-s131000" {
        // a user limit just below the 128 KiB default: the pointer charge must still bind
        args.extend(["-s".into(), "131000".into()]);
    }
    args.push(vrec.clone().into());
    args.push(log.clone().into());
    for a in &initial {
        args.push(OsStr::from_bytes(a).to_os_string());
    }
    let aos: Vec<&OsStr> = args.iter().map(|a| a.as_os_str()).collect();
    let mut env = env_for(p.env);
    env.push(("VREC_MODE".into(), "count".into()));
    let o = binrun::run(&binrun::repo_bin("xargs"), &aos, &sbx, &binrun::Opts { env, stack: Some(p.stack.1), stack_soft_only: p.soft_only, timeout_s: 600, ..Default::default() });
    let _ = std::fs::remove_file(&input);
    let tag = format!("stack {}{} env {} args {} opt {}", p.stack.0, if p.soft_only { " (soft limit only)" } else { "" }, p.env, p.len, p.opt);
    let err = String::from_utf8_lossy(&o.err).to_string();
    let detail = |what: String| format!("{what}\nxargs {:?} over {nargs} NUL-terminated arguments ({tag}{})\nexit {:?} signal {:?} timed out {}; stderr {:?}", args.iter().skip(3).take(6).map(|a| { let s = a.to_string_lossy(); if s.len() > 40 { format!("{}…({} bytes)", &s[..12], s.len()) } else { s.to_string() } }).collect::<Vec<_>>(), p.big.map(|b| format!(", one argument of {} bytes at #{}", b.1, b.0)).unwrap_or_default(), o.code, o.signal, o.timed_out, err.chars().take(300).collect::<String>());
    if o.timed_out || o.signal.is_some() || o.code == Some(101) {
        return Some(("C06 xargs crashed / hung".into(), detail(String::new())));
    }
    let recs = match std::fs::read(&log) {
        Ok(b) => match vreclog::parse_count(&b) {
            Ok(r) => r,
            Err(e) => {
                ctx.rep.machinery(format!("recorder log: {e}"));
                return None;
            }
        },
        Err(_) => vec![],
    };
    ctx.rep.evaluations += 1;
    if recs.len() >= 2 {
        ctx.rep.nontrivial += 1;
    }
    ctx.rep.extra.insert("max_invocations_in_one_run".into(), json!((recs.len() as u64).max(ctx.rep.extra.get("max_invocations_in_one_run").and_then(|v| v.as_u64()).unwrap_or(0))));
    ctx.rep.extra.insert("max_arguments_in_one_run".into(), json!((nargs as u64).max(ctx.rep.extra.get("max_arguments_in_one_run").and_then(|v| v.as_u64()).unwrap_or(0))));
    if err.contains("rgument list too long") || o.code == Some(126) {
        let which = if p.len == "1" || p.len == "2" {
            "many short arguments (pointer overhead)"
        } else if p.stack.1 > 24 * 1024 * KIB {
            "large stack limit (kernel caps the budget)"
        } else {
            "budget overrun"
        };
        return Some((format!("C06 exec refused a command line xargs built: Argument list too long — {which}"), detail(format!("{} invocations succeeded before", recs.len()))));
    }
    // replay the records against the expected argument sequence
    let mut pos = 0usize;
    for (k, r) in recs.iter().enumerate() {
        if r.nargs < initial.len() {
            return Some(("C06 initial arguments missing from an invocation".into(), detail(format!("invocation #{k} has {} arguments", r.nargs))));
        }
        let n = r.nargs - initial.len();
        if pos + n > nargs {
            return Some(("C06 arguments delivered more than once".into(), detail(format!("invocation #{k} overruns the input"))));
        }
        let mut h: u64 = 0xcbf29ce484222325;
        let mut bytes = 0usize;
        for a in &initial {
            fnv_add(&mut h, a);
            bytes += a.len();
        }
        for i in pos..pos + n {
            let a = match p.big {
                Some((bp, l)) if bp == i => vec![b'Z'; l],
                _ => arg_for(p.len, i),
            };
            fnv_add(&mut h, &a);
            bytes += a.len();
        }
        if h != r.hash || bytes != r.bytes {
            return Some(("C06 an invocation's arguments differ from the input (lost, altered, reordered or initial arguments not first)".into(), detail(format!("invocation #{k}: {} arguments / {} bytes, expected segment starting at input argument #{pos} has {bytes} bytes", r.nargs, r.bytes))));
        }
        pos += n;
    }
    // an argument that cannot fit the kernel's budget next to this environment and the initial
    // arguments may be refused (exit 1, diagnostic, never handed to exec)
    let env_cost: usize = env_for(p.env).iter().map(|(k, v)| k.len() + v.len() + 2 + 8).sum::<usize>() + 200;
    let init_cost: usize = initial.iter().map(|a| a.len() + 9).sum::<usize>() + vrec.as_os_str().len() + log.as_os_str().len() + 18;
    let longest = (0..nargs.min(4)).map(|i| arg_for(p.len, i).len()).max().unwrap_or(0);
    let may_refuse_first = if p.big.is_none() && longest + 9 + env_cost + init_cost + 2048 > budget as usize { Some((0usize, longest)) } else { None };
    match p.big.or(may_refuse_first) {
        None => {
            if o.code != Some(0) {
                return Some((format!("C06 exit status {:?} on an input of ordinary arguments", o.code), detail(format!("{pos} of {nargs} arguments delivered"))));
            }
            if pos != nargs {
                return Some(("C06 arguments lost".into(), detail(format!("{pos} of {nargs} arguments delivered in {} invocations", recs.len()))));
            }
        }
        Some((bp, bl)) => {
            if o.code == Some(0) {
                if pos != nargs {
                    return Some(("C06 arguments lost".into(), detail(format!("{pos} of {nargs} arguments delivered"))));
                }
                ctx.rep.count("single_big_argument_delivered", 1);
            } else if o.code == Some(1) {
                let bp = if p.big.is_some() { bp } else { (0..nargs).find(|i| arg_for(p.len, *i).len() == longest).unwrap_or(0) };
                if pos > bp {
                    return Some(("C06 exit 1 but the oversized argument was handed to exec".into(), detail(format!("{pos} arguments delivered, big one at #{bp}"))));
                }
                // (under -t the command lines are traced on standard error too: they are not the diagnostic)
                let vrec_s = vrec.to_string_lossy().to_string();
                if !err.lines().any(|l| !l.trim().is_empty() && !l.starts_with(&vrec_s)) {
                    return Some(("C06 oversized argument refused without a diagnostic".into(), detail(String::new())));
                }
                ctx.rep.count("single_big_argument_refused_with_exit_1", 1);
            } else {
                return Some((format!("C06 exit status {:?} for an oversized argument (must be 1)", o.code), detail(format!("argument of {bl} bytes"))));
            }
        }
    }
    ctx.rep.class(&format!("stack={} invocations={}", p.stack.0, match recs.len() { 0 => "0", 1 => "1", 2..=9 => "2-9", 10..=99 => "10-99", _ => ">=100" }));
    None
}

fn grid(t: Tier) -> Vec<(usize, usize, usize, usize)> {
    let mut v = vec![];
    match t {
        Tier::Quick => {
            for s in [0usize, 2] {
                for e in [0usize, 2] {
                    for l in [0usize, 3, 6, 7] {
                        for o in [0usize, 3] {
                            v.push((s, e, l, o));
                        }
                    }
                }
            }
            // -s above every budget with the shortest arguments (pointer overhead) at small stack limits
            v.push((0, 0, 0, 2));
            v.push((1, 0, 1, 2));
            // -s just below the default budget with 1-byte arguments (pointers dominate)
            v.push((1, 0, 0, 4));
            v.push((0, 1, 0, 4));
            // the large stack limits once each with the cheapest length
            v.push((3, 0, 5, 0));
            v.push((4, 0, 5, 0));
            v.push((4, 1, 0, 1));
        }
        Tier::Thorough => {
            for s in 0..STACKS.len() {
                for e in 0..ENVS.len() {
                    for l in 0..LENS.len() {
                        for o in 0..OPTS.len() {
                            v.push((s, e, l, o));
                        }
                    }
                }
            }
        }
    }
    v
}

fn run(ctx: &mut Ctx) {
    let mut job = 0u64;
    // the soft stack limit alone lowered (ulimit -S -s): the kernel's budget follows the soft limit
    for (s, e, l, o) in [(0usize, 1usize, 0usize, 0usize), (0, 2, 4, 0), (1, 1, 0, 1)] {
        job += 1;
        if !ctx.mine(job) {
            continue;
        }
        let p = Point { stack: STACKS[s], env: ENVS[e], len: LENS[l], opt: OPTS[o], big: None, nargs_override: None, soft_only: true };
        if let Some((sig, detail)) = run_point(ctx, &p) {
            ctx.rep.violation(&sig, detail, json!({"prop":"C06","stack":s,"env":e,"len":l,"opt":o,"soft_only":true}));
        }
    }
    for (s, e, l, o) in grid(ctx.tier) {
        job += 1;
        if !ctx.mine(job) {
            continue;
        }
        ctx.progress(job);
        let p = Point { stack: STACKS[s], env: ENVS[e], len: LENS[l], opt: OPTS[o], big: None, nargs_override: None, soft_only: false };
        ctx.progress_note(&format!("{} {} {} {}", p.stack.0, p.env, p.len, p.opt));
        if let Some((sig, detail)) = run_point(ctx, &p) {
            ctx.rep.violation(&sig, detail, json!({"prop":"C06","stack":s,"env":e,"len":l,"opt":o}));
        }
        if job % 13 == 1 || ctx.rep.samples.is_empty() {
            ctx.rep.sample(json!({"stack": p.stack.0, "env": p.env, "arg_length": p.len, "option": p.opt}));
        }
        ctx.rep.traces_validated += 1;
    }
    // -I slice
    let templs: [&[&str]; 4] = [&["{}"], &["{}{}"], &["{}", "{}", "{}"], &["a{}b", "x", "{}{}{}{}"]];
    for s in ctx.tier.pick(vec![0usize, 2], vec![0, 1, 2, 3, 4]) {
        for len in ctx.tier.pick(vec![1000usize, 60_000, 100_000], vec![10, 1000, 30_000, 43_000, 60_000, 100_000, 131_071, 200_000]) {
            for (ti, t) in templs.iter().enumerate() {
                job += 1;
                if !ctx.mine(job) {
                    continue;
                }
                ctx.progress(job);
                // every spelling of the replace option, alone and next to a -s above every budget (a user
                // limit must not take the place of the system's)
                for (oi, ropt) in REPLACE_OPTS.iter().enumerate() {
                    if let Some((sig, detail)) = replace_point(ctx, STACKS[s], len, t, ropt) {
                        let sig = if oi == 0 { sig } else { format!("{sig} [option written {}]", ropt.join(" ")) };
                        ctx.rep.violation(&sig, detail, json!({"prop":"C06","replace":true,"stack":s,"linelen":len,"templ":ti,"ropt":oi}));
                    }
                }
            }
        }
    }
    // single-argument slice
    for s in ctx.tier.pick(vec![0usize, 2], vec![0, 1, 2, 3, 4]) {
        for big in [131071usize, 131072, 200000, 3_000_000] {
            for pos in [0usize, 5] {
                job += 1;
                if !ctx.mine(job) {
                    continue;
                }
                ctx.progress(job);
                // without and with a user limit above every budget (-s must not lift the per-string cap)
                for (oi, opt) in [(0usize, "none"), (2, "-s-huge"), (5, "-t")] {
                    let p = Point { stack: STACKS[s], env: ENVS[0], len: "7", opt, big: Some((pos, big)), nargs_override: Some(12), soft_only: false };
                    if let Some((sig, detail)) = run_point(ctx, &p) {
                        ctx.rep.violation(&sig, detail, json!({"prop":"C06","stack":s,"env":0,"len":2,"opt":oi,"big":[pos,big]}));
                    }
                }
            }
        }
    }
}

/// -I slice: one line of `len` bytes substituted into templates holding several {}: either every
/// invocation is accepted by exec and the recorder sees the substituted arguments, or xargs refuses
/// the line with exit 1 before running anything with it.
const REPLACE_OPTS: [&[&str]; 9] = [&["-I", "{}"], &["-I{}"], &["-i"], &["-i={}"], &["--replace"], &["--replace={}"], &["-I", "{}", "-s", "400000"], &["-s", "400000", "-I", "{}"], &["--max-chars=400000", "--replace"]];

fn replace_point(ctx: &mut Ctx, stack: (&str, u64), len: usize, templ: &[&str], ropt: &[&str]) -> Option<(String, String)> {
    let sbx = ctx.sbx.clone();
    let vrec = crate::engine::self_bin_dir().join("vrec");
    let log = sbx.join(".mc-vrec.log");
    let _ = std::fs::remove_file(&log);
    let input = sbx.join("input");
    let line = vec![b'q'; len];
    let mut data = b"short\n".to_vec();
    data.extend_from_slice(&line);
    data.extend_from_slice(b"\nlast\n");
    std::fs::write(&input, &data).ok()?;
    let mut args: Vec<OsString> = vec!["-a".into(), input.clone().into()];
    args.extend(ropt.iter().map(|t| OsString::from(*t)));
    args.extend([OsString::from(vrec.clone()), OsString::from(log.clone())]);
    args.extend(templ.iter().map(|t| OsString::from(*t)));
    let aos: Vec<&OsStr> = args.iter().map(|a| a.as_os_str()).collect();
    let o = binrun::run(&binrun::repo_bin("xargs"), &aos, &sbx, &binrun::Opts { env: vec![("VREC_MODE".into(), "count".into())], stack: Some(stack.1), timeout_s: 120, ..Default::default() });
    let _ = std::fs::remove_file(&input);
    let err = String::from_utf8_lossy(&o.err).to_string();
    let recs = std::fs::read(&log).ok().and_then(|b| vreclog::parse_count(&b).ok()).unwrap_or_default();
    ctx.rep.evaluations += 1;
    ctx.rep.nontrivial += 1;
    let detail = format!("xargs {} vrec LOG {:?} over lines of 5, {len} and 4 bytes, RLIMIT_STACK {}\nexit {:?}; {} invocations recorded; stderr {:?}", ropt.join(" "), templ, stack.0, o.code, recs.len(), err.chars().take(200).collect::<String>());
    if o.timed_out || o.signal.is_some() || o.code == Some(101) {
        return Some(("C06 xargs crashed / hung".into(), detail));
    }
    if err.contains("rgument list too long") || o.code == Some(126) {
        return Some(("C06 exec refused a command line xargs built: Argument list too long — -I substitution not measured".into(), detail));
    }
    let expect = |l: &[u8]| -> (u64, usize) {
        let mut h: u64 = 0xcbf29ce484222325;
        let mut bytes = 0;
        for t in templ {
            let a = String::from_utf8_lossy(l).to_string();
            let s = t.replace("{}", &a).into_bytes();
            fnv_add(&mut h, &s);
            bytes += s.len();
        }
        (h, bytes)
    };
    let lines: [&[u8]; 3] = [b"short", &line, b"last"];
    for (k, r) in recs.iter().enumerate() {
        let (h, bytes) = expect(lines.get(k).copied().unwrap_or(b""));
        if k >= 3 || r.hash != h || r.bytes != bytes {
            return Some(("C06 -I invocation does not carry the substituted arguments".into(), format!("{detail}\ninvocation #{k}: {} bytes", r.bytes)));
        }
    }
    match o.code {
        Some(0) if recs.len() == 3 => ctx.rep.count("replace_lines_all_delivered", 1),
        Some(1) if recs.len() == 1 && !err.trim().is_empty() => ctx.rep.count("replace_line_refused_with_exit_1", 1),
        _ => return Some((format!("C06 -I with a long line: exit {:?} with {} invocations (expected all three delivered, or exit 1 after the first)", o.code, recs.len()), detail)),
    }
    None
}

fn replay(case: &Value, ctx: &mut Ctx) -> Option<String> {
    let g = |k: &str| case[k].as_u64().map(|x| x as usize);
    if case["replace"].as_bool().unwrap_or(false) {
        let templs: [&[&str]; 4] = [&["{}"], &["{}{}"], &["{}", "{}", "{}"], &["a{}b", "x", "{}{}{}{}"]];
        return match replace_point(ctx, STACKS[g("stack")?], g("linelen")?, templs[g("templ")?], REPLACE_OPTS[g("ropt").unwrap_or(0)]) {
            Some((sig, detail)) => {
                ctx.rep.violation(&sig, detail, case.clone());
                Some(sig)
            }
            None => None,
        };
    }
    let big = case["big"].as_array().map(|a| (a[0].as_u64().unwrap_or(0) as usize, a[1].as_u64().unwrap_or(0) as usize));
    let p = Point { stack: STACKS[g("stack")?], env: ENVS[g("env")?], len: LENS[g("len")?], opt: OPTS[g("opt")?], big, nargs_override: big.map(|_| 12), soft_only: case["soft_only"].as_bool().unwrap_or(false) };
    match run_point(ctx, &p) {
        Some((sig, detail)) => {
            ctx.rep.violation(&sig, detail, case.clone());
            Some(sig)
        }
        None => None,
    }
}
