//! C10 -delete — all small trees (links to files/directories inside and outside the starting
//! point, dangling links) x test expressions x follow modes x starting points; three-way oracle:
//! `-depth EXPR -print` on the identical tree, a reference deletion simulation, and a full
//! before/after snapshot of the sandbox including everything outside the starting point.

use crate::engine::{Ctx, Prop, Spec, Tier};
use crate::findrun::run_find;
use crate::model::tree::{self, Follow, Fs, Leaf, Shape, Visit, WalkCfg, WalkNotes, K};
use crate::sandbox::{self, SnapEntry};
use serde_json::{json, Value};
use std::collections::BTreeSet;

pub const PROP: Prop = Prop { id: "C10", spec, run, replay };

fn max_nodes(t: Tier) -> usize {
    t.pick(4, 5)
}

const EXPRS: [&str; 10] = ["always", "name-a", "name-b", "not-name-a", "type-f", "type-d", "type-l", "f-or-l", "prune-a-or-true", "name-a-or-type-d"];

fn spec(t: Tier) -> Spec {
    Spec {
        id: "C10",
        level: "fault_enumeration",
        rule: format!("every ordered forest with <= {} nodes over leaves (file, empty directory, link to an outside file, link to an outside directory holding a file (one outside directory per link), dangling link) and directories, as the content of r/; (sibling names a, b., c, d.., ..., f: some end in a dot) x {} expressions before -delete ({:?}); x -P -H -L; x starting points r | lr (a link to r) | r s | s r (s a second fixed tree, so that a failed removal can lie under a starting point that is not the last); for the starting point r also x depth bounds -maxdepth 1 | -mindepth 1 | -mindepth 1 -maxdepth 1 | -maxdepth 2 | -mindepth 2 (entries outside the bounds are neither matched nor removed; a directory at the depth limit still holds its children, so its removal must fail). Removal faults arise by construction (a matched directory with an unmatched child: rmdir fails) — every placement the expressions and trees produce is enumerated. For each case the tree is built twice: (1) the real find runs `-depth EXPR -print` and the output must be the reference list of matched entries in depth-first order; (2) on the rebuilt tree the real find runs `EXPR -delete -printf 'D %p' -o -printf 'N %p'`: the D lines must be exactly the removals the reference simulation predicts, in order (a directory only when all its children were removed; a link itself, never its target), N lines everything else incl. failed removals, exit status and a diagnostic iff a removal failed, walk not stopped; (3) the snapshot (path, type, mode, size, link target, content hash, link count) of the whole sandbox after the run must equal the predicted one: nothing else changed inside or outside. For the starting point r under -L the follow mode is also given as the word -follow (before the tests, and after -delete). Every tree is also walked from inside r/ with the starting point spelled ., ./, ./., .//, ././ (the current directory cannot be removed through such a name: `.` is passed over silently, every other spelling must fail with a diagnostic, -delete false and a non-zero status; everything below is removed as predicted). Unprivileged slice: `find r -delete` as uid 65534 on a tree with a file in a directory without write permission, files in a sticky directory owned by root (one the user's own), a link to a read-only file outside: exactly the removable entries go, the others and the link's target keep mode, owner and content, refusals are diagnosed with a non-zero status. Every tree is also run with `-delete -delete`: the second removal of an entry that is already gone must fail (diagnostic, -delete false, exit != 0). low-descriptor slice: 150 directories (one file each, all hard links to one inode, plus a link to it) walked by the binary under RLIMIT_NOFILE 64: -delete removes every matched entry; undecodable-names slice: entries named by bytes that are not valid UTF-8 are removed themselves (three expressions), look-alikes spelled with U+FFFD stay; non-trivial = case in which at least one entry is matched and at least one is not, or a removal fails", max_nodes(t), EXPRS.len(), EXPRS),
        bound: json!({"max_nodes": max_nodes(t), "expressions": EXPRS, "follow": ["-P","-H","-L"], "roots": ["r","lr","r s","s r"]}),
        assumptions: vec![
            "-empty (whose truth changes as the walk deletes) is outside the check".into(),
            "under -L the entries reached through a followed directory link are matched entries like any other (the -depth -print twin lists them) and are removed; the link itself is removed, not the directory it points to".into(),
        ],
        shards: 0,
        wall_cap_s: t.pick(300, 3600),
    }
}

/// Standard C10 layout: r/ = forest, lr -> r, out/f, out/d<k>/g for the k-th link-to-dir.
fn c10_fs(forest: &[Shape]) -> Fs {
    let mut fs = Fs::new();
    let out = fs.add(0, "out", K::Dir);
    let f = fs.add(out, "f", K::File);
    fs.nodes[f].size = 3;
    let r = fs.add(0, "r", K::Dir);
    fs.add(0, "lr", K::Link("r".into()));
    // a second, fixed starting point: s/{a, d/{a, x}}
    let s2 = fs.add(0, "s", K::Dir);
    fs.add(s2, "a", K::File);
    let sd = fs.add(s2, "d", K::Dir);
    fs.add(sd, "a", K::File);
    fs.add(sd, "x", K::File);
    let mut nd = 0;
    inst(&mut fs, r, forest, "../", out, &mut nd);
    fs
}

/// sibling names: some end in '.', one is "..." (names are not path components "." / "..")
const C10_NAMES: [&str; 8] = ["a", "b.", "c", "d..", "...", "f", "g", "h"];

fn inst(fs: &mut Fs, dir: usize, forest: &[Shape], up: &str, out: usize, nd: &mut usize) {
    for (i, s) in forest.iter().enumerate() {
        let name = C10_NAMES[i];
        match s {
            Shape::Dir(sub) => {
                let d = fs.add(dir, name, K::Dir);
                inst(fs, d, sub, &format!("../{up}"), out, nd);
            }
            Shape::Leaf(l) => {
                let kind = match l {
                    Leaf::File => K::File,
                    Leaf::EmptyDir => K::Dir,
                    Leaf::LnFile => K::Link(format!("{up}out/f")),
                    Leaf::LnDir => {
                        *nd += 1;
                        let dn = format!("d{nd}");
                        let d = fs.add(out, &dn, K::Dir);
                        fs.add(d, "g", K::File);
                        K::Link(format!("{up}out/{dn}"))
                    }
                    _ => K::Link("nowhere".into()),
                };
                fs.add(dir, name, kind);
            }
        }
    }
}

fn expr_args(e: &str) -> Vec<&'static str> {
    match e {
        "always" => vec![],
        "name-a" => vec!["-name", "a"],
        "name-b" => vec!["-name", "b."],
        "not-name-a" => vec!["!", "-name", "a"],
        "type-f" => vec!["-type", "f"],
        "type-d" => vec!["-type", "d"],
        "type-l" => vec!["-type", "l"],
        "f-or-l" => vec!["(", "-type", "f", "-o", "-type", "l", ")"],
        "name-a-or-type-d" => vec!["(", "-name", "a", "-o", "-type", "d", ")"],
        _ => vec![],
    }
}

fn root_of_r(roots: &str) -> &str {
    roots.split(' ').find(|r| *r != "s").unwrap_or("r")
}

fn expr_true(e: &str, fs: &Fs, v: &Visit, root: &str) -> bool {
    let base = if v.depth == 0 { root.to_string() } else { fs.nodes[v.node].name.clone() };
    let kind = &fs.nodes[v.eff].kind;
    match e {
        "always" => true,
        "name-a" => base == "a",
        "name-b" => base == "b.",
        "not-name-a" => base != "a",
        "type-f" => *kind == K::File,
        "type-d" => *kind == K::Dir,
        "type-l" => matches!(kind, K::Link(_)),
        "f-or-l" => *kind == K::File || matches!(kind, K::Link(_)),
        "name-a-or-type-d" => base == "a" || *kind == K::Dir,
        "prune-a-or-true" => v.path != format!("{}/a", root_of_r(root)),
        _ => false,
    }
}

struct Plan {
    /// matched entries in visit order, with predicted success
    attempts: Vec<(String, bool)>,
    /// all visited paths in order
    visited: Vec<String>,
    /// sandbox-relative real paths removed (canonical: through the node's own parent chain)
    removed_nodes: BTreeSet<usize>,
}

/// (mindepth, maxdepth) given as global options; (0, usize::MAX) = none given
type Bounds = (usize, usize);
const NO_BOUNDS: Bounds = (0, usize::MAX);
const BOUNDS: [Bounds; 5] = [(0, 1), (1, usize::MAX), (1, 1), (0, 2), (2, usize::MAX)];

fn bounds_args(b: Bounds) -> Vec<&'static str> {
    let num = |n: usize| -> &'static str { ["0", "1", "2"][n] };
    let mut v = vec![];
    if b.0 > 0 {
        v.extend(["-mindepth", num(b.0)]);
    }
    if b.1 != usize::MAX {
        v.extend(["-maxdepth", num(b.1)]);
    }
    v
}

fn plan(fs: &Fs, roots: &str, follow: Follow, e: &str, b: Bounds) -> Plan {
    let cfg = WalkCfg { follow, mindepth: b.0, maxdepth: b.1, depth_first: true };
    let mut removed: BTreeSet<usize> = BTreeSet::new();
    let mut attempts = vec![];
    let mut visited = vec![];
    for root in roots.split(' ') {
        let mut notes = WalkNotes::default();
        let visits = tree::walk_all(fs, 0, root, &cfg, &mut notes);
        for v in &visits {
            visited.push(v.path.clone());
            if !expr_true(e, fs, v, root) {
                continue;
            }
            // what gets unlinked is the directory entry `node` (a link is removed itself)
            let is_real_dir = fs.nodes[v.node].kind == K::Dir;
            let ok = if is_real_dir { fs.nodes[v.node].children.iter().all(|c| removed.contains(c)) } else { true };
            if ok {
                removed.insert(v.node);
            }
            attempts.push((v.path.clone(), ok));
        }
    }
    Plan { attempts, visited, removed_nodes: removed }
}

fn predicted_snapshot(before: &[SnapEntry], fs: &Fs, p: &Plan) -> Vec<SnapEntry> {
    let gone: BTreeSet<String> = p.removed_nodes.iter().map(|&n| fs.path_of(n)).collect();
    // hard link counts do not change (no hard links in these trees)
    before.iter().filter(|s| !gone.contains(&s.path)).cloned().collect()
}

fn build(ctx: &Ctx, fs: &Fs) -> Result<(), String> {
    sandbox::clear_dir(&ctx.sbx);
    sandbox::materialize(fs, 0, &ctx.sbx)?;
    for (p, data) in [("out/f", b"abc".as_slice())] {
        std::fs::write(ctx.sbx.join(p), data).map_err(|e| e.to_string())?;
    }
    Ok(())
}

fn lines(b: &[u8]) -> Vec<String> {
    String::from_utf8_lossy(b).lines().map(|s| s.to_string()).collect()
}

/// returns Some((signature, detail)) on violation
fn one_case(ctx: &mut Ctx, forest: &[Shape], root: &str, follow: Follow, e: &str, b: Bounds) -> Option<(String, String)> {
    one_case_w(ctx, forest, root, follow, e, b, None)
}

/// `word`: the follow mode is given as the word -follow in the expression (then `follow` must be L):
/// Some(false) = before the tests, Some(true) = after -delete.
fn one_case_w(ctx: &mut Ctx, forest: &[Shape], root: &str, follow: Follow, e: &str, b: Bounds, word: Option<bool>) -> Option<(String, String)> {
    let fs = c10_fs(forest);
    if let Err(err) = build(ctx, &fs) {
        ctx.rep.machinery(format!("tree builder: {err}"));
        return None;
    }
    let p = plan(&fs, root, follow, e, b);
    let btag = format!("{}{}", if b == NO_BOUNDS { String::new() } else { format!(" {}", bounds_args(b).join(" ")) }, match word { None => "", Some(false) => " -follow first", Some(true) => " -follow after -delete" });
    let root_tag = format!("{root}{btag}");
    let tag = format!("{} root={} expr={}", follow.flag(), root_tag, e);
    let ea = expr_args(e);
    // (1) twin: -depth EXPR -print
    let mut a1: Vec<&str> = if word.is_some() { vec![] } else { vec![follow.flag()] };
    a1.extend(root.split(' '));
    a1.push("-sorted");
    if word.is_some() {
        a1.push("-follow");
    }
    a1.extend(bounds_args(b));
    a1.push("-depth");
    if e == "prune-a-or-true" {
        let pa = format!("{}/a", root_of_r(root));
        let pa: &'static str = Box::leak(pa.into_boxed_str());
        a1.extend(["(", "-path", pa, "-prune", "-o", "-true", "-print", ")"]);
    } else {
        a1.extend(ea.iter());
        a1.push("-print");
    }
    let before = sandbox::snapshot(&ctx.sbx);
    let twin = run_find(&a1);
    let after_twin = sandbox::snapshot(&ctx.sbx);
    let want_twin: Vec<String> = p.attempts.iter().map(|a| a.0.clone()).collect();
    if twin.panicked() {
        return Some((format!("C10 panic [{tag}]"), twin.brief()));
    }
    if after_twin != before {
        return Some((format!("C10 -depth -print changed the tree [{tag}]"), format!("find {:?}", a1)));
    }
    if lines(&twin.out) != want_twin {
        return Some((format!("C10 reference and `-depth EXPR -print` disagree on the matched entries [{} root={}]", follow.flag(), root_tag), format!("tree {} ; find {:?}\nreference {:?}\nactual    {:?}", fs.describe(0), a1, want_twin, lines(&twin.out))));
    }
    // (2) the deletion run on the identical tree
    let mut a2: Vec<&str> = if word.is_some() { vec![] } else { vec![follow.flag()] };
    a2.extend(root.split(' '));
    a2.push("-sorted");
    a2.extend(bounds_args(b));
    if word == Some(false) {
        a2.push("-follow");
    }
    if e == "prune-a-or-true" {
        let pa: &'static str = Box::leak(format!("{}/a", root_of_r(root)).into_boxed_str());
        a2.extend(["(", "-path", pa, "-prune", "-printf", "N %p\\n", "-o", "-true", "-delete", "-printf", "D %p\\n", "-o", "-printf", "N %p\\n", ")"]);
    } else {
        a2.extend(ea.iter());
        a2.extend(["-delete", "-printf", "D %p\\n", "-o", "-printf", "N %p\\n"]);
    }
    if word == Some(true) {
        // (after the last action: `... -printf 'N %p\n' -follow`, an always-true primary)
        a2.push("-follow");
    }
    let got = run_find(&a2);
    let after = sandbox::snapshot(&ctx.sbx);
    let detail = |what: &str| {
        format!(
            "{what}\ntree {} ; find {:?}\nmatched entries in order (predicted success): {:?}\nstdout {:?}\nstatus {:?} stderr {:?}\nbefore {:?}\nafter  {:?}",
            fs.describe(0),
            a2,
            p.attempts,
            lines(&got.out),
            got.code,
            String::from_utf8_lossy(&got.err),
            before.iter().map(|s| format!("{}:{}", s.path, s.kind)).collect::<Vec<_>>(),
            after.iter().map(|s| format!("{}:{}", s.path, s.kind)).collect::<Vec<_>>()
        )
    };
    if got.panicked() {
        return Some((format!("C10 panic [{tag}]"), got.brief()));
    }
    // (3) snapshot
    let want_after = predicted_snapshot(&before, &fs, &p);
    if after != want_after {
        let lost: Vec<&SnapEntry> = want_after.iter().filter(|s| !after.contains(s)).collect();
        let kept: Vec<&SnapEntry> = after.iter().filter(|s| !want_after.contains(s)).collect();
        let outside = lost.iter().any(|s| s.path.starts_with("out"));
        let kind = if outside {
            "something OUTSIDE the starting point was removed or changed"
        } else if !lost.is_empty() {
            "removed or changed more than the matched entries"
        } else {
            "a matched removable entry survived"
        };
        return Some((format!("C10 {kind} [{} root={}]", follow.flag(), root_tag), detail(&format!("lost/changed {:?} ; unexpectedly present {:?}", lost.iter().map(|s| &s.path).collect::<Vec<_>>(), kept.iter().map(|s| &s.path).collect::<Vec<_>>()))));
    }
    // output: D lines = successful removals in order; N lines = the rest
    let out = lines(&got.out);
    let d_got: Vec<String> = out.iter().filter_map(|l| l.strip_prefix("D ").map(|s| s.to_string())).collect();
    let d_want: Vec<String> = p.attempts.iter().filter(|a| a.1).map(|a| a.0.clone()).collect();
    if d_got != d_want {
        let same_set = d_got.iter().collect::<BTreeSet<_>>() == d_want.iter().collect::<BTreeSet<_>>();
        let kind = if same_set { "removal order differs from the depth-first order of -depth -print" } else { "-delete true/false does not match the removals that happened" };
        return Some((format!("C10 {kind} [{} root={}]", follow.flag(), root_tag), detail(&format!("D lines {:?}, expected {:?}", d_got, d_want))));
    }
    let n_got: BTreeSet<String> = out.iter().filter_map(|l| l.strip_prefix("N ").map(|s| s.to_string())).collect();
    let dset: BTreeSet<&String> = d_want.iter().collect();
    let n_want: BTreeSet<String> = p.visited.iter().filter(|v| !dset.contains(v)).cloned().collect();
    if n_got != n_want {
        return Some((format!("C10 walk did not reach / evaluate every other entry [{} root={}]", follow.flag(), root_tag), detail(&format!("N lines {:?}, expected {:?}", n_got, n_want))));
    }
    let failures = p.attempts.iter().filter(|a| !a.1).count();
    if failures > 0 {
        if got.code == Ok(0) {
            return Some((format!("C10 exit status 0 although a removal failed [{} root={}]", follow.flag(), root_tag), detail("")));
        }
        if got.err.is_empty() {
            return Some((format!("C10 no diagnostic for a failed removal [{} root={}]", follow.flag(), root_tag), detail("")));
        }
    } else if got.code != Ok(0) {
        return Some((format!("C10 non-zero exit status although every removal succeeded [{} root={}]", follow.flag(), root_tag), detail("")));
    }
    ctx.rep.evaluations += 1;
    let matched = p.attempts.len();
    if (matched > 0 && matched < p.visited.len()) || failures > 0 {
        ctx.rep.nontrivial += 1;
    }
    if failures > 0 {
        ctx.rep.count("cases_with_failed_removals", 1);
    }
    ctx.rep.class(&format!("{} matched={} failed={}", follow.flag(), matched.min(3), failures.min(2)));
    None
}

/// An entry that vanished between the visit and the removal cannot be removed either: with
/// `-delete -delete` the second -delete must fail for every entry (diagnostic, false, exit != 0).
fn twice_case(ctx: &mut Ctx, forest: &[Shape]) -> Option<(String, String)> {
    let fs = c10_fs(forest);
    if let Err(err) = build(ctx, &fs) {
        ctx.rep.machinery(format!("tree builder: {err}"));
        return None;
    }
    let p = plan(&fs, "r", Follow::P, "always", NO_BOUNDS);
    let before = sandbox::snapshot(&ctx.sbx);
    let args = ["r", "-sorted", "-delete", "-delete", "-printf", "D %p\\n", "-o", "-printf", "N %p\\n"];
    let got = run_find(&args);
    let after = sandbox::snapshot(&ctx.sbx);
    ctx.rep.evaluations += 1;
    ctx.rep.nontrivial += 1;
    ctx.rep.count("cases_with_failed_removals", 1);
    if got.panicked() {
        return Some(("C10 panic [-delete -delete]".into(), got.brief()));
    }
    let detail = format!("tree {} ; find {:?}\nstdout {:?}\nstatus {:?} stderr {:?}", fs.describe(0), args, lines(&got.out), got.code, String::from_utf8_lossy(&got.err));
    if after != predicted_snapshot(&before, &fs, &p) {
        return Some(("C10 removed or changed more than the matched entries [-delete -delete]".into(), detail));
    }
    let n: Vec<String> = lines(&got.out);
    let want: Vec<String> = p.visited.iter().map(|v| format!("N {v}")).collect();
    if n != want {
        return Some(("C10 -delete true for an entry that was already gone [-delete -delete]".into(), format!("{detail}\nexpected {:?}", want)));
    }
    if got.code == Ok(0) {
        return Some(("C10 exit status 0 although a removal failed [-delete -delete]".into(), detail));
    }
    if String::from_utf8_lossy(&got.err).lines().count() < p.visited.len() {
        return Some(("C10 no diagnostic for a failed removal [-delete -delete]".into(), detail));
    }
    None
}

/// The starting point is the current directory, spelled `.`, `./`, `./.`, `.//` or `././` (find
/// runs inside r/): everything below is removed as predicted; the directory itself cannot be
/// removed through such a name — `.` is passed over silently (as GNU find does), every other
/// spelling must fail loudly (diagnostic, -delete false, exit status != 0).
fn dot_case(ctx: &mut Ctx, forest: &[Shape], spelling: &str, e: &str) -> Option<(String, String)> {
    let fs = c10_fs(forest);
    if let Err(err) = build(ctx, &fs) {
        ctx.rep.machinery(format!("tree builder: {err}"));
        return None;
    }
    let p = plan(&fs, "r", Follow::P, e, NO_BOUNDS);
    let respell = |path: &str| -> String {
        match path.strip_prefix("r/") {
            Some(rest) => if spelling.ends_with('/') { format!("{spelling}{rest}") } else { format!("{spelling}/{rest}") },
            None => spelling.to_string(),
        }
    };
    let r_node = fs.child(0, "r").unwrap();
    let before = sandbox::snapshot(&ctx.sbx);
    std::env::set_current_dir(ctx.sbx.join("r")).unwrap();
    let mut args: Vec<&str> = vec![spelling, "-sorted"];
    args.extend(expr_args(e));
    args.extend(["-delete", "-printf", "D %p\\n", "-o", "-printf", "N %p\\n"]);
    let got = run_find(&args);
    std::env::set_current_dir(&ctx.sbx).unwrap();
    let after = sandbox::snapshot(&ctx.sbx);
    ctx.rep.evaluations += 1;
    ctx.rep.nontrivial += 1;
    ctx.rep.count("current_directory_as_starting_point", 1);
    if got.panicked() {
        return Some((format!("C10 panic [starting point {spelling}]"), got.brief()));
    }
    let root_matched = p.attempts.iter().any(|a| a.0 == "r");
    let detail = format!("tree {} ; (in r/) find {:?}\nstdout {:?}\nstatus {:?} stderr {:?}", fs.describe(0), args, lines(&got.out), got.code, String::from_utf8_lossy(&got.err));
    // the tree: as predicted, except that r itself always stays
    let mut removed = p.removed_nodes.clone();
    removed.remove(&r_node);
    let want_after = predicted_snapshot(&before, &fs, &Plan { attempts: vec![], visited: vec![], removed_nodes: removed });
    if after != want_after {
        return Some((format!("C10 wrong entries removed [starting point {spelling}]"), detail));
    }
    let out = lines(&got.out);
    let d_got: Vec<String> = out.iter().filter_map(|l| l.strip_prefix("D ").map(String::from)).collect();
    let mut d_want: Vec<String> = p.attempts.iter().filter(|a| a.1 && a.0 != "r").map(|a| respell(&a.0)).collect();
    let root_fails_loudly = root_matched && spelling != ".";
    if root_matched && spelling == "." {
        d_want.push(".".into());
    }
    if d_got != d_want {
        return Some((format!("C10 -delete true/false does not match the removals that happened [starting point {spelling}]"), format!("{detail}\nD lines expected {:?}", d_want)));
    }
    let inner_failures = p.attempts.iter().filter(|a| !a.1 && a.0 != "r").count();
    let must_fail = root_fails_loudly || inner_failures > 0;
    if must_fail && (got.code == Ok(0) || got.err.is_empty()) {
        return Some((format!("C10 the current directory spelled {spelling} cannot be removed, yet no diagnostic / exit status 0"), detail));
    }
    if !must_fail && got.code != Ok(0) {
        return Some((format!("C10 non-zero exit status although every removal succeeded [starting point {spelling}]"), detail));
    }
    None
}

/// -delete by an unprivileged user (uid 65534) where some removals are refused: a file in a
/// directory without write permission, a file in a sticky directory owned by somebody else. What
/// cannot be removed stays exactly as it was — same mode, same owner, same content, also the
/// target of a link — and is diagnosed; everything else goes.
fn unprivileged_slice(ctx: &mut Ctx) {
    use std::os::unix::fs::PermissionsExt;
    let sbx = ctx.sbx.clone();
    crate::sandbox::clear_dir(&sbx);
    let mk = |p: &str, mode: u32, dir: bool, uid: u32| {
        let full = sbx.join(p);
        if dir {
            std::fs::create_dir_all(&full).unwrap();
        } else {
            std::fs::write(&full, b"data").unwrap();
        }
        crate::props::labelled::chown(&full, uid, uid).unwrap();
        std::fs::set_permissions(&full, std::fs::Permissions::from_mode(mode)).unwrap();
    };
    std::fs::set_permissions(&sbx, std::fs::Permissions::from_mode(0o755)).ok();
    mk("outside", 0o755, true, 65534);
    mk("outside/target", 0o400, false, 65534);
    mk("r", 0o755, true, 65534);
    mk("r/w", 0o755, true, 65534);
    mk("r/w/g", 0o444, false, 65534);
    mk("r/ro", 0o755, true, 65534);
    mk("r/ro/f", 0o444, false, 65534);
    mk("r/sticky", 0o1777, true, 0);
    mk("r/sticky/theirs", 0o644, false, 0);
    mk("r/sticky/mine", 0o600, false, 65534);
    std::os::unix::fs::symlink("../outside/target", sbx.join("r/ln")).unwrap();
    crate::props::labelled::chown(&sbx.join("r/ln"), 65534, 65534).unwrap();
    // r/ro loses its write permission last
    std::fs::set_permissions(sbx.join("r/ro"), std::fs::Permissions::from_mode(0o555)).unwrap();
    let before = sandbox::snapshot(&sbx);
    let got = crate::props::c02::run_find_as_nobody(&["r", "-sorted", "-delete", "-printf", "D %p\\n", "-o", "-printf", "N %p\\n"], &sbx);
    // restore access for the snapshot and the clean-up
    let after = sandbox::snapshot(&sbx);
    ctx.rep.evaluations += 1;
    ctx.rep.nontrivial += 1;
    ctx.rep.count("unprivileged_delete_runs", 1);
    let gone: BTreeSet<&str> = ["r/w/g", "r/w", "r/ln", "r/sticky/mine"].into_iter().collect();
    let want_after: Vec<SnapEntry> = before.iter().filter(|e| !gone.contains(e.path.as_str()) && e.path != ".mc-find-bin").cloned().collect();
    let after: Vec<SnapEntry> = after.into_iter().filter(|e| e.path != ".mc-find-bin").collect();
    let detail = format!("find r -sorted -delete ... as uid 65534: status {:?}\nstdout {:?}\nstderr {:?}\nbefore {:?}\nafter  {:?}", got.code, lines(&got.out), String::from_utf8_lossy(&got.err), before.iter().map(|e| format!("{}:{}:{:o}", e.path, e.kind, e.mode)).collect::<Vec<_>>(), after.iter().map(|e| format!("{}:{}:{:o}", e.path, e.kind, e.mode)).collect::<Vec<_>>());
    if got.panicked() {
        ctx.rep.violation("C10 panic [unprivileged -delete]", detail, json!({"prop":"C10","unprivileged":true}));
    } else if after != want_after {
        let changed_mode = after.iter().any(|a| before.iter().any(|b| b.path == a.path && (b.mode != a.mode || b.size != a.size)));
        ctx.rep.violation(if changed_mode { "C10 an entry that could not be removed (or a link's target) was changed instead [unprivileged -delete]" } else { "C10 wrong set of entries removed [unprivileged -delete]" }, detail, json!({"prop":"C10","unprivileged":true}));
    } else if got.code == Ok(0) || got.err.is_empty() {
        ctx.rep.violation("C10 refused removals not diagnosed / exit status 0 [unprivileged -delete]", detail, json!({"prop":"C10","unprivileged":true}));
    } else {
        let d: BTreeSet<String> = lines(&got.out).iter().filter_map(|l| l.strip_prefix("D ").map(String::from)).collect();
        if d != gone.iter().map(|s| s.to_string()).collect() {
            ctx.rep.violation("C10 -delete true/false does not match the removals that happened [unprivileged -delete]", detail, json!({"prop":"C10","unprivileged":true}));
        }
    }
    let _ = std::fs::set_permissions(sbx.join("r/ro"), std::fs::Permissions::from_mode(0o755));
    crate::sandbox::clear_dir(&sbx);
}

/// Names that are not valid UTF-8: -delete removes the entry it was evaluated on — the bytes as they
/// are — and nothing else: look-alikes named with the lossy rendering (U+FFFD), which the expression
/// does not match, stay.
fn undecodable_names_slice(ctx: &mut Ctx) {
    use std::os::unix::ffi::OsStrExt;
    let base = ctx.sbx.join("du");
    let os = |b: &[u8]| std::ffi::OsStr::from_bytes(b).to_os_string();
    for expr in [vec!["-empty", "-delete"], vec!["-mindepth", "1", "(", "-empty", "-o", "-false", ")", "-delete"], vec!["-depth", "-empty", "-delete"]] {
        let _ = sandbox::force_remove(&base);
        std::fs::create_dir_all(base.join("r").join(os(b"dir\x80"))).unwrap();
        std::fs::write(base.join("r").join(os(b"dir\x80")).join("inner"), b"").unwrap();
        std::fs::write(base.join("r").join(os(b"bad\xff")), b"").unwrap();
        std::fs::create_dir(base.join("r").join(os(b"tr\xc3"))).unwrap();
        std::os::unix::fs::symlink(os(b"x\xff"), base.join("r/lnk")).unwrap();
        // look-alikes: not empty, so not matched
        std::fs::write(base.join("r/bad\u{fffd}"), b"keep").unwrap();
        std::fs::create_dir(base.join("r/dir\u{fffd}")).unwrap();
        std::fs::write(base.join("r/dir\u{fffd}/inner"), b"keep").unwrap();
        std::fs::create_dir(base.join("r/tr\u{fffd}")).unwrap();
        std::fs::write(base.join("r/tr\u{fffd}/k"), b"keep").unwrap();
        std::env::set_current_dir(&base).unwrap();
        let mut args: Vec<&str> = vec!["r"];
        args.extend(expr.iter().copied());
        let got = run_find(&args);
        ctx.rep.evaluations += 1;
        ctx.rep.nontrivial += 1;
        ctx.rep.count("undecodable_name_runs", 1);
        let mut left: Vec<Vec<u8>> = vec![];
        fn rec(p: &std::path::Path, rel: Vec<u8>, out: &mut Vec<Vec<u8>>) {
            if let Ok(rd) = std::fs::read_dir(p) {
                for e in rd.flatten() {
                    let mut r = rel.clone();
                    if !r.is_empty() {
                        r.push(b'/');
                    }
                    r.extend_from_slice(e.file_name().as_bytes());
                    out.push(r.clone());
                    if e.file_type().is_ok_and(|t| t.is_dir()) {
                        rec(&e.path(), r, out);
                    }
                }
            }
        }
        rec(&base.join("r"), vec![], &mut left);
        left.sort();
        let mut want: Vec<Vec<u8>> = ["bad\u{fffd}", "dir\u{fffd}", "dir\u{fffd}/inner", "tr\u{fffd}", "tr\u{fffd}/k"].iter().map(|s| s.as_bytes().to_vec()).collect();
        // (a symbolic link is never -empty)
        want.push(b"lnk".to_vec());
        want.sort();
        if left != want || got.code != Ok(0) {
            ctx.rep.violation(
                "C10 names that are not valid UTF-8: -delete does not remove exactly the entries it was evaluated on",
                format!("find {:?}: left behind {:?}, expected {:?}; status {:?} stderr {:?}", args, left.iter().map(|b| String::from_utf8_lossy(b).to_string()).collect::<Vec<_>>(), want.iter().map(|b| String::from_utf8_lossy(b).to_string()).collect::<Vec<_>>(), got.code, String::from_utf8_lossy(&got.err)),
                json!({"prop":"C10","forest":"","undecodable":true}),
            );
        }
    }
    std::env::set_current_dir(&ctx.sbx).unwrap();
    let _ = sandbox::force_remove(&base);
}

/// 150 directories with 64 file descriptors: -delete removes every matched entry of every directory.
fn low_descriptor_slice(ctx: &mut Ctx) {
    use crate::props::lowfd;
    for expr in [vec!["lf", "-mindepth", "1", "-delete"], vec!["lf", "-mindepth", "1", "-name", "[fl]", "-delete"]] {
        let sbx = lowfd::build(ctx);
        let o = lowfd::find(ctx, &expr, 64, vec![]);
        ctx.rep.evaluations += 1;
        ctx.rep.nontrivial += 1;
        ctx.rep.count("low_descriptor_limit_cases", 1);
        let left_dirs = std::fs::read_dir(sbx.join("lf")).map(|rd| rd.count()).unwrap_or(usize::MAX);
        let left_files: usize = (0..lowfd::NDIRS).map(|i| std::fs::read_dir(sbx.join(format!("lf/d{i:03}"))).map(|rd| rd.count()).unwrap_or(0)).sum();
        let want_dirs = if expr.len() == 4 { 0 } else { lowfd::NDIRS };
        if o.died() || o.code != Some(0) || left_dirs != want_dirs || left_files != 0 {
            ctx.rep.violation(
                "C10 -delete over 150 directories with 64 file descriptors: not every matched entry is removed",
                format!("find {:?} under RLIMIT_NOFILE=64: status {:?}; {left_dirs} directories left (expected {want_dirs}), {left_files} entries left inside them; stderr {:?}", expr, o.code, String::from_utf8_lossy(&o.err).lines().take(2).collect::<Vec<_>>()),
                json!({"prop":"C10","forest":"","low_descriptor":true}),
            );
        }
    }
    lowfd::remove(ctx);
}

fn run(ctx: &mut Ctx) {
    if ctx.shard == 5 % ctx.nshards {
        low_descriptor_slice(ctx);
    }
    if ctx.shard == 7 % ctx.nshards {
        unprivileged_slice(ctx);
    }
    if ctx.shard == 6 % ctx.nshards {
        undecodable_names_slice(ctx);
    }
    let labels = [Leaf::File, Leaf::EmptyDir, Leaf::LnFile, Leaf::LnDir, Leaf::LnDangling];
    for n in 0..=max_nodes(ctx.tier) {
        let mut todo: Vec<Vec<Shape>> = vec![];
        tree::forests(n, &labels, &mut |f| {
            if f.len() <= tree::NAMES.len() && ctx.next_mine() {
                todo.push(f.to_vec());
            }
        });
        for forest in todo {
            let enc = tree::encode_forest(&forest);
            ctx.progress_note(&enc);
            ctx.rep.count("trees", 1);
            if let Some((sig, detail)) = twice_case(ctx, &forest) {
                ctx.rep.violation(&sig, detail, json!({"prop":"C10","forest":enc,"twice":true}));
            }
            for spelling in [".", "./", "./.", ".//", "././"] {
                for e in ["always", "type-f", "type-d"] {
                    if let Some((sig, detail)) = dot_case(ctx, &forest, spelling, e) {
                        ctx.rep.violation(&sig, detail, json!({"prop":"C10","forest":enc,"dot":spelling,"expr":e}));
                    }
                }
            }
            for root in ["r", "lr", "r s", "s r"] {
                for follow in [Follow::P, Follow::H, Follow::L] {
                    for e in EXPRS {
                        // depth bounds other than the default only for the starting point r
                        let bounds: Vec<Bounds> = if root == "r" { std::iter::once(NO_BOUNDS).chain(BOUNDS).collect() } else { vec![NO_BOUNDS] };
                        // the follow mode given as the word -follow, before the tests and after -delete
                        if root == "r" && follow == Follow::L {
                            for word in [false, true] {
                                if let Some((sig, detail)) = one_case_w(ctx, &forest, root, follow, e, NO_BOUNDS, Some(word)) {
                                    ctx.rep.violation(&sig, detail, json!({"prop":"C10","forest":enc,"root":root,"follow":"-L","expr":e,"word":word}));
                                }
                            }
                        }
                        for b in bounds {
                            if let Some((sig, detail)) = one_case(ctx, &forest, root, follow, e, b) {
                                // determinism
                                match one_case(ctx, &forest, root, follow, e, b) {
                                    Some((s2, _)) if s2 == sig => ctx.rep.violation(&sig, detail, json!({"prop":"C10","forest":enc,"root":root,"follow":follow.flag(),"expr":e,"mindepth":b.0,"maxdepth":if b.1 == usize::MAX { 99 } else { b.1 }})),
                                    _ => ctx.rep.machinery(format!("nondeterministic verdict: {enc} {root} {} {e} {b:?}", follow.flag())),
                                }
                            }
                        }
                        if ctx.rep.samples.is_empty() || (ctx.rep.evaluations / 40_000) as usize >= ctx.rep.samples.len() {
                            let fs = c10_fs(&forest);
                            ctx.rep.sample(json!({"tree": fs.describe(0), "root": root, "follow": follow.flag(), "expr": e, "predicted_attempts": plan(&fs, root, follow, e, NO_BOUNDS).attempts}));
                        }
                    }
                }
            }
        }
    }
}

fn replay(case: &Value, ctx: &mut Ctx) -> Option<String> {
    let forest = tree::decode_forest(case["forest"].as_str()?)?;
    if case["low_descriptor"] == true {
        low_descriptor_slice(ctx);
        return ctx.rep.violations.keys().next().cloned();
    }
    if case["undecodable"] == true {
        undecodable_names_slice(ctx);
        return ctx.rep.violations.keys().next().cloned();
    }
    if case["unprivileged"] == true {
        unprivileged_slice(ctx);
        return ctx.rep.violations.keys().next().cloned();
    }
    if let Some(sp) = case["dot"].as_str() {
        let sp: &'static str = [".", "./", "./.", ".//", "././"].into_iter().find(|x| *x == sp)?;
        let e = EXPRS.iter().find(|x| Some(**x) == case["expr"].as_str())?;
        return match dot_case(ctx, &forest, sp, e) {
            Some((sig, detail)) => {
                ctx.rep.violation(&sig, detail, case.clone());
                Some(sig)
            }
            None => None,
        };
    }
    if case["twice"].as_bool().unwrap_or(false) {
        return match twice_case(ctx, &forest) {
            Some((sig, detail)) => {
                ctx.rep.violation(&sig, detail, case.clone());
                Some(sig)
            }
            None => None,
        };
    }
    let follow = match case["follow"].as_str()? {
        "-H" => Follow::H,
        "-L" => Follow::L,
        _ => Follow::P,
    };
    let root: &'static str = ["r", "lr", "r s", "s r"].into_iter().find(|r| Some(*r) == case["root"].as_str())?;
    let e = EXPRS.iter().find(|x| Some(**x) == case["expr"].as_str())?;
    let b: Bounds = (case["mindepth"].as_u64().unwrap_or(0) as usize, match case["maxdepth"].as_u64() {
        Some(x) if x < 99 => x as usize,
        _ => usize::MAX,
    });
    let word = case["word"].as_bool();
    match one_case_w(ctx, &forest, root, follow, e, b, word) {
        Some((sig, detail)) => {
            ctx.rep.violation(&sig, detail, case.clone());
            Some(sig)
        }
        None => None,
    }
}
