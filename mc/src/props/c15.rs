//! C15 time tests with an injected clock — boundary ages x N x kinds (a, c, m decoyed against one
//! another), and -newer / -anewer / -cnewer / -newerXY over every XY in {a,c,m}^2 with the X and Y
//! timestamps placed -1s, -1ns, 0, +1ns, +1s apart and all other timestamps as decoys.

use crate::engine::{Ctx, Prop, Spec, Tier};
use crate::props::labelled::{self as lb, St, Test};
use serde_json::{json, Value};
use std::path::Path;
use std::time::{Duration, SystemTime, UNIX_EPOCH};

pub const PROP: Prop = Prop { id: "C15", spec, run, replay };

const NS: i128 = 1_000_000_000;
const DAY: i128 = 86400;

fn ks(t: Tier) -> Vec<i128> {
    t.pick(vec![0, 1, 2, 3, 5, 30], vec![0, 1, 2, 3, 4, 5, 6, 7, 10, 30, 31, 365, 366, 3650])
}

/// ages far beyond the small ones (whole seconds above 2^24, 2^31 and 2^32): here only the operands
/// 0, 1, k-2..k+2 and 2^31 are evaluated
fn big_ks(t: Tier, period: i128) -> Vec<i128> {
    if period == 60 {
        t.pick(vec![300_000, 40_000_000], vec![300_000, 1_000_000, 40_000_000, 80_000_000])
    } else {
        t.pick(vec![200, 1000, 13_000, 25_000], vec![195, 200, 388, 1000, 13_000, 20_000, 25_000, 50_000])
    }
}

fn spec(t: Tier) -> Spec {
    Spec {
        id: "C15",
        level: "exploration",
        rule: format!("(A) for kind in {{a,c,m}} x period in {{60 s, 86400 s}} x k in {:?} (and, with operands 0, 1, k-2..k+2, 2^31 only, the large k {:?} days / {:?} minutes: whole seconds above 2^24, 2^31, 2^32) x age in {{k*P-1s, k*P-1ns, k*P, k*P+1ns, k*P+1s}} (>=0) x sub-second phase of the timestamp in {:?}: the injected now() is set to (timestamp read back by lstat) + age, the two other timestamps of the file sit in other periods, a second file is one period older; every N in 0..k+2 (and 2^31) x forms N,+N,-N of the matching -Xtime / -Xmin primary is evaluated by the real find; expected = floor(age/P) ==,>,< N. (B) entry/reference pairs built so that entry.X - reference.Y is -1s,-1ns,0,+1ns,+1s for each (X,Y) in {{a,c,m}}^2 (c by ordering real metadata changes and reading back; equality of c via a hard link), at two placements (about 1000 days before/after the status-change times; for pairs not involving c also in 1969 and 1931, i.e. negative seconds with a sub-second part) and {} base phases; on every pair ALL of -newer, -anewer, -cnewer and the nine -newerXY are evaluated; expected = entry.X > reference.Y at nanosecond resolution from lstat() read back. (D) under TZ=GMT0BST,M3.5.0/1,M10.5.0 and EST5EDT (daylight-saving rules), file and now() on either side of a 2026 switch, ages of k days (or the matching minutes) plus 30 min / 23 h 30 min: -mtime/-atime/-mmin/-amin N,+N,-N around k — an age is elapsed time. Files stamped 1960, 1969-12-31T23:59:30 and 1931 with now() 22 000-25 000 days / 32 000 000 minutes later. (C) one run of the find binary against the real clock: an earlier starting point runs `sleep 4` (no time test is evaluated before that: they are guarded by -path 's2/*', so a clock read lazily at the first time test shows too), entries that were 56 s / one day minus 4 s old when find started are visited afterwards and must still count as 0 minutes / 0 days old (now fixed at start). (E) references whose names begin or end with blanks (ASCII, U+00A0, U+2003, U+3000), a tab or a newline, stamped 2020, next to a look-alike without them stamped 2010, entry stamped 2015: -newer/-anewer/-newermm/-neweram/-newerma false. (F) a file whose path exceeds PATH_MAX under an earlier starting point: the entries after it and a later starting point are still tested on their own timestamps (eight spellings). removed-entry slice: an entry removed by an earlier -exec rm in the same expression before the test looks at it: standard output is exactly the entries the test selects (the diagnostic belongs on standard error). evaluation = (file, primary, operand); non-trivial = age within 1 s of a period boundary (A) / the pair's controlled difference concerns that primary's X,Y (B)", ks(t), big_ks(t, DAY), big_ks(t, 60), phases(t), phases(t).len()),
        bound: json!({"k": ks(t), "periods": [60, 86400], "deltas_ns": [-1_000_000_000i64, -1, 0, 1, 1_000_000_000i64], "xy": "a,c,m squared + -newer -anewer -cnewer"}),
        assumptions: vec![
            "-daystart, -newerXt, -newerB?, negative ages are outside the statement".into(),
            "ctime cannot be set: the clock (A) or the other file's timestamp (B) is placed relative to the ctime read back".into(),
        ],
        shards: 0,
        wall_cap_s: t.pick(300, 1800),
    }
}

fn phases(t: Tier) -> Vec<i64> {
    t.pick(vec![0, 1, 500_000_000, 999_999_999], vec![0, 1, 2, 499_999_999, 500_000_000, 500_000_001, 999_999_998, 999_999_999])
}

fn ns_of(ts: (i64, i64)) -> i128 {
    ts.0 as i128 * NS + ts.1 as i128
}
fn split(x: i128) -> (i64, i64) {
    (x.div_euclid(NS) as i64, x.rem_euclid(NS) as i64)
}
fn to_system(x: i128) -> SystemTime {
    let (s, n) = split(x);
    UNIX_EPOCH + Duration::new(s as u64, n as u32)
}
fn ts_of(st: &St, kind: char) -> i128 {
    ns_of(match kind {
        'a' => st.atime,
        'c' => st.ctime,
        _ => st.mtime,
    })
}

// ---------------------------------------------------------------------------------------------
// Part A: ages
// ---------------------------------------------------------------------------------------------

fn age_tests(kind: char, period: i128, nmax: u64) -> (Vec<Test>, Vec<(u64, usize)>) {
    let prim = format!("-{kind}{}", if period == 60 { "min" } else { "time" });
    let mut tests = vec![];
    let mut idx = vec![];
    let mut ns: Vec<u64> = if nmax > 190 && nmax != 365 + 2 && nmax != 366 + 2 && nmax != 3650 + 2 { [0, 1].into_iter().chain(nmax - 4..=nmax).collect() } else { (0..=nmax).collect() };
    ns.push(1 << 31);
    for n in ns {
        for (f, form) in ["", "+", "-"].iter().enumerate() {
            tests.push(vec![prim.clone(), format!("{form}{n}")]);
            idx.push((n, f));
        }
    }
    (tests, idx)
}

/// Prepare directory `t/` with files f (target) and g (one period older in every timestamp).
fn prep_age_files(sbx: &Path, phase: i64, period: i128) -> Result<(), String> {
    let dir = sbx.join("t");
    let _ = crate::sandbox::force_remove(&dir);
    std::fs::create_dir(&dir).map_err(|e| e.to_string())?;
    for n in ["f", "g"] {
        std::fs::write(dir.join(n), b"").map_err(|e| e.to_string())?;
    }
    // real "now" (ctime will be about this); a and m are placed 3d5h and 7d11h17m before it
    let c = lb::lstat(&dir.join("f")).ok_or("lstat")?.ctime;
    let base = c.0 as i128 * NS;
    let a = base - (3 * DAY + 5 * 3600) * NS + phase as i128;
    let m = base - (7 * DAY + 11 * 3600 + 17 * 60) * NS + phase as i128;
    lb::set_times(&dir.join("f"), split(a), split(m))?;
    lb::set_times(&dir.join("g"), split(a - period * NS), split(m - period * NS))?;
    Ok(())
}

fn part_a(ctx: &mut Ctx) {
    let sbx = ctx.sbx.clone();
    let mut case_no = 0u64;
    for period in [60i128, DAY] {
        for phase in phases(ctx.tier) {
            // files are (re)built once per (period, phase): timestamps then stay fixed
            let mut built = false;
            for kind in ['a', 'c', 'm'] {
                for k in ks(ctx.tier).into_iter().chain(big_ks(ctx.tier, period)) {
                    for d in [-NS, -1, 0, 1, NS] {
                        let age = k * period * NS + d;
                        if age < 0 {
                            continue;
                        }
                        case_no += 1;
                        if !ctx.mine(case_no) {
                            continue;
                        }
                        if !built {
                            if let Err(e) = prep_age_files(&sbx, phase, period) {
                                ctx.rep.machinery(format!("prep: {e}"));
                                return;
                            }
                            built = true;
                        }
                        ctx.progress(case_no);
                        one_age_case(ctx, kind, period, k, age, phase);
                    }
                }
            }
        }
    }
}

/// Files stamped before 1970 (negative seconds, with a sub-second part): the age is still the
/// elapsed time to the injected now() — 22 000 days / 32 000 000 minutes later, around the period
/// boundaries.
fn pre_epoch_ages(ctx: &mut Ctx) {
    let sbx = ctx.sbx.clone();
    let dir = sbx.join("t");
    let mut case_no = 5_000_000u64;
    for (stamp, phase) in [(-315_619_200i128, 250_000_000i64), (-30, 999_999_999), (-86_400 * 14_000, 1)] {
        let _ = crate::sandbox::force_remove(&dir);
        if std::fs::create_dir(&dir).is_err() {
            ctx.rep.machinery("pre-epoch sandbox".into());
            return;
        }
        for (n, off) in [("f", 0i128), ("g", -DAY)] {
            let _ = std::fs::write(dir.join(n), b"");
            let ts = (stamp + off) * NS + phase as i128;
            if let Err(e) = lb::set_times(&dir.join(n), split(ts), split(ts)) {
                ctx.rep.machinery(format!("pre-epoch times: {e}"));
                return;
            }
        }
        for kind in ['a', 'm'] {
            for (period, k) in [(DAY, 22_000i128), (DAY, 25_000), (60, 32_000_000)] {
                for d in [-NS, -1, 0, 1, NS] {
                    case_no += 1;
                    if !ctx.mine(case_no) {
                        continue;
                    }
                    ctx.rep.count("pre_epoch_age_cases", 1);
                    one_age_case(ctx, kind, period, k, k * period * NS + d, phase);
                }
            }
        }
    }
}

/// A time zone with daylight saving (POSIX rule, no tzdata needed): an age is elapsed time, not a
/// difference of wall-clock readings. File and now() lie on either side of the 2026 switches
/// (29 March, 25 October), the age within half an hour of a day / minute boundary.
fn dst_slice(ctx: &mut Ctx) {
    let sbx = ctx.sbx.clone();
    let dir = sbx.join("t");
    let old_tz = std::env::var_os("TZ");
    // 2026-03-20 12:00:00 UTC and 2026-10-20 12:00:00 UTC
    for (zone, stamp) in [("GMT0BST,M3.5.0/1,M10.5.0", 1_774_008_000i128), ("GMT0BST,M3.5.0/1,M10.5.0", 1_792_497_600), ("EST5EDT,M3.2.0,M11.1.0", 1_772_798_400), ("UTC0", 1_774_008_000)] {
        std::env::set_var("TZ", zone);
        // (chrono looks at TZ again at most once per second)
        std::thread::sleep(Duration::from_millis(1100));
        let _ = crate::sandbox::force_remove(&dir);
        if std::fs::create_dir(&dir).is_err() {
            break;
        }
        let _ = std::fs::write(dir.join("f"), b"");
        if lb::set_times(&dir.join("f"), split(stamp * NS), split(stamp * NS)).is_err() {
            break;
        }
        for (k, extra_s) in [(30i128, 23 * 3600 + 1800), (30, 1800), (10, 23 * 3600 + 1800), (10, 1800), (1, 23 * 3600 + 1800)] {
            let age = (k * DAY + extra_s) * NS;
            let now = to_system(stamp * NS + age);
            let mut tests: Vec<Test> = vec![];
            let mut want: Vec<bool> = vec![];
            for n in k - 1..=k + 1 {
                for (f, pre) in ["", "+", "-"].iter().enumerate() {
                    for (prim, unit) in [("-mtime", DAY), ("-atime", DAY), ("-mmin", 60), ("-amin", 60)] {
                        let measured = age / (unit * NS);
                        let nn = if unit == DAY { n } else { measured + (n - k) };
                        tests.push(vec![prim.to_string(), format!("{pre}{nn}")]);
                        want.push([measured == nn, measured > nn, measured < nn][f]);
                    }
                }
            }
            match lb::run_labelled(&[], &["t"], &["-mindepth", "1"], &tests, now) {
                Ok(sel) if sel.out.code == Ok(0) => {
                    for (ti, w) in want.iter().enumerate() {
                        let got = sel.sel[ti].contains("t/f");
                        ctx.rep.evaluations += 1;
                        ctx.rep.nontrivial += 1;
                        if got != *w {
                            ctx.rep.violation(
                                &format!("C15 {} wrong across a daylight-saving switch (an age is elapsed time, not a difference of local clock readings)", tests[ti][0]),
                                format!("TZ={zone}: file stamped {stamp} (UTC seconds), now {} s later ({k} days + {extra_s} s): {} {} gave {got}, expected {w}", age / NS, tests[ti][0], tests[ti][1]),
                                json!({"prop":"C15","part":"DST"}),
                            );
                        }
                    }
                }
                Ok(sel) => ctx.rep.violation("C15 non-zero status [DST slice]", sel.out.brief(), json!({"prop":"C15","part":"DST"})),
                Err((why, out, _)) => ctx.rep.violation("C15 output not attributable [DST slice]", format!("{why}: {}", out.brief()), json!({"prop":"C15","part":"DST"})),
            }
            ctx.rep.count("dst_cases", 1);
        }
    }
    match old_tz {
        Some(v) => std::env::set_var("TZ", v),
        None => std::env::remove_var("TZ"),
    }
    std::thread::sleep(Duration::from_millis(1100));
}

fn one_age_case(ctx: &mut Ctx, kind: char, period: i128, k: i128, age: i128, phase: i64) {
    let stf = lb::lstat(Path::new("t/f")).unwrap();
    let now_ns = ts_of(&stf, kind) + age;
    let now = to_system(now_ns);
    let (tests, idx) = age_tests(kind, period, (k + 2) as u64);
    let prim = tests[0][0].clone();
    let res = lb::run_labelled(&[], &["t"], &["-mindepth", "1"], &tests, now);
    let sel = match res {
        Ok(s) if s.out.code == Ok(0) => s,
        Ok(s) => {
            ctx.rep.violation(&format!("C15 {prim}: non-zero status / rejected operand"), format!("find {:?}\n{}", s.argv, s.out.brief()), json!({"prop":"C15","part":"A","argv":s.argv}));
            return;
        }
        Err((why, out, argv)) => {
            let sig = if out.panicked() { format!("C15 panic in {prim}") } else { format!("C15 {prim}: output not attributable") };
            ctx.rep.violation(&sig, format!("{why}\nfind {:?}\n{}", argv, out.brief()), json!({"prop":"C15","part":"A","argv":argv}));
            return;
        }
    };
    for file in ["t/f", "t/g"] {
        let st = lb::lstat(Path::new(file)).unwrap();
        let a = now_ns - ts_of(&st, kind);
        if a < 0 {
            continue;
        }
        let measured = (a / (period * NS)) as u64;
        let frac = a % (period * NS);
        let near = frac <= NS || frac >= period * NS - NS;
        for (ti, (n, f)) in idx.iter().enumerate() {
            let got = sel.sel[ti].contains(file);
            let want = [measured == *n, measured > *n, measured < *n][*f];
            ctx.rep.evaluations += 1;
            if near && measured.abs_diff(*n) <= 1 {
                ctx.rep.nontrivial += 1;
            }
            ctx.rep.class(&format!("A {prim} form{f} got={got}"));
            if got != want {
                let pos = if frac == 0 {
                    "exactly k periods"
                } else if frac < NS {
                    "just after a period boundary"
                } else if frac >= period * NS - NS {
                    "just before a period boundary"
                } else {
                    "mid-period"
                };
                let form = ["N", "+N", "-N"][*f];
                let decoy = ['a', 'c', 'm'].iter().filter(|x| **x != kind).map(|x| format!("{x}:{}", (now_ns - ts_of(&st, *x)) / (period * NS))).collect::<Vec<_>>().join(" ");
                ctx.rep.violation(
                    &format!("C15 {prim} {form} wrong, age {pos}"),
                    format!("{file}: {kind}-timestamp {:?}, now {:?}: age {} ns = {} complete periods of {period} s (+{} ns); {prim} {} gave {got}, expected {want}; periods by the other timestamps: {decoy}", split(ts_of(&st, kind)), split(now_ns), a, measured, frac, tests[ti][1]),
                    json!({"prop":"C15","part":"A","kind":kind.to_string(),"period":period as i64,"k":k as i64,"age_ns":age.to_string(),"phase":phase,"test":tests[ti],"file":file}),
                );
            }
        }
    }
    if ctx.rep.samples.len() < 3 {
        ctx.rep.sample(json!({"part":"A","primary":prim,"age_ns":age.to_string(),"now":format!("{:?}", split(now_ns)),"f": format!("{:?}", stf), "operands": tests.iter().map(|t| t[1].clone()).collect::<Vec<_>>()}));
    }
}

// ---------------------------------------------------------------------------------------------
// Part B: -newer family
// ---------------------------------------------------------------------------------------------

fn newer_tests() -> Vec<(Test, char, char)> {
    let mut v: Vec<(Test, char, char)> = vec![(lb::t(&["-newer", "ref/r"]), 'm', 'm'), (lb::t(&["-anewer", "ref/r"]), 'a', 'm'), (lb::t(&["-cnewer", "ref/r"]), 'c', 'm')];
    for x in ['a', 'c', 'm'] {
        for y in ['a', 'c', 'm'] {
            v.push((vec![format!("-newer{x}{y}"), "ref/r".into()], x, y));
        }
    }
    v
}

fn tick() {
    // let the file system's (coarse) clock advance so that successive ctimes differ
    std::thread::sleep(Duration::from_millis(12));
}

/// Build e/f (entry), e/g (second entry: everything 2 s older than f) and ref/r such that
/// f.X - r.Y == d (ns), the remaining a/m timestamps being decoys on the other side.
/// placement: +1 = the a/m timestamps lie ~1000 days after the ctimes, -1 = before.
fn build_pair(sbx: &Path, x: char, y: char, d: i128, placement: i128, phase: i64, hard: bool) -> Result<(), String> {
    for dname in ["e", "ref"] {
        let _ = crate::sandbox::force_remove(&sbx.join(dname));
        std::fs::create_dir(sbx.join(dname)).map_err(|e| e.to_string())?;
    }
    let (f, g, r) = (sbx.join("e/f"), sbx.join("e/g"), sbx.join("ref/r"));
    std::fs::write(&g, b"").map_err(|e| e.to_string())?;
    if hard {
        std::fs::write(&f, b"").map_err(|e| e.to_string())?;
        std::fs::hard_link(&f, &r).map_err(|e| e.to_string())?;
        let c = ns_of(lb::lstat(&f).ok_or("lstat")?.ctime);
        lb::set_times(&f, split(c - 5 * NS + phase as i128), split(c + 7 * NS + phase as i128))?;
        return Ok(());
    }
    let far = 1000 * DAY * NS;
    // creation order decides the sign of f.c - r.c when both are 'c'
    let first_is_f = d < 0; // f.c < r.c  <=> f touched first
    let order: [&Path; 2] = if first_is_f { [&f, &r] } else { [&r, &f] };
    std::fs::write(order[0], b"").map_err(|e| e.to_string())?;
    if x == 'c' && y == 'c' && d != 0 {
        tick();
    }
    std::fs::write(order[1], b"").map_err(|e| e.to_string())?;
    let set = |p: &Path, a: i128, m: i128| lb::set_times(p, split(a), split(m));
    let cnow = ns_of(lb::lstat(order[1]).ok_or("lstat")?.ctime);
    let base = (cnow / NS) * NS + placement * far + phase as i128;
    // decoys: entry's other timestamps on the FALSE side when the controlled comparison is true
    // and vice versa; reference's other timestamps likewise.
    let truth = d > 0;
    let e_decoy = if truth { base - 50 * DAY * NS } else { base + 50 * DAY * NS };
    let r_decoy = if truth { base + 60 * DAY * NS } else { base - 60 * DAY * NS };
    match (x, y) {
        ('c', 'c') => {
            // nothing to place; decoys only (setting times moves ctimes: do r first or f first to keep the order)
            set(order[0], if first_is_f { e_decoy } else { r_decoy }, if first_is_f { e_decoy } else { r_decoy })?;
            tick();
            set(order[1], if first_is_f { r_decoy } else { e_decoy }, if first_is_f { r_decoy } else { e_decoy })?;
        }
        ('c', _) => {
            // f.c fixed by f's last change; r.Y := f.c - d
            set(&f, e_decoy, e_decoy)?;
            let fc = ns_of(lb::lstat(&f).ok_or("lstat")?.ctime);
            let (ra, rm) = if y == 'a' { (fc - d, r_decoy_rel(fc, truth)) } else { (r_decoy_rel(fc, truth), fc - d) };
            set(&r, ra, rm)?;
        }
        (_, 'c') => {
            set(&r, r_decoy, r_decoy)?;
            let rc = ns_of(lb::lstat(&r).ok_or("lstat")?.ctime);
            let (fa, fm) = if x == 'a' { (rc + d, e_decoy_rel(rc, truth)) } else { (e_decoy_rel(rc, truth), rc + d) };
            set(&f, fa, fm)?;
        }
        _ => {
            let (ra, rm) = if y == 'a' { (base, r_decoy) } else { (r_decoy, base) };
            set(&r, ra, rm)?;
            let (fa, fm) = if x == 'a' { (base + d, e_decoy) } else { (e_decoy, base + d) };
            set(&f, fa, fm)?;
        }
    }
    // g: 2 s older than f in a and m
    let sf = lb::lstat(&f).ok_or("lstat")?;
    set(&g, ns_of(sf.atime) - 2 * NS, ns_of(sf.mtime) - 2 * NS)?;
    Ok(())
}

fn r_decoy_rel(anchor: i128, truth: bool) -> i128 {
    if truth {
        anchor + 60 * DAY * NS
    } else {
        anchor - 60 * DAY * NS
    }
}
fn e_decoy_rel(anchor: i128, truth: bool) -> i128 {
    if truth {
        anchor - 50 * DAY * NS
    } else {
        anchor + 50 * DAY * NS
    }
}

fn judge_pair(ctx: &mut Ctx, desc: &Value, target: Option<(char, char)>) {
    let tests = newer_tests();
    let tl: Vec<Test> = tests.iter().map(|t| t.0.clone()).collect();
    let sel = match lb::run_labelled(&[], &["e"], &["-mindepth", "1"], &tl, crate::findrun::default_now()) {
        Ok(s) if s.out.code == Ok(0) => s,
        Ok(s) => {
            ctx.rep.violation("C15 -newer family: non-zero status", format!("find {:?}\n{}", s.argv, s.out.brief()), desc.clone());
            return;
        }
        Err((why, out, argv)) => {
            let sig = if out.panicked() { "C15 panic in -newer family" } else { "C15 -newer family: output not attributable" };
            ctx.rep.violation(sig, format!("{why}\nfind {:?}\n{}", argv, out.brief()), desc.clone());
            return;
        }
    };
    let r = lb::lstat(Path::new("ref/r")).unwrap();
    for file in ["e/f", "e/g"] {
        let st = lb::lstat(Path::new(file)).unwrap();
        for (ti, (t, x, y)) in tests.iter().enumerate() {
            let ex = ts_of(&st, *x);
            let ry = ts_of(&r, *y);
            let want = ex > ry;
            let got = sel.sel[ti].contains(file);
            ctx.rep.evaluations += 1;
            if target == Some((*x, *y)) || (ex - ry).abs() <= NS {
                ctx.rep.nontrivial += 1;
            }
            ctx.rep.class(&format!("B {} got={got}", t[0]));
            if got != want {
                let diff = ex - ry;
                let how = if diff == 0 {
                    "timestamps equal (must be false: strictly later)".to_string()
                } else if diff.abs() < NS {
                    "difference below one second".to_string()
                } else {
                    format!("entry.{x} {} reference.{y}", if diff > 0 { "later than" } else { "earlier than" })
                };
                let mut d2 = desc.clone();
                d2["test"] = json!(t);
                d2["file"] = json!(file);
                ctx.rep.violation(
                    &format!("C15 {} {} although {}", t[0], if got { "true" } else { "false" }, how),
                    format!("{file}: a={:?} c={:?} m={:?}; reference: a={:?} c={:?} m={:?}; {} must compare entry.{x} with reference.{y}: expected {want}, got {got}", st.atime, st.ctime, st.mtime, r.atime, r.ctime, r.mtime, t[0]),
                    d2,
                );
            }
        }
    }
    if ctx.rep.samples.len() < 6 && target.is_some() {
        let st = lb::lstat(Path::new("e/f")).unwrap();
        ctx.rep.sample(json!({"part":"B","pair":desc,"entry": format!("a={:?} c={:?} m={:?}", st.atime, st.ctime, st.mtime), "reference": format!("a={:?} c={:?} m={:?}", r.atime, r.ctime, r.mtime)}));
    }
}

fn part_b(ctx: &mut Ctx) {
    let sbx = ctx.sbx.clone();
    let mut case_no = 1_000_000u64;
    for phase in phases(ctx.tier) {
        for x in ['a', 'c', 'm'] {
            for y in ['a', 'c', 'm'] {
                for d in [-NS, -1, 0, 1, NS] {
                    // +-1: ~1000 days after/before now; -21 and -35: before 1970 (negative seconds,
                    // only where neither side is a status-change time)
                    let placements: &[i128] = if x != 'c' && y != 'c' { &[-1, 1, -21, -35] } else { &[-1, 1] };
                    for &placement in placements {
                        case_no += 1;
                        if !ctx.mine(case_no) {
                            continue;
                        }
                        ctx.progress(case_no);
                        let desc = json!({"prop":"C15","part":"B","x":x.to_string(),"y":y.to_string(),"d_ns":d as i64,"placement":placement as i64,"phase":phase,"hard":false});
                        ctx.progress_note(&desc.to_string());
                        if x == 'c' && y == 'c' && d == 0 {
                            // equality of c with c: only through a hard link
                            if let Err(e) = build_pair(&sbx, x, y, d, placement, phase, true) {
                                ctx.rep.machinery(format!("pair: {e}"));
                                continue;
                            }
                            let mut dd = desc.clone();
                            dd["hard"] = json!(true);
                            judge_pair(ctx, &dd, Some((x, y)));
                            continue;
                        }
                        if let Err(e) = build_pair(&sbx, x, y, d, placement, phase, false) {
                            ctx.rep.machinery(format!("pair: {e}"));
                            continue;
                        }
                        // the construction must have achieved the intended difference (c/c: sign only)
                        let f = lb::lstat(Path::new("e/f")).unwrap();
                        let r = lb::lstat(Path::new("ref/r")).unwrap();
                        let diff = ts_of(&f, x) - ts_of(&r, y);
                        let ok = if x == 'c' && y == 'c' { diff.signum() == d.signum() } else { diff == d };
                        if !ok {
                            ctx.rep.count("pairs_whose_construction_missed_the_intended_difference", 1);
                        } else {
                            ctx.rep.count("pairs_built_as_intended", 1);
                        }
                        judge_pair(ctx, &desc, Some((x, y)));
                    }
                }
            }
        }
    }
}

// ---------------------------------------------------------------------------------------------
// Part C: 'now' is fixed when find starts — real clock, find binary, a slow earlier action
// ---------------------------------------------------------------------------------------------

/// `find s1 s2 ...` where visiting s1/first runs `sleep 4`; the entries of s2 are 56 s / one day
/// minus 4 s old when find starts and are visited after the sleep: they must still count as
/// 0 minutes / 0 days old. Inconclusive (no verdict) if the machine stalled for > 2.5 s.
fn part_c(ctx: &mut Ctx) {
    let sbx = ctx.sbx.clone();
    for d in ["s1", "s2"] {
        let _ = crate::sandbox::force_remove(&sbx.join(d));
        if std::fs::create_dir(sbx.join(d)).is_err() {
            return;
        }
    }
    for f in ["s1/first", "s2/m", "s2/d"] {
        let _ = std::fs::write(sbx.join(f), b"");
    }
    let t0 = SystemTime::now();
    let t0n = t0.duration_since(UNIX_EPOCH).unwrap();
    let t0_ns = t0n.as_secs() as i128 * NS + t0n.subsec_nanos() as i128;
    let _ = lb::set_times(&sbx.join("s2/m"), split(t0_ns - 56 * NS), split(t0_ns - 56 * NS));
    let _ = lb::set_times(&sbx.join("s2/d"), split(t0_ns - (DAY - 4) * NS), split(t0_ns - (DAY - 4) * NS));
    let argv: Vec<String> = ["s1", "s2", "-sorted", "(", "-path", "s1/first", "-exec", "sleep", "4", ";", ")", ",", "(", "-path", "s2/*", "-mmin", "0", "-printf", "M0 %p\\n", ")", ",", "(", "-path", "s2/*", "-mmin", "1", "-printf", "M1 %p\\n", ")", ",", "(", "-path", "s2/*", "-mtime", "0", "-printf", "D0 %p\\n", ")", ",", "(", "-path", "s2/*", "-mtime", "1", "-printf", "D1 %p\\n", ")", ",", "(", "-path", "s2/*", "-amin", "-1", "-printf", "A0 %p\\n", ")"].iter().map(|s| s.to_string()).collect();
    let aos: Vec<&std::ffi::OsStr> = argv.iter().map(std::ffi::OsStr::new).collect();
    let o = crate::binrun::run(&crate::binrun::repo_bin("find"), &aos, &sbx, &crate::binrun::Opts { timeout_s: 60, ..Default::default() });
    let elapsed = t0.elapsed().map(|d| d.as_secs_f64()).unwrap_or(99.0);
    ctx.rep.evaluations += 1;
    if !(4.0..6.5).contains(&elapsed) || o.code != Some(0) {
        ctx.rep.count("part_C_inconclusive_runs (machine stalled or sleep unavailable)", 1);
        return;
    }
    ctx.rep.nontrivial += 1;
    ctx.rep.traces_validated += 1;
    let out = String::from_utf8_lossy(&o.out).to_string();
    let has = |l: &str| out.lines().any(|x| x == l);
    // s2/m: 56 s old at start -> 0 complete minutes; s2/d: one day minus 4 s -> 0 complete days (and 1439 minutes)
    let ok = has("M0 s2/m") && !has("M1 s2/m") && has("D0 s2/d") && !has("D1 s2/d") && has("A0 s2/m");
    if !ok {
        ctx.rep.violation(
            "C15 'now' is not fixed when find starts: entries visited after a slow action are aged against a later clock",
            format!("find {:?}\n(s2/m was 56 s old and s2/d one day minus 4 s old when find started; s1/first ran 'sleep 4' before they were visited; elapsed {elapsed:.1} s)\nstdout {:?}", argv, out),
            json!({"prop":"C15","part":"C"}),
        );
    }
}

/// (E) The reference operand of the -newer family is a file name, used byte for byte: references whose
/// names begin or end with blanks (ASCII and U+00A0 / U+3000) or a newline, each stamped 2020, next to
/// a look-alike without the blanks stamped 2010; the entry is stamped 2015 — not newer than the named
/// reference, newer than the look-alike. (F) an entry whose status cannot be read (its path is longer
/// than PATH_MAX) under an earlier starting point: the tests on the entries that come after it, and
/// on a later starting point, are answered as if it were not there.
fn odd_reference_and_failed_entry(ctx: &mut Ctx) {
    let sbx = ctx.sbx.clone();
    let base = sbx.join("or");
    let _ = crate::sandbox::force_remove(&base);
    std::fs::create_dir_all(base.join("e")).unwrap();
    std::fs::create_dir_all(base.join("refs")).unwrap();
    let y = |year: i128| ((year - 1970) * 365 * DAY + 200 * DAY) * NS;
    let stamp = |p: &Path, t: i128| lb::set_times(p, split(t), split(t));
    std::fs::write(base.join("e/f"), b"").unwrap();
    let _ = stamp(&base.join("e/f"), y(2015));
    std::fs::write(base.join("refs/stamp"), b"").unwrap();
    let _ = stamp(&base.join("refs/stamp"), y(2010));
    let names = ["stamp ", " stamp", "stamp\u{3000}", "\u{a0}stamp", "stamp\n", "stamp\t", "stamp \u{2003}"];
    for n in names {
        std::fs::write(base.join("refs").join(n), b"").unwrap();
        let _ = stamp(&base.join("refs").join(n), y(2020));
    }
    std::env::set_current_dir(&base).unwrap();
    for n in names {
        for prim in ["-newer", "-anewer", "-newermm", "-neweram", "-newermt-not", "-newerma"] {
            if prim == "-newermt-not" {
                continue;
            }
            let r = format!("refs/{n}");
            let got = crate::findrun::run_find(&["e", "-type", "f", prim, &r, "-print"]);
            ctx.rep.evaluations += 1;
            ctx.rep.nontrivial += 1;
            ctx.rep.count("odd_reference_cases", 1);
            if !got.out.is_empty() || got.code != Ok(0) {
                ctx.rep.violation(
                    &format!("C15 {prim} REF with a reference name that begins or ends with blanks: not compared with that file"),
                    format!("find e -type f {prim} {r:?} -print: printed {:?} status {:?} stderr {:?}; e/f is stamped 2015, the named reference 2020 (refs/stamp, stamped 2010, is another file)", String::from_utf8_lossy(&got.out), got.code, String::from_utf8_lossy(&got.err)),
                    json!({"prop":"C15","part":"E"}),
                );
            }
        }
    }
    // (F)
    std::fs::create_dir_all(base.join("top")).unwrap();
    std::fs::create_dir_all(base.join("other")).unwrap();
    std::fs::write(base.join("other/n"), b"").unwrap();
    std::fs::write(base.join("top/zlast"), b"").unwrap();
    let comp = "d".repeat(250);
    std::env::set_current_dir(base.join("top")).unwrap();
    let mut ok = true;
    for _ in 0..16 {
        ok &= std::fs::create_dir(&comp).is_ok() && std::env::set_current_dir(&comp).is_ok();
    }
    ok &= std::fs::write("f".repeat(100), b"").is_ok();
    std::env::set_current_dir(&base).unwrap();
    if !ok {
        ctx.rep.machinery("could not build the over-long path".into());
    } else {
        for prim in ["-newer", "-anewer", "-cnewer", "-newermm", "-neweram", "-newercm", "-neweraa", "-newerca"] {
            let got = crate::findrun::run_find(&["top", "other", "-sorted", prim, "refs/stamp", "-type", "f", "-printf", "%f\n"]);
            ctx.rep.evaluations += 1;
            ctx.rep.nontrivial += 1;
            ctx.rep.count("failed_entry_cases", 1);
            let lines: Vec<String> = String::from_utf8_lossy(&got.out).lines().map(String::from).collect();
            // top/zlast and other/n were written just now: newer than a file stamped 2010 by every timestamp
            if got.panicked() || !lines.contains(&"zlast".to_string()) || !lines.contains(&"n".to_string()) {
                ctx.rep.violation(
                    &format!("C15 {prim}: after an entry whose status cannot be read, later entries are not tested on their own timestamps"),
                    format!("find top other -sorted {prim} refs/stamp -type f -printf '%f\\n' (top holds a file whose path exceeds PATH_MAX): printed {:?}, status {:?}; top/zlast and other/n are newer than the reference", lines, got.code),
                    json!({"prop":"C15","part":"E"}),
                );
            }
        }
    }
    std::env::set_current_dir(&sbx).unwrap();
    // (the over-long tree cannot be removed through absolute paths: std's remove_dir_all works with
    // directory handles)
    let _ = std::fs::remove_dir_all(base.join("top"));
    let _ = crate::sandbox::force_remove(&base);
}

/// An entry removed by an earlier action before the test looks at it: the diagnostic goes to standard
/// error, standard output lists exactly the entries the test selects.
fn removed_entry_slice(ctx: &mut Ctx) {
    let cases: Vec<(Vec<&str>, bool, Vec<&str>)> = vec![(vec!["-newer", "ec/ref"], false, vec!["ec/d", "ec/d/keep"]), (vec!["-newermm", "ec/ref"], true, vec!["ec/d", "ec/d/keep"]), (vec!["-anewer", "ec/ref"], false, vec!["ec/d", "ec/d/keep"]), (vec!["-cnewer", "ec/ref"], false, vec!["ec/d", "ec/d/keep"]), (vec!["-newerca", "ec/ref"], false, vec!["ec/d", "ec/d/keep"]), (vec!["-mtime", "-99999"], false, vec!["ec/d", "ec/d/keep"]), (vec!["-amin", "-99999999"], false, vec!["ec/d", "ec/d/keep"])];
    for (test, victim_is_dir, expect) in cases {
        ctx.rep.evaluations += 1;
        ctx.rep.nontrivial += 1;
        ctx.rep.count("removed_entry_cases", 1);
        if let Err(d) = crate::props::labelled::removed_entry_case(&ctx.sbx.clone(), &test, victim_is_dir, &expect) {
            ctx.rep.violation(&format!("C15 {} on an entry that was removed just before: standard output is not exactly the selected entries (a diagnostic belongs on standard error)", test[0]), d, json!({"prop":"C15","removed_entry":true}));
        }
    }
}

fn run(ctx: &mut Ctx) {
    pre_epoch_ages(ctx);
    part_a(ctx);
    part_b(ctx);
    if ctx.shard == 0 {
        part_c(ctx);
    }
    if ctx.shard == 1 % ctx.nshards {
        dst_slice(ctx);
    }
    if ctx.shard == 2 % ctx.nshards {
        odd_reference_and_failed_entry(ctx);
    }
    if ctx.shard == 8 % ctx.nshards {
        removed_entry_slice(ctx);
    }

}

fn replay(case: &Value, ctx: &mut Ctx) -> Option<String> {
    if case["removed_entry"] == true {
        removed_entry_slice(ctx);
        return ctx.rep.violations.keys().next().cloned();
    }
    let sbx = ctx.sbx.clone();
    let before = ctx.rep.violations.len();
    if case["part"] == "DST" {
        dst_slice(ctx);
        return ctx.rep.violations.keys().next().cloned();
    }
    if case["part"] == "E" {
        odd_reference_and_failed_entry(ctx);
        return ctx.rep.violations.keys().next().cloned();
    }
    if case["part"] == "C" {
        part_c(ctx);
        return ctx.rep.violations.keys().next().cloned();
    }
    if case["part"] == "A" {
        let kind = case["kind"].as_str()?.chars().next()?;
        let period = case["period"].as_i64()? as i128;
        let age: i128 = case["age_ns"].as_str()?.parse().ok()?;
        let phase = case["phase"].as_i64()?;
        prep_age_files(&sbx, phase, period).ok()?;
        one_age_case(ctx, kind, period, case["k"].as_i64()? as i128, age, phase);
    } else {
        let x = case["x"].as_str()?.chars().next()?;
        let y = case["y"].as_str()?.chars().next()?;
        build_pair(&sbx, x, y, case["d_ns"].as_i64()? as i128, case["placement"].as_i64()? as i128, case["phase"].as_i64()?, case["hard"].as_bool().unwrap_or(false)).ok()?;
        judge_pair(ctx, case, Some((x, y)));
    }
    if ctx.rep.violations.len() > before || !ctx.rep.violations.is_empty() {
        ctx.rep.violations.keys().next().cloned()
    } else {
        None
    }
}
