//! C16 -printf rendering — every format of <= n components (literals, escapes, %%, directives
//! x flag x width) x every entry kind and depth x starting-point spellings x follow modes,
//! byte-exact against an independent renderer fed from lstat/stat/readlink.

use crate::engine::{Ctx, Prop, Spec, Tier};
use crate::findrun::run_find;
use crate::props::labelled::{self as lb, St};
use serde_json::{json, Value};
use std::collections::BTreeSet;
use std::path::Path;

pub const PROP: Prop = Prop { id: "C16", spec, run, replay };

const DIRECTIVES: [char; 15] = ['p', 'f', 'h', 'H', 'P', 'd', 's', 'n', 'i', 'U', 'G', 'm', 'y', 'Y', 'l'];
const ESCAPES: [(&str, &[u8]); 13] = [("\\a", b"\x07"), ("\\b", b"\x08"), ("\\f", b"\x0c"), ("\\n", b"\n"), ("\\r", b"\r"), ("\\t", b"\t"), ("\\v", b"\x0b"), ("\\\\", b"\\"), ("\\0", b"\0"), ("\\101", b"A"), ("\\012", b"\n"), ("\\000", b"\0"), ("\\047", b"'")];

#[derive(Clone, Debug)]
enum Comp {
    Lit(&'static str, Vec<u8>),
    Dir { d: char, left: bool, width: Option<usize>, text: String },
}

impl Comp {
    fn text(&self) -> &str {
        match self {
            Comp::Lit(t, _) => t,
            Comp::Dir { text, .. } => text,
        }
    }
}

fn components() -> Vec<Comp> {
    let mut v = vec![Comp::Lit("x", b"x".to_vec()), Comp::Lit("\u{e9}", "\u{e9}".as_bytes().to_vec())];
    for (t, b) in ESCAPES {
        v.push(Comp::Lit(t, b.to_vec()));
    }
    v.push(Comp::Lit("%%", b"%".to_vec()));
    for d in DIRECTIVES {
        for left in [false, true] {
            for width in [None, Some(1usize), Some(9)] {
                let text = format!("%{}{}{}", if left { "-" } else { "" }, width.map(|w| w.to_string()).unwrap_or_default(), d);
                v.push(Comp::Dir { d, left, width, text });
            }
        }
    }
    v
}

/// widths 10, 16, 100, 255, 256, 1000 for every directive and flag; 65535 (the largest accepted) for %d and %y
fn wide_components() -> Vec<Comp> {
    let mut v = vec![];
    for d in DIRECTIVES {
        for left in [false, true] {
            for width in [10usize, 16, 100, 255, 256, 1000, 65535] {
                if width == 65535 && !(d == 'd' || d == 'y') {
                    continue;
                }
                let text = format!("%{}{}{}", if left { "-" } else { "" }, width, d);
                v.push(Comp::Dir { d, left, width: Some(width), text });
            }
        }
    }
    v
}

fn roots(sbx_w: &str) -> Vec<String> {
    vec!["r".into(), "./r".into(), "r/".into(), "r//".into(), "r/.".into(), ".".into(), "../w/r".into(), format!("{sbx_w}/r"), "lr".into()]
}

fn spec(t: Tier) -> Spec {
    Spec {
        id: "C16",
        level: "exploration",
        rule: format!("components: literal x, literal é, escapes \\a \\b \\f \\n \\r \\t \\v \\\\ \\0 \\101 \\012 \\000 \\047, %%, and each directive of p f h H P d s n i U G m y Y l with flag (none, -) x width (none, 1, 9): 106 components. Every format of <= {all} components on every configuration (9 starting-point spellings: r ./r r/ r// r/. . ../w/r absolute link-to-dir x -P -H -L) and of <= {deep} components on all 27 configurations in thorough (quick: on one, r/ under -H), rendered by the real find over a sandbox with every entry kind (regular, setuid, hard links, empty/non-empty/sticky/setgid directories, fifo, socket, links to each, dangling, outside, at depth 0..2, owners 0/1/54321/2^31) in -sorted order, several formats per run as consecutive -printf actions; the whole output must equal, byte for byte, the independent renderer's (values from lstat()/stat()/readlink() of the selected record, padding left/right to the width, never truncated, literals verbatim, nothing appended). A mismatching batch is bisected to the format and to the component. two -fprintf and one -fprint on the SAME file (renderings follow one another per entry); -fprintf FILE FORMAT is run for every single-component format (every third FILE exists beforehand with 20 000 bytes of other content); several starting points in one run: every ordered pair (and three longer lists) of 8 spellings of different lengths x %p %f %h %H %P %d %s %m %y x the three follow modes, also under -mindepth 1 and -depth; mount-point slice: %i %n %s %m %U %y on a tree with a tmpfs mounted inside it (the directory entry of a mount point carries the covered directory's inode number); wide-field slice: every directive and flag with widths 10, 16, 100, 255, 256, 1000 (and 65535 for %d, %y) followed by a literal, on every configuration. non-trivial = format containing a directive", all = t.pick(2, 2), deep = 3),
        bound: json!({"components": 106, "max_components_all_configs": 2, "max_components_deep_configs": 3, "configs": 27}),
        assumptions: vec![
            "not judged (entries filtered out of the run by -path): %Y and %l on a link the follow mode resolves, %Y on a dangling link; %h when the part before the last component is empty ('/x') or itself ends in a slash ('r//x')".into(),
            "all sandbox modes have three or more octal digits (zero padding of %m is not specified); padded values are ASCII".into(),
            "-sorted pins the order (file-name byte order)".into(),
        ],
        shards: 0,
        wall_cap_s: t.pick(300, 3600),
    }
}

fn build(ctx: &Ctx) -> Result<String, String> {
    let w = ctx.sbx.join("w");
    let _ = crate::sandbox::force_remove(&w);
    std::fs::create_dir(&w).map_err(|e| e.to_string())?;
    crate::props::c13::build_kinds(&w)?;
    std::os::unix::fs::symlink("r", w.join("lr")).map_err(|e| e.to_string())?;
    // a sub-directory (and a file in it) named like the starting point: r/r/r
    std::fs::create_dir(w.join("r/r")).map_err(|e| e.to_string())?;
    std::fs::write(w.join("r/r/r"), b"rr").map_err(|e| e.to_string())?;
    // an entry whose path continues the text of the directory visited just before it (r/dn/x, then r/dnz)
    std::fs::write(w.join("r/dnz"), b"z").map_err(|e| e.to_string())?;
    let u = w.join("u\u{e9}");
    std::fs::create_dir(&u).map_err(|e| e.to_string())?;
    std::fs::write(u.join("\u{e9}t\u{e9}"), b"").map_err(|e| e.to_string())?;
    std::os::unix::fs::symlink("\u{e9}t\u{e9}", u.join("l\u{e9}")).map_err(|e| e.to_string())?;
    std::env::set_current_dir(&w).map_err(|e| e.to_string())?;
    Ok(w.to_string_lossy().to_string())
}

#[derive(Clone, Debug)]
struct Ent {
    path: String,
    depth: usize,
    rel: Vec<String>,
    l: St,
    sel: St,
    followed: bool,
}

fn join(p: &str, n: &str) -> String {
    if p.ends_with('/') {
        format!("{p}{n}")
    } else {
        format!("{p}/{n}")
    }
}

fn walk(root: &str, follow: char) -> Vec<Ent> {
    fn rec(path: String, depth: usize, rel: Vec<String>, follow: char, out: &mut Vec<Ent>) {
        let p = Path::new(&path);
        let Some(l) = lb::lstat(p) else { return };
        let f = match follow {
            'L' => true,
            'H' => depth == 0,
            _ => false,
        };
        let (sel, followed) = if f && l.kind() == 'l' {
            match lb::stat(p) {
                Some(s) => (s, true),
                None => (l.clone(), false),
            }
        } else {
            (l.clone(), false)
        };
        let is_dir = sel.kind() == 'd';
        out.push(Ent { path: path.clone(), depth, rel: rel.clone(), l, sel, followed });
        if is_dir {
            let mut names: Vec<String> = std::fs::read_dir(p).map(|rd| rd.flatten().map(|e| e.file_name().to_string_lossy().to_string()).collect()).unwrap_or_default();
            names.sort_by(|a, b| a.as_bytes().cmp(b.as_bytes()));
            for n in names {
                let mut r2 = rel.clone();
                r2.push(n.clone());
                rec(join(&path, &n), depth + 1, r2, follow, out);
            }
        }
    }
    let mut out = vec![];
    rec(root.to_string(), 0, vec![], follow, &mut out);
    out
}

/// The value of directive `d` for entry `e`; None = not judged (see assumptions).
fn value(d: char, e: &Ent, root: &str) -> Option<String> {
    Some(match d {
        'p' => e.path.clone(),
        'f' => {
            if e.depth == 0 {
                // last component as given: trailing slashes do not make an (empty) component,
                // a trailing "/." does (the component is ".")
                let t = root.trim_end_matches('/');
                if t.is_empty() {
                    return None; // the root directory itself
                }
                t.rsplit('/').next().unwrap().to_string()
            } else {
                e.rel.last().unwrap().clone()
            }
        }
        'h' => {
            // the part before the last component (and before the slashes separating the two)
            let t = if e.depth == 0 { root.trim_end_matches('/') } else { e.path.as_str() };
            if t.is_empty() {
                return None;
            }
            match t.rfind('/') {
                None => ".".to_string(),
                Some(i) => {
                    let pre = &t[..i];
                    // "/x" (GNU prints nothing, others "/") and "a//x" (a or a/) are not judged
                    if pre.is_empty() || pre.ends_with('/') {
                        return None;
                    }
                    pre.to_string()
                }
            }
        }
        'H' => root.to_string(),
        'P' => e.rel.join("/"),
        'd' => e.depth.to_string(),
        's' => e.sel.size.to_string(),
        'n' => e.sel.nlink.to_string(),
        'i' => e.sel.ino.to_string(),
        'U' => e.sel.uid.to_string(),
        'G' => e.sel.gid.to_string(),
        'm' => format!("{:o}", e.sel.perm()),
        'y' => e.sel.kind().to_string(),
        'Y' => {
            if e.l.kind() != 'l' {
                e.sel.kind().to_string()
            } else if e.followed {
                return None;
            } else {
                match lb::stat(Path::new(&e.path)) {
                    Some(t) => t.kind().to_string(),
                    None => return None,
                }
            }
        }
        'l' => {
            if e.sel.kind() == 'l' {
                std::fs::read_link(&e.path).ok()?.to_string_lossy().to_string()
            } else if e.l.kind() == 'l' {
                return None;
            } else {
                String::new()
            }
        }
        _ => return None,
    })
}

fn render(fmt: &[&Comp], e: &Ent, root: &str) -> Option<Vec<u8>> {
    let mut out = vec![];
    for c in fmt {
        match c {
            Comp::Lit(_, b) => out.extend_from_slice(b),
            Comp::Dir { d, left, width, .. } => {
                let v = value(*d, e, root)?;
                if width.is_some() && !v.is_ascii() {
                    return None; // padding of multi-byte values (bytes or characters) is unspecified
                }
                let w = width.unwrap_or(0);
                let pad = w.saturating_sub(v.chars().count());
                if !*left {
                    out.extend(std::iter::repeat(b' ').take(pad));
                }
                out.extend_from_slice(v.as_bytes());
                if *left {
                    out.extend(std::iter::repeat(b' ').take(pad));
                }
            }
        }
    }
    Some(out)
}

fn fmt_text(f: &[&Comp]) -> String {
    f.iter().map(|c| c.text()).collect()
}

struct Cfg<'a> {
    root: &'a str,
    follow: char,
    ents: Vec<Ent>,
}

/// Run a batch of formats; returns None if the whole output matches, else Some((expected, actual, argv)).
fn run_batch(cfg: &Cfg, fmts: &[Vec<&Comp>]) -> (Option<(Vec<u8>, crate::findrun::FindOut, Vec<String>)>, u64) {
    // entries on which some (format, entry) is not judged are excluded by exact -path tests
    let mut excluded: BTreeSet<usize> = BTreeSet::new();
    let mut rendered: Vec<Vec<Option<Vec<u8>>>> = vec![];
    for (ei, e) in cfg.ents.iter().enumerate() {
        let row: Vec<Option<Vec<u8>>> = fmts.iter().map(|f| render(f, e, cfg.root)).collect();
        if row.iter().any(|r| r.is_none()) {
            excluded.insert(ei);
        }
        rendered.push(row);
    }
    let mut argv: Vec<String> = vec![format!("-{}", cfg.follow), cfg.root.to_string(), "-sorted".into()];
    // excluded entries: by depth for the starting point, by exact path otherwise
    let mut mind = 0;
    if excluded.contains(&0) {
        mind = 1;
    }
    if mind == 1 && cfg.ents.iter().enumerate().filter(|(_, e)| e.depth == 1).all(|(i, _)| excluded.contains(&i)) {
        mind = 2;
    }
    if mind > 0 {
        argv.extend(["-mindepth".to_string(), mind.to_string()]);
    }
    let ex_paths: Vec<&Ent> = excluded.iter().map(|&i| &cfg.ents[i]).filter(|e| e.depth >= mind).collect();
    if !ex_paths.is_empty() {
        argv.extend(["!".to_string(), "(".to_string()]);
        for (k, e) in ex_paths.iter().enumerate() {
            if k > 0 {
                argv.push("-o".into());
            }
            argv.extend(["-path".to_string(), e.path.clone()]);
        }
        argv.push(")".into());
    }
    for f in fmts {
        argv.extend(["-printf".to_string(), fmt_text(f)]);
    }
    let mut expected = vec![];
    let mut judged = 0u64;
    for (ei, e) in cfg.ents.iter().enumerate() {
        if excluded.contains(&ei) || e.depth < mind {
            continue;
        }
        for r in &rendered[ei] {
            expected.extend_from_slice(r.as_ref().unwrap());
            judged += 1;
        }
    }
    let args: Vec<&str> = argv.iter().map(|s| s.as_str()).collect();
    let got = run_find(&args);
    if got.out == expected && got.code == Ok(0) {
        XCHECK.with(|x| {
            let mut x = x.borrow_mut();
            x.0 += 1;
            if x.0 % 211 == 1 {
                match crate::findrun::cross_check_bin(&args, &got) {
                    Ok(()) => x.1 += 1,
                    Err(e) => x.2.push(e),
                }
            }
        });
        (None, judged)
    } else {
        (Some((expected, got, argv)), judged)
    }
}

thread_local! {
    /// (batches seen, batches cross-validated through the binary, disagreements)
    static XCHECK: std::cell::RefCell<(u64, u64, Vec<String>)> = const { std::cell::RefCell::new((0, 0, Vec::new())) };
}

fn show(b: &[u8]) -> String {
    let s: String = b.iter().map(|&c| if (0x20..0x7f).contains(&c) && c != b'\\' { (c as char).to_string() } else { format!("\\x{c:02x}") }).collect();
    if s.len() > 400 {
        format!("{}...", &s[..400])
    } else {
        s
    }
}

fn root_class(root: &str) -> &'static str {
    if root.starts_with('/') {
        "absolute"
    } else if root.ends_with('/') || root.ends_with("/.") {
        "ends in / or /."
    } else if root == "." {
        "."
    } else if root == "lr" {
        "link to directory"
    } else {
        "plain"
    }
}

/// Pinpoint and report a failing batch.
fn report(ctx: &mut Ctx, cfg: &Cfg, fmts: &[Vec<&Comp>]) {
    for f in fmts {
        let (bad, _) = run_batch(cfg, std::slice::from_ref(f));
        let Some((exp, got, argv)) = bad else { continue };
        // which component? try each component alone
        let mut culprit: Option<String> = None;
        for c in f.iter() {
            if let (Some(_), _) = run_batch(cfg, &[vec![*c]]) {
                culprit = Some(match c {
                    Comp::Lit(t, _) => format!("literal/escape {t}"),
                    Comp::Dir { d, left, width, .. } => format!("%{d}{}", if width.is_some() { if *left { " with width and '-' flag" } else { " with width" } } else if *left { " with '-' flag" } else { "" }),
                });
                break;
            }
        }
        let what = culprit.unwrap_or_else(|| "combination of components each right alone".to_string());
        let kind = if got.panicked() {
            "panic"
        } else if got.code != Ok(0) {
            "non-zero status"
        } else {
            "output differs"
        };
        ctx.rep.violation(
            &format!("C16 {kind}: {what} [-{} starting point {}]", cfg.follow, root_class(cfg.root)),
            format!("find {:?}\nexpected {}\nactual   {}\nstatus {:?} stderr {}", argv, show(&exp), show(&got.out), got.code, show(&got.err)),
            json!({"prop":"C16","root":if cfg.root.starts_with('/') { "<abs>/w/r" } else { cfg.root },"follow":cfg.follow.to_string(),"format":f.iter().map(|c| c.text()).collect::<Vec<_>>()}),
        );
    }
}

fn formats_upto<'a>(comps: &'a [Comp], n: usize) -> Vec<Vec<&'a Comp>> {
    let mut out: Vec<Vec<&Comp>> = vec![];
    let mut cur: Vec<Vec<&Comp>> = vec![vec![]];
    for _ in 0..n {
        let mut next = vec![];
        for f in &cur {
            for c in comps {
                let mut g = f.clone();
                g.push(c);
                next.push(g);
            }
        }
        out.extend(next.iter().cloned());
        cur = next;
    }
    out
}

fn run(ctx: &mut Ctx) {
    let w = match build(ctx) {
        Ok(w) => w,
        Err(e) => {
            ctx.rep.machinery(format!("sandbox: {e}"));
            return;
        }
    };
    let comps = components();
    let all2 = formats_upto(&comps, 2);
    let rts = roots(&w);
    let mut job = 0u64;
    let deep_cfgs: Vec<(usize, char)> = vec![(0, 'P'), (1, 'L'), (2, 'H'), (8, 'L')];
    for (ri, root) in rts.iter().enumerate() {
        for follow in ['P', 'H', 'L'] {
            let cfg = Cfg { root, follow, ents: walk(root, follow) };
            if cfg.ents.is_empty() {
                ctx.rep.machinery(format!("reference walk of {root} is empty"));
                continue;
            }
            let _ = &deep_cfgs;
            let deep = if ctx.tier == Tier::Thorough { true } else { (ri, follow) == (2, 'H') };
            let f3;
            let fmts: &Vec<Vec<&Comp>> = if deep {
                f3 = formats_upto(&comps, 3);
                &f3
            } else {
                &all2
            };
            for batch in fmts.chunks(48) {
                job += 1;
                if !ctx.mine(job) {
                    continue;
                }
                ctx.progress(job);
                let (bad, judged) = run_batch(&cfg, batch);
                ctx.rep.evaluations += judged;
                for f in batch {
                    if f.iter().any(|c| matches!(c, Comp::Dir { .. })) {
                        ctx.rep.nontrivial += 1;
                    }
                }
                ctx.rep.count("formats_x_configs", batch.len() as u64);
                ctx.rep.class(&format!("-{follow} {} ok={}", root_class(root), bad.is_none()));
                if bad.is_some() {
                    ctx.progress_note(&format!("report {root} {follow}"));
                    report(ctx, &cfg, batch);
                }
                if job % 997 == 3 || ctx.rep.samples.is_empty() {
                    ctx.rep.sample(json!({"find": [format!("-{follow}"), root, "-sorted"], "formats": batch.iter().take(6).map(|f| fmt_text(f)).collect::<Vec<_>>(), "entries": cfg.ents.iter().take(8).map(|e| e.path.clone()).collect::<Vec<_>>()}));
                }
            }
            // -fprintf: single-component formats, one file per format
            job += 1;
            if ctx.mine(job) {
                fprintf_slice(ctx, &cfg, &comps);
            }
            // wide fields: every directive with widths far beyond the values' lengths
            job += 1;
            if ctx.mine(job) {
                let wide = wide_components();
                let fmts: Vec<Vec<&Comp>> = wide.iter().map(|c| vec![c, &comps[0]]).collect();
                for batch in fmts.chunks(16) {
                    let (bad, judged) = run_batch(&cfg, batch);
                    ctx.rep.evaluations += judged;
                    ctx.rep.nontrivial += batch.len() as u64;
                    ctx.rep.count("wide_field_formats_x_configs", batch.len() as u64);
                    if bad.is_some() {
                        report(ctx, &cfg, batch);
                    }
                }
            }
        }
    }
    // a mount point inside the walk: %i (and the other status fields) come from the status record,
    // not from the directory entry
    job += 1;
    if ctx.mine(job) {
        mount_point_slice(ctx);
        let _ = std::env::set_current_dir(&w);
    }
    job += 1;
    if ctx.mine(job) {
        multi_root_slice(ctx, &comps);
    }
    job += 1;
    if ctx.mine(job) {
        low_descriptor_slice(ctx);
        let _ = std::env::set_current_dir(&w);
    }
    // verbatim copying of a multi-byte file name (no widths: char/byte padding is unspecified)
    job += 1;
    if ctx.mine(job) {
        unicode_slice(ctx, &comps);
    }
    let _ = std::env::set_current_dir(&ctx.sbx);
    XCHECK.with(|x| {
        let x = x.borrow();
        ctx.rep.traces_validated += x.1;
        for e in x.2.iter().take(3) {
            ctx.rep.machinery(e.clone());
        }
    });
}

/// Pre-order list (with depths) to the order of a -depth walk.
fn post_order(ents: Vec<Ent>) -> Vec<Ent> {
    let mut out = vec![];
    let mut stack: Vec<Ent> = vec![];
    for e in ents {
        while stack.last().is_some_and(|t| t.depth >= e.depth) {
            out.push(stack.pop().unwrap());
        }
        stack.push(e);
    }
    while let Some(t) = stack.pop() {
        out.push(t);
    }
    out
}

/// Several starting points in one run (state kept from one starting point to the next: %P and %H are
/// relative to the starting point the entry was found under, %d restarts at 0): every ordered pair
/// and a few triples of spellings of different lengths, every plain directive that is judged on all
/// entries, all three follow modes.
fn multi_root_slice(ctx: &mut Ctx, comps: &[Comp]) {
    let spellings: Vec<String> = vec!["r".into(), "./r".into(), "r/".into(), "u\u{e9}".into(), "u\u{e9}/\u{e9}t\u{e9}".into(), "lr".into(), "../w/r/dn".into(), "r/dn/".into()];
    let mut lists: Vec<Vec<&String>> = vec![];
    for a in &spellings {
        for b in &spellings {
            lists.push(vec![a, b]);
        }
    }
    lists.push(vec![&spellings[6], &spellings[0], &spellings[3]]);
    lists.push(vec![&spellings[3], &spellings[6], &spellings[4], &spellings[0]]);
    lists.push(vec![&spellings[4], &spellings[4], &spellings[1]]);
    let plain: Vec<&Comp> = comps.iter().filter(|c| matches!(c, Comp::Dir { d, left: false, width: None, .. } if "pfhHPdsmy".contains(*d))).collect();
    let nl = comps.iter().find(|c| matches!(c, Comp::Lit(t, _) if *t == "\\n")).expect("newline component");
    for (follow, variant) in [('P', ""), ('H', ""), ('L', ""), ('P', "-mindepth"), ('L', "-depth"), ('H', "-mindepth")] {
        for list in &lists {
            let cfgs: Vec<Cfg> = list
                .iter()
                .map(|r| {
                    let mut ents = walk(r, follow);
                    if variant == "-mindepth" {
                        ents.retain(|e| e.depth >= 1);
                    }
                    if variant == "-depth" {
                        ents = post_order(ents);
                    }
                    Cfg { root: r.as_str(), follow, ents }
                })
                .collect();
            if variant.is_empty() && cfgs.iter().any(|c| c.ents.is_empty()) {
                ctx.rep.machinery(format!("reference walk of one of {list:?} is empty"));
                continue;
            }
            let fmts: Vec<Vec<&Comp>> = plain.iter().map(|c| vec![*c, nl]).collect();
            let run = |fmts: &[Vec<&Comp>]| -> Option<(Vec<u8>, crate::findrun::FindOut, Vec<String>, u64)> {
                let mut expected = vec![];
                let mut judged = 0u64;
                for cfg in &cfgs {
                    for e in &cfg.ents {
                        for f in fmts {
                            expected.extend_from_slice(&render(f, e, cfg.root)?);
                            judged += 1;
                        }
                    }
                }
                let mut argv: Vec<String> = vec![format!("-{follow}")];
                argv.extend(list.iter().map(|r| r.to_string()));
                argv.push("-sorted".into());
                match variant {
                    "-mindepth" => argv.extend(["-mindepth".to_string(), "1".to_string()]),
                    "-depth" => argv.push("-depth".into()),
                    _ => {}
                }
                for f in fmts {
                    argv.extend(["-printf".to_string(), fmt_text(f)]);
                }
                let args: Vec<&str> = argv.iter().map(|s| s.as_str()).collect();
                let got = run_find(&args);
                if got.out == expected && got.code == Ok(0) {
                    Some((vec![], got, vec![], judged))
                } else {
                    Some((expected, got, argv, 0))
                }
            };
            // formats that are not judged on some entry of these starting points are left out
            let fmts: Vec<Vec<&Comp>> = fmts.into_iter().filter(|f| cfgs.iter().all(|c| c.ents.iter().all(|e| render(f, e, c.root).is_some()))).collect();
            ctx.rep.count("multi_root_runs", 1);
            let Some((_, _, argv, judged)) = run(&fmts) else { continue };
            ctx.rep.evaluations += judged;
            ctx.rep.nontrivial += fmts.len() as u64;
            if argv.is_empty() {
                continue;
            }
            for f in &fmts {
                let Some((exp, got, argv, _)) = run(std::slice::from_ref(f)) else { continue };
                if argv.is_empty() {
                    continue;
                }
                let kind = if got.panicked() { "panic" } else if got.code != Ok(0) { "non-zero status" } else { "output differs" };
                ctx.rep.violation(
                    &format!("C16 {kind}: {} with several starting points [-{follow}{}{variant}]", f[0].text(), if variant.is_empty() { "" } else { " " }),
                    format!("find {:?}\nexpected {}\nactual   {}\nstatus {:?} stderr {}", argv, show(&exp), show(&got.out), got.code, show(&got.err)),
                    json!({"prop":"C16","multi_root":list,"variant":variant,"follow":follow.to_string(),"format":f.iter().map(|c| c.text()).collect::<Vec<_>>()}),
                );
            }
        }
    }
}

/// 150 directories with 64 file descriptors (see props/lowfd.rs): -printf renders the 451st record like the first.
fn low_descriptor_slice(ctx: &mut Ctx) {
    use crate::props::lowfd;
    let _ = lowfd::build(ctx);
    let cases: Vec<(Vec<&str>, usize)> = vec![(vec!["lf", "-printf", "%d %y %f %h %P\\n"], 451), (vec!["lf", "-name", "l", "-printf", "%l %Y\\n"], 150), (vec!["-L", "lf", "-printf", "%n %s %i\\n"], 451), (vec!["lf", "-name", "f", "-fprintf", "/dev/stdout", "%p\\n"], 150)];
    for (args, want) in cases {
        let o = lowfd::find(ctx, &args, 64, vec![]);
        ctx.rep.evaluations += 1;
        ctx.rep.nontrivial += 1;
        ctx.rep.count("low_descriptor_limit_cases", 1);
        let got = lowfd::lines(&o.out).len();
        if o.died() || o.code != Some(0) || got != want {
            ctx.rep.violation(
                "C16 over 150 directories with 64 file descriptors: the later entries are not handled like the first",
                format!("find {:?} under RLIMIT_NOFILE=64: {got} lines, expected {want}; status {:?}; stderr {:?}", args, o.code, String::from_utf8_lossy(&o.err).lines().take(2).collect::<Vec<_>>()),
                json!({"prop":"C16","low_descriptor":true}),
            );
        }
    }
    lowfd::remove(ctx);
}

fn mount_point_slice(ctx: &mut Ctx) {
    use std::ffi::CString;
    let base = ctx.sbx.join("mp");
    let _ = crate::sandbox::force_remove(&base);
    std::fs::create_dir_all(base.join("r/mnt")).unwrap();
    std::fs::write(base.join("r/plain"), b"abc").unwrap();
    let target = CString::new(base.join("r/mnt").to_string_lossy().as_bytes()).unwrap();
    let (src, fst) = (CString::new("none").unwrap(), CString::new("tmpfs").unwrap());
    if unsafe { libc::mount(src.as_ptr(), target.as_ptr(), fst.as_ptr(), 0, std::ptr::null()) } != 0 {
        ctx.rep.count("mount_point_slice_skipped_(mount_not_permitted)", 1);
        return;
    }
    struct Unmount(CString);
    impl Drop for Unmount {
        fn drop(&mut self) {
            unsafe { libc::umount2(self.0.as_ptr(), libc::MNT_DETACH) };
        }
    }
    let _guard = Unmount(target);
    std::fs::write(base.join("r/mnt/x"), b"").unwrap();
    std::env::set_current_dir(&base).unwrap();
    for follow in ["-P", "-L"] {
        let got = run_find(&[follow, "r", "-sorted", "-printf", "%i %n %s %m %U %y %p\\n"]);
        let mut want = String::new();
        for (p, _) in lb::list_tree("r") {
            let st = lb::lstat(Path::new(&p)).unwrap();
            want.push_str(&format!("{} {} {} {:o} {} {} {}\n", st.ino, st.nlink, st.size, st.perm(), st.uid, st.kind(), p));
        }
        ctx.rep.evaluations += 1;
        ctx.rep.nontrivial += 1;
        ctx.rep.count("mount_point_runs", 1);
        if got.out != want.as_bytes() || got.code != Ok(0) {
            ctx.rep.violation(
                "C16 output differs: status fields of a mount point (or below it) are not those of the status record",
                format!("find {follow} r -sorted -printf '%i %n %s %m %U %y %p\\n' with a tmpfs mounted on r/mnt\n expected {want:?}\n actual   {:?} status {:?}", String::from_utf8_lossy(&got.out), got.code),
                json!({"prop":"C16","mount":true}),
            );
        }
    }
    let _ = std::env::set_current_dir(&ctx.sbx);
}

fn fprintf_slice(ctx: &mut Ctx, cfg: &Cfg, comps: &[Comp]) {
    let outdir = ctx.sbx.join("fp");
    let _ = crate::sandbox::force_remove(&outdir);
    std::fs::create_dir(&outdir).unwrap();
    // two (three) actions writing to the SAME file: each entry's renderings follow one another, none
    // overwrites another's
    {
        let file = outdir.join("shared").to_string_lossy().to_string();
        let _ = std::fs::write(&file, vec![b'Z'; 3000]);
        let argv = [format!("-{}", cfg.follow), cfg.root.to_string(), "-sorted".into(), "-fprintf".into(), file.clone(), "A:%p\\n".into(), "-fprintf".into(), file.clone(), "B:%d\\n".into(), "-fprint".into(), file.clone()];
        let args: Vec<&str> = argv.iter().map(|s| s.as_str()).collect();
        let got = run_find(&args);
        let content = std::fs::read(&file).unwrap_or_default();
        let expected: Vec<u8> = cfg.ents.iter().flat_map(|e| format!("A:{}\nB:{}\n{}\n", e.path, e.depth, e.path).into_bytes()).collect();
        ctx.rep.evaluations += cfg.ents.len() as u64;
        ctx.rep.count("fprintf_shared_file_runs", 1);
        if content != expected || got.code != Ok(0) {
            ctx.rep.violation(
                &format!("C16 several -fprintf/-fprint actions on the same file overwrite one another [-{} starting point {}]", cfg.follow, root_class(cfg.root)),
                format!("find {:?}\nexpected file {}\nactual file   {}\nstatus {:?}", argv, show(&expected), show(&content), got.code),
                json!({"prop":"C16","root":if cfg.root.starts_with('/') { "<abs>/w/r" } else { cfg.root },"follow":cfg.follow.to_string(),"shared_file":true}),
            );
        }
    }
    let single: Vec<Vec<&Comp>> = comps.iter().map(|c| vec![c, &comps[0]]).collect();
    for (k, f) in single.iter().enumerate() {
        if cfg.ents.iter().any(|e| render(f, e, cfg.root).is_none()) {
            continue;
        }
        let file = outdir.join(format!("o{k}")).to_string_lossy().to_string();
        let ft = fmt_text(f);
        // every third output file exists already and is longer than what will be written:
        // "nothing is appended" also means that nothing of the old content is left
        if k % 3 == 0 {
            let _ = std::fs::write(&file, vec![b'Z'; 20_000]);
        }
        let argv = [format!("-{}", cfg.follow), cfg.root.to_string(), "-sorted".into(), "-fprintf".into(), file.clone(), ft.clone()];
        let args: Vec<&str> = argv.iter().map(|s| s.as_str()).collect();
        let got = run_find(&args);
        let content = std::fs::read(&file).unwrap_or_default();
        let expected: Vec<u8> = cfg.ents.iter().flat_map(|e| render(f, e, cfg.root).unwrap()).collect();
        ctx.rep.evaluations += cfg.ents.len() as u64;
        ctx.rep.count("fprintf_runs", 1);
        if content != expected || !got.out.is_empty() || got.code != Ok(0) {
            ctx.rep.violation(
                &format!("C16 -fprintf file content differs from the rendering [-{} starting point {}]", cfg.follow, root_class(cfg.root)),
                format!("find {:?}\nexpected file {}\nactual file   {}\nstdout {} status {:?}", argv, show(&expected), show(&content), show(&got.out), got.code),
                json!({"prop":"C16","root":if cfg.root.starts_with('/') { "<abs>/w/r" } else { cfg.root },"follow":cfg.follow.to_string(),"format":[ft],"fprintf":true}),
            );
        }
    }
}

fn unicode_slice(ctx: &mut Ctx, comps: &[Comp]) {
    let root = "u\u{e9}";
    let cfg = Cfg { root, follow: 'P', ents: walk(root, 'P') };
    let nowidth: Vec<&Comp> = comps.iter().filter(|c| !matches!(c, Comp::Dir { width: Some(_), .. })).collect();
    let mut fmts: Vec<Vec<&Comp>> = vec![];
    for a in &nowidth {
        for b in &nowidth {
            fmts.push(vec![*a, *b]);
        }
    }
    for batch in fmts.chunks(48) {
        let (bad, judged) = run_batch(&cfg, batch);
        ctx.rep.evaluations += judged;
        ctx.rep.count("multibyte_name_formats", batch.len() as u64);
        if bad.is_some() {
            report(ctx, &cfg, batch);
        }
    }
}

fn replay(case: &Value, ctx: &mut Ctx) -> Option<String> {
    if case["shared_file"] == true {
        let w = build(ctx).ok()?;
        let root = case["root"].as_str()?.replace("<abs>/w", &w);
        let follow = case["follow"].as_str()?.chars().next()?;
        let cfg = Cfg { root: &root, follow, ents: walk(&root, follow) };
        fprintf_slice(ctx, &cfg, &components()[..1]);
        return ctx.rep.violations.keys().next().cloned();
    }
    if case["mount"] == true {
        mount_point_slice(ctx);
        return ctx.rep.violations.keys().next().cloned();
    }
    let w = build(ctx).ok()?;
    let comps = components();
    let root = case["root"].as_str()?.replace("<abs>/w", &w);
    let follow = case["follow"].as_str()?.chars().next()?;
    let f: Vec<&Comp> = case["format"].as_array()?.iter().filter_map(|t| comps.iter().find(|c| Some(c.text()) == t.as_str())).collect();
    let cfg = Cfg { root: &root, follow, ents: walk(&root, follow) };
    if case["fprintf"].as_bool().unwrap_or(false) {
        fprintf_slice(ctx, &cfg, &comps);
    } else {
        report(ctx, &cfg, &[f]);
    }
    let _ = std::env::set_current_dir(&ctx.sbx);
    ctx.rep.violations.keys().next().cloned()
}
