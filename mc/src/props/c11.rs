//! C11 rejection and no panic — the complement of the expression grammar, per-operand
//! short-string sweeps with reference validity predicates, and "no panic anywhere".

use super::exprspace::*;
use crate::engine::{Ctx, Prop, Spec, Tier};
use crate::findrun::{run_find, FindOut};
use crate::model::expr::{self, Tok, ALPHABET16};
use crate::model::tree::{Fs, K};
use serde_json::{json, Value};
use std::path::Path;

pub const PROP: Prop = Prop {
    id: "C11",
    spec,
    run,
    replay,
};

fn glen(t: Tier) -> usize {
    t.pick(5, 6)
}

fn spec(t: Tier) -> Spec {
    Spec {
        id: "C11",
        level: "exploration",
        rule: format!("(1) every token sequence of length <= {} over the 16-token alphabet (and over a variant with -delete) that the reference grammar REJECTS must be rejected by find_main: non-zero status, a diagnostic, empty stdout, tree untouched — sequences one token below the bound also with their operators spelled as words (-not, -and, -or: all of them, and each kind alone); (2) for each operand-taking primary every string of <= k symbols over a per-primary alphabet is given as operand; where the reference validity predicate says 'definitely invalid' the vector must be rejected the same way; (2b) names that are not valid UTF-8 (lone continuation byte first, 0xff last, truncated sequences, a directory and a link target of such bytes) under -print/-print0/-ls/-printf with every directive (plain, width 5, -5, 40)/-name/-iname/-path/-ipath/-regex/-iregex/-lname/-exec/-execdir/-empty/-size/-newer/-samefile, -P and -L: no panic; (2c) through the binary: a malformed expression after an action whose file is find's own standard error or output (/dev/stderr, /dev/fd/2, /dev/stdout): still rejected with a diagnostic on standard error; (3) every vector of (1),(2), every primary with its operand missing, every primary evaluated on an entry already removed by -delete, and -ls/-printf on entries owned by ids without passwd/group entries run under catch_unwind and must not panic; binary slice: vectors <= 3 tokens and a non-UTF-8 argument through the hooks-off binary (exit 101/134/signal = panic/abort; 10 s = hang). unwritable-output slice through the binary: -print, -print0, -printf (with and without a newline, with \\c), -ls with standard output = /dev/full / a pipe whose reader has gone, and -fprint, -fprint0, -fprintf writing to /dev/full — no panic, a non-zero ordinary status (or SIGPIPE), ENOSPC diagnosed; unwritable-standard-error slice: twelve commands that produce diagnostics (missing starting point, commands that cannot be started, a failing -delete, parse errors, per-file errors) with 2>/dev/full — no panic, the usual exit status; time-zone vectors: -newermt/-newerat/-newerct with wall-clock times inside a spring-forward gap or a fall-back overlap under five TZ rules, plus the %t/%T directives — no panic; scale vectors through the binary: N nested (negated) parentheses, right-nested -o / comma groups, N '!' in a row, chains of N terms, N starting points, operands of N bytes for -name/-regex/-printf/-path, N in 100, 1000, 3000, 10^4, 3x10^4, 10^5 — must end with an ordinary exit status (0, or non-zero with a diagnostic); non-trivial = vector the reference classifies as invalid", glen(t)),
        bound: json!({"grammar_len": glen(t), "operand_sweeps": sweeps(t).iter().map(|s| json!({"primary": s.primary, "alphabet": s.alphabet, "maxlen": s.maxlen})).collect::<Vec<_>>()}),
        assumptions: vec![
            "operands whose validity is debatable (valid in GNU but unsupported here, GNU-specific leniency) are executed for no-panic only".into(),
            "parenthesis nesting deep enough to exhaust the stack is outside the bound".into(),
        ],
        shards: 0,
        wall_cap_s: t.pick(300, 3600),
    }
}

// ---------------------------------------------------------------------------------------
// shared judgement
// ---------------------------------------------------------------------------------------

fn ploc(p: &str) -> String {
    // "src/find/matchers/glob.rs:87: message" -> file:line
    let mut it = p.split(':');
    let f = it.next().unwrap_or("");
    let l = it.next().unwrap_or("");
    let f = f.rsplit("/src/").next().unwrap_or(f);
    format!("{f}:{l}")
}

/// A vector that must be rejected. Returns (signature-suffix, detail) when it was not.
fn not_rejected(got: &FindOut) -> Option<(&'static str, String)> {
    if got.code == Ok(0) {
        return Some(("accepted (exit status 0)", got.brief()));
    }
    if !got.out.is_empty() {
        return Some(("produced output before being rejected", got.brief()));
    }
    if got.err.is_empty() {
        return Some(("rejected without a diagnostic", got.brief()));
    }
    None
}

fn tree_intact(sbx: &Path) -> bool {
    ["r/x", "r/xy", "r/y", "r/z", "r/d/xy", "e/xy"]
        .iter()
        .all(|p| std::fs::symlink_metadata(sbx.join(p)).is_ok())
}

// ---------------------------------------------------------------------------------------
// (1) grammar complement
// ---------------------------------------------------------------------------------------

fn grammar(ctx: &mut Ctx, alphabet: &[Tok], maxlen: usize, tag: &str, global: &mut u64) {
    let sbx = ctx.sbx.clone();
    let mut seq: Vec<Tok> = vec![];
    for len in 1..=maxlen {
        let total = (alphabet.len() as u64).pow(len as u32);
        for idx in 0..total {
            *global += 1;
            if !ctx.mine(*global) {
                continue;
            }
            decode(idx, len, alphabet, &mut seq);
            if expr::parse(&seq).is_some() {
                continue;
            }
            // POSIX operand scanning: words before the first one that starts with '-' or is
            // '!' or '(' are starting points, so a leading ',' or ')' is a file name here.
            if matches!(seq[0], Tok::Comma | Tok::RP) {
                ctx.rep.count("set_aside_leading_comma_or_rparen", 1);
                continue;
            }
            ctx.rep.evaluations += 1;
            ctx.rep.nontrivial += 1;
            ctx.rep.count(&format!("invalid_sequences_{tag}"), 1);
            ctx.progress(*global);
            let mut args = vec!["r"];
            args.extend(expr::argv(&seq));
            let got = run_find(&args);
            if ctx.rep.evaluations % 200_000 == 5 {
                ctx.rep.sample(json!({"argv": args, "must": "be rejected", "status": got.status(), "stderr": String::from_utf8_lossy(&got.err)}));
            }
            if let Err(p) = &got.code {
                ctx.rep.violation(&format!("C11 panic at {}", ploc(p)), format!("find {:?}: {p}", args), json!({"prop":"C11","argv":args}));
                continue;
            }
            ctx.rep.class(&format!("grammar status={}", got.status()));
            if let Some((why, detail)) = not_rejected(&got) {
                let sig = format!("C11 malformed expression {why}: {}", bad_pair(&seq));
                ctx.rep.violation(&sig, format!("find {:?}\n{detail}", args), json!({"prop":"C11","argv":args,"must_reject":true}));
            }
            // the same malformed sentence with its operators spelled as words: all of them, and each kind
            // alone (-not for !, -and for -a, -or for -o), for sentences one token below the bound
            if len < maxlen && seq.iter().any(|t| matches!(t, Tok::Not | Tok::And | Tok::Or)) {
                for which in 0..4usize {
                    let respelled: Vec<Tok> = seq
                        .iter()
                        .map(|t| match t {
                            Tok::Not if which == 0 || which == 1 => Tok::NotWord,
                            Tok::And if which == 0 || which == 2 => Tok::AndWord,
                            Tok::Or if which == 0 || which == 3 => Tok::OrWord,
                            t => *t,
                        })
                        .collect();
                    if respelled == seq {
                        continue;
                    }
                    let mut args = vec!["r"];
                    args.extend(expr::argv(&respelled));
                    let got = run_find(&args);
                    ctx.rep.evaluations += 1;
                    ctx.rep.nontrivial += 1;
                    ctx.rep.count(&format!("invalid_sequences_{tag}_operators_as_words"), 1);
                    if let Err(p) = &got.code {
                        ctx.rep.violation(&format!("C11 panic at {}", ploc(p)), format!("find {:?}: {p}", args), json!({"prop":"C11","argv":args}));
                        continue;
                    }
                    if let Some((why, detail)) = not_rejected(&got) {
                        let sig = format!("C11 malformed expression {why} when operators are spelled as words: {}", bad_pair(&respelled));
                        ctx.rep.violation(&sig, format!("find {:?}\n{detail}", args), json!({"prop":"C11","argv":args,"must_reject":true}));
                    }
                }
            }
            if tag == "delete" && !tree_intact(&sbx) {
                ctx.rep.violation(
                    "C11 malformed expression with -delete removed files",
                    format!("find {:?}", args),
                    json!({"prop":"C11","argv":args,"must_reject":true}),
                );
                build_c01(&sbx);
            }
        }
    }
}

/// Name the first place where the automaton dies: the offending adjacent pair (or position).
fn bad_pair(seq: &[Tok]) -> String {
    let mut a = Auto::start();
    let mut prev = "START";
    for t in seq {
        match a.step(*t) {
            Some(n) => a = n,
            None => return format!("'{}' directly after '{}'", t.words()[0], prev),
        }
        prev = t.words()[0];
    }
    if a.depth > 0 {
        "unclosed '('".into()
    } else {
        format!("expression ends after '{}'", prev)
    }
}

// ---------------------------------------------------------------------------------------
// (2) operand sweeps
// ---------------------------------------------------------------------------------------

pub struct Sweep {
    pub primary: &'static str,
    /// words placed before the primary (e.g. -regextype T)
    pub prefix: Vec<&'static str>,
    pub alphabet: Vec<&'static str>,
    pub maxlen: usize,
    pub extra: Vec<&'static str>,
    /// Some(reason) = definitely invalid, must be rejected
    pub invalid: fn(&str) -> Option<&'static str>,
}

fn never(_: &str) -> Option<&'static str> {
    None
}

fn printf_invalid(s: &str) -> Option<&'static str> {
    // only the uncontroversial cases: the format ends inside a directive
    let b: Vec<char> = s.chars().collect();
    let mut i = 0;
    while i < b.len() {
        match b[i] {
            '\\' => {
                i += 2; // escape + whatever follows (validity of the escape itself is not judged)
            }
            '%' => {
                i += 1;
                while i < b.len() && matches!(b[i], '-' | ' ') {
                    i += 1;
                }
                while i < b.len() && b[i].is_ascii_digit() {
                    i += 1;
                }
                if i >= b.len() {
                    return Some("format ends inside a % directive");
                }
                if matches!(b[i], 'A' | 'C' | 'T') {
                    if i + 1 >= b.len() {
                        return Some("%A/%C/%T without a time specifier");
                    }
                    i += 1;
                }
                i += 1;
            }
            _ => i += 1,
        }
    }
    None
}

fn size_invalid(s: &str) -> Option<&'static str> {
    let t = s.strip_prefix(['+', '-']).unwrap_or(s);
    let digits: String = t.chars().take_while(|c| c.is_ascii_digit()).collect();
    if digits.is_empty() {
        return Some("no number where one is required");
    }
    if digits.len() > 19 {
        return None; // overflow handling is not judged
    }
    let rest = &t[digits.len()..];
    if matches!(rest, "" | "b" | "c" | "w" | "k" | "M" | "G") {
        None
    } else {
        Some("junk after the number / unknown unit")
    }
}

fn number_invalid(s: &str) -> Option<&'static str> {
    let t = s.strip_prefix(['+', '-']).unwrap_or(s);
    if t.is_empty() || !t.chars().all(|c| c.is_ascii_digit()) {
        return Some("not [+-]digits");
    }
    None
}

fn type_invalid(s: &str) -> Option<&'static str> {
    if s.is_empty() {
        return Some("empty type");
    }
    // GNU accepts comma lists of letters; unsupported here, so only judge what no find accepts
    let mut seen = vec![];
    for part in s.split(',') {
        let mut cs = part.chars();
        match (cs.next(), cs.next()) {
            (Some(c), None) if "bcdpflsD".contains(c) => {
                if seen.contains(&c) {
                    return Some("duplicate type letter");
                }
                seen.push(c);
            }
            _ => return Some("not a type letter (or letters not separated by commas)"),
        }
    }
    None
}

fn perm_invalid(s: &str) -> Option<&'static str> {
    let t = s.strip_prefix(['-', '/']).unwrap_or(s);
    if t.is_empty() {
        return Some("empty mode");
    }
    // (the historical "+OCTAL" spelling is gone from GNU find: "+7" is digits mixed with an operator;
    // "+r" is an ordinary who-less symbolic clause)
    if t.chars().any(|c| c.is_ascii_digit()) {
        if !t.chars().all(|c| c.is_ascii_digit()) {
            return Some("digits mixed with symbolic mode characters");
        }
        if t.chars().any(|c| c > '7') {
            return Some("non-octal digit");
        }
        if t.trim_start_matches('0').len() > 4 {
            return Some("octal mode above 07777");
        }
        return None;
    }
    if t.chars().any(|c| !"ugoa+-=rwxXst,".contains(c)) {
        return Some("character outside the symbolic mode alphabet");
    }
    for clause in t.split(',') {
        let who: String = clause.chars().take_while(|c| "ugoa".contains(*c)).collect();
        let rest = &clause[who.len()..];
        if rest.is_empty() {
            return Some("symbolic clause without an operator");
        }
        if !rest.starts_with(['+', '-', '=']) {
            return Some("symbolic clause without an operator");
        }
        // after an operator: permission letters, or a single copy letter u/g/o; further operators allowed
        let mut chars = rest.chars().peekable();
        while let Some(c) = chars.next() {
            if "+-=".contains(c) {
                continue;
            }
            if "rwxXst".contains(c) || "ugo".contains(c) {
                continue;
            }
            return Some("'a' in the permission part of a symbolic clause");
        }
    }
    None
}

fn regextype_invalid(s: &str) -> Option<&'static str> {
    const GNU: [&str; 12] = [
        "findutils-default", "ed", "emacs", "gnu-awk", "grep", "posix-awk", "awk", "posix-basic",
        "posix-egrep", "egrep", "posix-extended", "posix-minimal-basic",
    ];
    if GNU.contains(&s) || s == "sed" {
        None
    } else {
        Some("not a regular-expression syntax name")
    }
}

/// -regex under -regextype posix-extended: unbalanced '(' or unterminated '['
fn ere_invalid(s: &str) -> Option<&'static str> {
    let b: Vec<char> = s.chars().collect();
    let mut depth = 0i32;
    let mut i = 0;
    while i < b.len() {
        match b[i] {
            '\\' => {
                if i + 1 >= b.len() {
                    return Some("trailing backslash");
                }
                i += 2;
                continue;
            }
            '[' => {
                // find the terminating ]
                let mut j = i + 1;
                if j < b.len() && b[j] == '^' {
                    j += 1;
                }
                if j < b.len() && b[j] == ']' {
                    j += 1;
                }
                while j < b.len() && b[j] != ']' {
                    if b[j] == '[' && j + 1 < b.len() && matches!(b[j + 1], ':' | '.' | '=') {
                        return None; // classes: not judged
                    }
                    j += 1;
                }
                if j >= b.len() {
                    return Some("unterminated bracket expression");
                }
                i = j + 1;
                continue;
            }
            '(' => depth += 1,
            ')' => {
                // a lone ')' is a literal in POSIX ERE (onig rejects it, GNU accepts it): it is
                // passed over; only what follows can still make the pattern invalid
                if depth > 0 {
                    depth -= 1;
                }
            }
            _ => {}
        }
        i += 1;
    }
    if depth > 0 {
        Some("unclosed group")
    } else {
        None
    }
}

/// The syntaxes that write groups as \( \): an unclosed \( or a \) that closes nothing is an error
/// in every one of them (GNU regex: "Unmatched ( or \(" / "Unmatched ) or \)").
fn bre_invalid(s: &str) -> Option<&'static str> {
    let b: Vec<char> = s.chars().collect();
    let mut depth = 0i32;
    let mut i = 0;
    while i < b.len() {
        match b[i] {
            '\\' => {
                if i + 1 >= b.len() {
                    return Some("trailing backslash");
                }
                match b[i + 1] {
                    '(' => depth += 1,
                    ')' => {
                        if depth == 0 {
                            return Some("\\) without an open group");
                        }
                        depth -= 1;
                    }
                    _ => {}
                }
                i += 2;
                continue;
            }
            '[' => {
                let mut j = i + 1;
                if j < b.len() && b[j] == '^' {
                    j += 1;
                }
                if j < b.len() && b[j] == ']' {
                    j += 1;
                }
                while j < b.len() && b[j] != ']' {
                    if b[j] == '[' && j + 1 < b.len() && matches!(b[j + 1], ':' | '.' | '=') {
                        return None; // classes: not judged
                    }
                    j += 1;
                }
                if j >= b.len() {
                    return Some("unterminated bracket expression");
                }
                i = j + 1;
                continue;
            }
            _ => {}
        }
        i += 1;
    }
    if depth > 0 {
        Some("unclosed \\( group")
    } else {
        None
    }
}

fn date_invalid(s: &str) -> Option<&'static str> {
    // only strings no date syntax could accept: containing the junk letters x / é next to nothing else useful
    if s.contains('x') || s.contains('\u{e9}') {
        return Some("not a date");
    }
    None
}

fn user_invalid(s: &str) -> Option<&'static str> {
    if s.is_empty() {
        return Some("empty name");
    }
    if s.chars().all(|c| c.is_ascii_digit()) {
        // ids are 32-bit: a larger number is neither an id nor (here) a name
        return match s.parse::<u128>() {
            Ok(v) if v <= u32::MAX as u128 => None,
            _ => Some("a number beyond the 32-bit id range that is not a known name"),
        };
    }
    if ["root", "daemon", "nobody", "bin", "nogroup"].contains(&s) {
        return None;
    }
    if s.starts_with("zz") {
        return Some("unknown name");
    }
    None
}

fn sweeps(t: Tier) -> Vec<Sweep> {
    let q = |a: usize, b: usize| t.pick(a, b);
    let mut v = vec![
        Sweep { primary: "-printf", prefix: vec![], alphabet: vec!["%", "\\", "-", " ", "0", "5", "d", "p", "A", "T", "@", "c", "a", "\u{e9}", "99999999999999999999", "70000"], maxlen: q(3, 4), extra: vec!["%5", "%-", "%A", "a%"], invalid: printf_invalid },
        Sweep { primary: "-name", prefix: vec![], alphabet: vec!["[", "]", "!", ":", ".", "=", "-", "\\", "*", "a", "\u{e9}"], maxlen: q(4, 6), extra: vec![], invalid: never },
        Sweep { primary: "-ipath", prefix: vec![], alphabet: vec!["[", "]", "!", ":", "\\", "*", "a", "\u{e9}"], maxlen: q(3, 5), extra: vec![], invalid: never },
        Sweep { primary: "-lname", prefix: vec![], alphabet: vec!["[", "]", ":", "a", "\u{e9}", "^"], maxlen: q(3, 5), extra: vec![], invalid: never },
        Sweep { primary: "-perm", prefix: vec![], alphabet: vec!["u", "g", "o", "a", "+", "-", "=", "/", "r", "w", "x", "s", "t", "X", "7", "8", ",", "\u{e9}"], maxlen: q(4, 5), extra: vec!["", "77777", "07777", "u=rwx,g=rx,o=", "-u+x,", "u+r,,g+w"], invalid: perm_invalid },
        Sweep { primary: "-size", prefix: vec![], alphabet: vec!["+", "-", "0", "1", "9", "k", "c", "G", "x", " ", "\u{e9}"], maxlen: q(4, 5), extra: vec!["", "9223372036854775807", "9223372036854775808", "18446744073709551615", "18446744073709551616", "+18446744073709551616k", "\u{663}", "1\u{663}", "+\u{ff11}", "-12\u{ff11}", "\u{b2}", "5\u{b2}", "\u{1d7d5}", "\u{663}\u{663}", "9\u{1d7d5}9", "1\u{663}k", "+\u{ff11}c"], invalid: size_invalid },
        Sweep { primary: "-type", prefix: vec![], alphabet: vec!["f", "d", "l", "p", "s", "b", "c", ",", "D", "x", "\u{e9}"], maxlen: q(2, 3), extra: vec![""], invalid: type_invalid },
        Sweep { primary: "-xtype", prefix: vec![], alphabet: vec!["f", "d", "l", ",", "x"], maxlen: q(2, 3), extra: vec![""], invalid: type_invalid },
        Sweep { primary: "-maxdepth", prefix: vec![], alphabet: vec!["+", "-", "0", "1", "9", "x", " ", "\u{e9}"], maxlen: q(3, 4), extra: vec!["", "18446744073709551616", "\u{663}", "1\u{663}", "+\u{ff11}", "-12\u{ff11}", "\u{b2}", "5\u{b2}", "\u{1d7d5}", "\u{663}\u{663}", "9\u{1d7d5}9"], invalid: never },
        Sweep { primary: "-mindepth", prefix: vec![], alphabet: vec!["+", "-", "0", "1", "x"], maxlen: q(3, 3), extra: vec![""], invalid: never },
        Sweep { primary: "-regextype", prefix: vec![], alphabet: vec![], maxlen: 0, extra: vec!["", "foo", "EMACS", "emacs ", "posix", "posix-extende", "posix-extended2", "awk", "posix-egrep", "egrep", "gnu-awk", "posix-awk", "posix-minimal-basic", "findutils-default", "ed", "sed", "grep", "emacs", "posix-basic", "posix-extended"], invalid: regextype_invalid },
        Sweep { primary: "-user", prefix: vec![], alphabet: vec![], maxlen: 0, extra: vec!["", "root", "0", "54321", "zzunknownuser", "zz 1", "99999999999999999999", "4294967295", "4294967296", "99999999999", "18446744073709551615", "-1", "\u{e9}"], invalid: user_invalid },
        Sweep { primary: "-group", prefix: vec![], alphabet: vec![], maxlen: 0, extra: vec!["", "root", "0", "54322", "zzunknowngroup", "99999999999999999999", "4294967295", "4294967296", "99999999999", "18446744073709551615", "-1"], invalid: user_invalid },
    ];
    // -newerXt DATE: pieces of the accepted date syntax, ASCII and non-ASCII digits, junk; judged for
    // no-panic (every string) and for rejection only where a reading-independent predicate says invalid
    for (p, n) in [("-newermt", q(5, 6)), ("-newerat", 3), ("-newerct", 3)] {
        v.push(Sweep { primary: p, prefix: vec![], alphabet: vec!["jan 01", ", ", " ", "2", "0", "\u{662}", "12:00:00", "x", "\u{e9}"], maxlen: n, extra: vec!["", "jan 01, 2025", "jan 01, 2025 00:00:01", "feb 30, 2025", "jan 01, 0000", "zzz 99, 9999 99:99:99", ", \u{967}\u{966}\u{968}\u{96b}"], invalid: date_invalid });
    }
    for p in ["-links", "-inum", "-uid", "-gid", "-mtime", "-atime", "-ctime", "-mmin", "-amin", "-cmin"] {
        v.push(Sweep { primary: p, prefix: vec![], alphabet: vec!["+", "-", "0", "1", "9", "x", " ", "\u{e9}"], maxlen: q(3, 4), extra: vec!["", "18446744073709551615", "18446744073709551616", "+9223372036854775808", "\u{663}", "1\u{663}", "+\u{ff11}", "-12\u{ff11}", "\u{b2}", "5\u{b2}", "\u{1d7d5}", "\u{663}\u{663}", "9\u{1d7d5}9"], invalid: number_invalid });
    }
    for ty in ["emacs", "posix-basic", "posix-extended", "grep", "ed", "sed"] {
        v.push(Sweep {
            primary: "-regex",
            prefix: vec!["-regextype", ty],
            alphabet: vec!["(", ")", "\\", "|", "*", "+", "?", "{", "}", "[", "]", "^", "$", "a", ".", "1", ","],
            maxlen: q(3, 4),
            extra: vec![],
            invalid: if ty == "posix-extended" { ere_invalid } else { bre_invalid },
        });
    }
    v.push(Sweep { primary: "-iregex", prefix: vec![], alphabet: vec!["\\", "(", ")", "|", "[", "]", "a", "\u{e9}", "{", "}", "1", ","], maxlen: q(3, 4), extra: vec![], invalid: never });
    v
}

fn operand_sweeps(ctx: &mut Ctx, global: &mut u64) {
    for sw in sweeps(ctx.tier) {
        let mut operands: Vec<String> = sw.extra.iter().map(|s| s.to_string()).collect();
        let mut cur: Vec<usize> = vec![];
        fn rec(alpha: &[&str], maxlen: usize, cur: &mut Vec<usize>, out: &mut Vec<String>) {
            if !cur.is_empty() {
                out.push(cur.iter().map(|&i| alpha[i]).collect::<String>());
            }
            if cur.len() == maxlen {
                return;
            }
            for i in 0..alpha.len() {
                cur.push(i);
                rec(alpha, maxlen, cur, out);
                cur.pop();
            }
        }
        if sw.maxlen > 0 {
            rec(&sw.alphabet, sw.maxlen, &mut cur, &mut operands);
        }
        for op in operands {
            *global += 1;
            if !ctx.mine(*global) {
                continue;
            }
            ctx.progress(*global);
            ctx.rep.evaluations += 1;
            let mut args: Vec<&str> = vec!["r"];
            args.extend(sw.prefix.iter());
            args.push(sw.primary);
            args.push(&op);
            args.push("-print");
            let got = run_find(&args);
            let inv = (sw.invalid)(&op);
            ctx.rep.count(&format!("operands {}{}", sw.primary, if sw.prefix.is_empty() { String::new() } else { format!(" ({})", sw.prefix[1]) }), 1);
            if inv.is_some() {
                ctx.rep.nontrivial += 1;
            }
            if ctx.rep.evaluations % 100_000 == 9 {
                ctx.rep.sample(json!({"argv": args, "reference": inv.unwrap_or("not judged / valid"), "status": got.status()}));
            }
            if let Err(p) = &got.code {
                ctx.rep.violation(&format!("C11 panic at {}", ploc(p)), format!("find {:?}: {p}", args), json!({"prop":"C11","argv":args}));
                continue;
            }
            ctx.rep.class(&format!("{} {} status={}", sw.primary, if inv.is_some() { "invalid" } else { "other" }, got.status()));
            if let Some(reason) = inv {
                if let Some((why, detail)) = not_rejected(&got) {
                    ctx.rep.violation(
                        &format!("C11 invalid operand to {} {why}: {reason}", sw.primary),
                        format!("find {:?}\n{detail}", args),
                        json!({"prop":"C11","argv":args,"must_reject":true}),
                    );
                }
            }
        }
    }
}

// ---------------------------------------------------------------------------------------
// (2b) fixed vectors: missing operands, unknown primaries, -newerXY, -exec terminators
// ---------------------------------------------------------------------------------------

fn fixed_vectors(ctx: &mut Ctx, global: &mut u64) {
    let operand_taking = [
        "-printf", "-fprint", "-fprint0", "-fls", "-fprintf", "-name", "-iname", "-lname", "-ilname", "-path", "-ipath",
        "-wholename", "-iwholename", "-regextype", "-regex", "-iregex", "-type", "-xtype", "-fstype", "-newer", "-mtime",
        "-atime", "-ctime", "-mmin", "-amin", "-cmin", "-size", "-exec", "-execdir", "-inum", "-links", "-samefile",
        "-user", "-uid", "-group", "-gid", "-perm", "-maxdepth", "-mindepth", "-files0-from", "-newermm", "-neweram",
        "-anewer", "-cnewer", "-newermt",
    ];
    let mut cases: Vec<(Vec<String>, &'static str)> = vec![];
    for p in operand_taking {
        cases.push((vec!["r".into(), p.into()], "primary missing its operand"));
        cases.push((vec!["r".into(), "-true".into(), p.into()], "primary missing its operand"));
        cases.push((vec!["r".into(), "(".into(), p.into(), ")".into()], "primary missing its operand"));
    }
    cases.push((vec!["r".into(), "-fprintf".into(), "F".into()], "primary missing its operand"));
    for p in ["-foo", "-nam", "--name", "-prin", "-print1", "-Print", "-newer1", "-newerxy", "-neweraa1", "-newerma ", "-foo-newermm", "-xnewermm", "-newerZm", "-newermZ", "-newer-mm"] {
        cases.push((vec!["r".into(), p.into(), "r/x".into()], "unknown primary"));
        cases.push((vec!["r".into(), p.into()], "unknown primary"));
    }
    // -newerXY: every two-letter suffix over {a,B,c,m,t,x}
    for x in ["a", "B", "c", "m", "t", "x"] {
        for y in ["a", "B", "c", "m", "t", "x"] {
            let valid_x = ["a", "B", "c", "m"].contains(&x);
            let valid_y = ["a", "B", "c", "m", "t"].contains(&y);
            let name = format!("-newer{x}{y}");
            if !(valid_x && valid_y) {
                cases.push((vec!["r".into(), name.clone(), "r/x".into()], "invalid -newerXY letters"));
            }
            cases.push((vec!["r".into(), format!("{name}JUNK"), "r/x".into()], "junk after -newerXY"));
            if valid_x && valid_y && y != "t" && x != "B" && y != "B" {
                cases.push((vec!["r".into(), name.clone(), "r/nonexistent".into()], "-newerXY reference file missing"));
            }
            if valid_x && x != "B" && y == "t" {
                cases.push((vec!["r".into(), name.clone(), "not a date".into()], "-newerXt with an unparsable date"));
            }
        }
    }
    cases.push((vec!["r".into(), "-newer".into(), "r/nonexistent".into()], "-newer reference file missing"));
    cases.push((vec!["r".into(), "-samefile".into(), "r/nonexistent".into()], "-samefile reference file missing"));
    // -exec terminators: every placement within 5 tokens
    let words = ["true", "{}", ";", "+", "x"];
    let mut cur: Vec<&str> = vec![];
    fn rec<'a>(words: &[&'a str], cur: &mut Vec<&'a str>, out: &mut Vec<Vec<String>>) {
        out.push(cur.iter().map(|s| s.to_string()).collect());
        if cur.len() == 4 {
            return;
        }
        for w in words {
            cur.push(w);
            rec(words, cur, out);
            cur.pop();
        }
    }
    let mut tails = vec![];
    rec(&words, &mut cur, &mut tails);
    for tail in tails {
        // reference: valid iff there is a command word and then the first ';' — or '+' directly after '{}' —
        // terminates; with '+' exactly one '{}' overall. Only invalid ones are judged here, and only
        // those with no terminator at all or nothing before the terminator.
        let term = tail.iter().enumerate().position(|(i, w)| w == ";" || (w == "+" && i > 0 && tail[i - 1] == "{}"));
        let invalid = match term {
            None => Some("-exec without a terminating ';' or '{} +'"),
            Some(0) => Some("-exec with no command before ';'"),
            Some(i) if tail[i] == "+" && tail[..i].iter().filter(|w| *w == "{}").count() != 1 => Some("-exec ... + with more than one {}"),
            _ => None,
        };
        if let Some(why) = invalid {
            if term.is_some_and(|i| i + 1 < tail.len()) {
                continue; // words after the terminator start a new (probably invalid) expression: not judged
            }
            let mut a = vec!["r".to_string(), "-exec".to_string()];
            a.extend(tail.clone());
            cases.push((a, why));
        }
    }
    for (av, why) in cases {
        *global += 1;
        if !ctx.mine(*global) {
            continue;
        }
        ctx.rep.evaluations += 1;
        ctx.rep.nontrivial += 1;
        ctx.rep.count("fixed_invalid_vectors", 1);
        let args: Vec<&str> = av.iter().map(|s| s.as_str()).collect();
        let got = run_find(&args);
        if let Err(p) = &got.code {
            ctx.rep.violation(&format!("C11 panic at {}", ploc(p)), format!("find {:?}: {p}", args), json!({"prop":"C11","argv":args}));
            continue;
        }
        if let Some((how, detail)) = not_rejected(&got) {
            let prim = av.iter().find(|w| w.starts_with('-') && w.len() > 1).cloned().unwrap_or_default();
            let prim = if why.contains("newerXY") || why.contains("newerXt") { "-newerXY".to_string() } else { prim };
            ctx.rep.violation(
                &format!("C11 {why} {how}: {prim}"),
                format!("find {:?}\n{detail}", args),
                json!({"prop":"C11","argv":args,"must_reject":true}),
            );
        }
    }
    // output files named by a rejected command line may have been created at parse time; remove them
    let _ = std::fs::remove_file(ctx.sbx.join("F"));
}

// ---------------------------------------------------------------------------------------
// (3) no panic on odd trees: unknown owners, entries removed by an earlier action
// ---------------------------------------------------------------------------------------

const VOCAB: [&[&str]; 44] = [
    &["-print"], &["-print0"], &["-printf", "%p %u %g %U %G %m %M %s %n %i %y %Y %l %h %f %H %P %d %a %c %t %b %k %D %F %S\n"], &["-ls"],
    &["-name", "*"], &["-iname", "*"], &["-path", "*"], &["-lname", "*"], &["-regex", ".*"], &["-type", "f"], &["-xtype", "f"],
    &["-empty"], &["-size", "+0"], &["-perm", "-0"], &["-links", "+0"], &["-inum", "+0"], &["-uid", "+0"], &["-gid", "+0"],
    &["-user", "root"], &["-group", "root"], &["-nouser"], &["-nogroup"], &["-mtime", "+0"], &["-atime", "0"], &["-ctime", "-1"],
    &["-mmin", "+0"], &["-amin", "0"], &["-cmin", "-1"], &["-newer", "out/f"], &["-neweram", "out/f"], &["-newercc", "out/f"],
    &["-newermt", "jan 01, 2025"], &["-samefile", "out/f"], &["-readable"], &["-writable"], &["-executable"], &["-fstype", "tmpfs"],
    &["-prune"], &["-delete"], &["-exec", "true", "{}", ";"], &["-exec", "true", "{}", "+"], &["-execdir", "true", "{}", ";"],
    &["-daystart", "-mtime", "0"], &["-printf", "%A@ %Ak %C+ %Tc %TS\n"],
];

fn odd_fs() -> Fs {
    let mut fs = Fs::new();
    let out = fs.add(0, "out", K::Dir);
    fs.add(out, "f", K::File);
    let t = fs.add(0, "t", K::Dir);
    let f = fs.add(t, "owned", K::File);
    fs.nodes[f].uid = 54321;
    fs.nodes[f].gid = 54322;
    let d = fs.add(t, "sub", K::Dir);
    fs.nodes[d].uid = 54321;
    fs.nodes[d].gid = 54322;
    let g = fs.add(d, "inner", K::File);
    fs.nodes[g].uid = 54321;
    fs.add(t, "plain", K::File);
    fs.add(t, "dangling", K::Link("nowhere".into()));
    fs.add(t, "loop", K::Link("loop".into()));
    fs.add(t, "fifo", K::Fifo);
    // a link that closes a directory cycle (diagnosed under -L)
    fs.add(d, "up", K::Link("..".into()));
    fs
}

fn odd_trees(ctx: &mut Ctx, global: &mut u64) {
    let sbx = ctx.sbx.clone();
    let fs = odd_fs();
    for follow in ["-P", "-L", "-H"] {
        for (vi, prim) in VOCAB.iter().enumerate() {
            for mode in ["plain", "after-delete", "after-exec-rm", "extreme-times"] {
                *global += 1;
                if !ctx.mine(*global) {
                    continue;
                }
                crate::sandbox::clear_dir(&sbx);
                if let Err(e) = crate::sandbox::materialize(&fs, 0, &sbx) {
                    ctx.rep.machinery(format!("odd tree builder: {e}"));
                    return;
                }
                if mode == "extreme-times" {
                    // timestamps no calendar can express (and just beyond year 9999 / before year 0)
                    let far = 9_223_372_036_854_775i64;
                    for (name, a, m) in [("t/plain", far, far), ("t/owned", -far, -far), ("t/sub", 253_402_300_800, -62_167_219_201), ("t/dangling", far, -far), ("t/fifo", -1, i64::from(i32::MAX) + 1)] {
                        if let Err(e) = crate::props::labelled::set_times(&sbx.join(name), (a, 999_999_999), (m, 1)) {
                            ctx.rep.machinery(format!("extreme times: {e}"));
                        }
                    }
                }
                let mut args: Vec<&str> = vec![follow, "t"];
                match mode {
                    "after-delete" => args.push("-delete"),
                    "after-exec-rm" => args.extend(["-depth", "-exec", "rm", "-rf", "{}", ";"]),
                    _ => {}
                }
                args.extend(prim.iter());
                ctx.rep.evaluations += 1;
                ctx.rep.count("odd_tree_runs", 1);
                ctx.progress(*global);
                let got = run_find(&args);
                ctx.rep.class(&format!("odd {mode} status={}", got.status()));
                if let Err(p) = &got.code {
                    ctx.rep.violation(
                        &format!("C11 panic at {}", ploc(p)),
                        format!("find {:?} (tree with unknown owners / removed entries / timestamps outside every calendar): {p}", args),
                        json!({"prop":"C11","argv":args,"tree":"odd","vocab":vi}),
                    );
                }
            }
        }
    }
    crate::sandbox::clear_dir(&sbx);
}

// ---------------------------------------------------------------------------------------
// binary slice
// ---------------------------------------------------------------------------------------

fn run_bin_raw(args: &[&std::ffi::OsStr], cwd: &Path) -> (Option<i32>, Option<i32>, bool, Vec<u8>) {
    use std::os::unix::process::ExitStatusExt;
    use std::process::{Command, Stdio};
    let exe = crate::engine::repo_bin_dir().join("find");
    let mut ch = Command::new(exe)
        .args(args)
        .current_dir(cwd)
        .env_clear()
        .stdin(Stdio::null())
        .stdout(Stdio::null())
        .stderr(Stdio::piped())
        .spawn()
        .expect("spawn find");
    let t0 = std::time::Instant::now();
    loop {
        match ch.try_wait() {
            Ok(Some(st)) => {
                let mut e = vec![];
                if let Some(mut s) = ch.stderr.take() {
                    use std::io::Read;
                    let _ = s.read_to_end(&mut e);
                }
                return (st.code(), st.signal(), false, e);
            }
            Ok(None) => {
                if t0.elapsed().as_secs() >= 10 {
                    let _ = ch.kill();
                    let _ = ch.wait();
                    return (None, None, true, vec![]);
                }
                std::thread::sleep(std::time::Duration::from_millis(1));
            }
            Err(_) => return (None, None, false, vec![]),
        }
    }
}

fn binary_slice(ctx: &mut Ctx, global: &mut u64) {
    use std::ffi::OsStr;
    use std::os::unix::ffi::OsStrExt;
    let sbx = ctx.sbx.clone();
    build_c01(&sbx);
    let maxlen = ctx.tier.pick(2, 3);
    let mut seq: Vec<Tok> = vec![];
    for len in 0..=maxlen {
        let total = (ALPHABET16.len() as u64).pow(len as u32);
        for idx in 0..total {
            *global += 1;
            if !ctx.mine(*global) {
                continue;
            }
            decode(idx, len, &ALPHABET16, &mut seq);
            let mut args = vec!["r"];
            args.extend(expr::argv(&seq));
            let os: Vec<&OsStr> = args.iter().map(OsStr::new).collect();
            let (code, sig, hung, _) = run_bin_raw(&os, &sbx);
            ctx.rep.evaluations += 1;
            let inproc = run_find(&args);
            let bad = hung || sig.is_some() || matches!(code, Some(101) | Some(134));
            if bad {
                ctx.rep.violation(
                    &format!("C11 find binary {}", if hung { "hung (>10 s)".to_string() } else { format!("died: code {:?} signal {:?}", code, sig) }),
                    format!("find {:?}", args),
                    json!({"prop":"C11","argv":args,"binary":true}),
                );
            } else if inproc.code.is_ok() && code != inproc.code.clone().ok() {
                ctx.rep.machinery(format!("bindings disagree on exit status for {:?}: binary {:?} in-process {:?}", args, code, inproc.code));
            } else {
                ctx.rep.traces_validated += 1;
            }
        }
    }
    if ctx.shard == 1 % ctx.nshards {
        // a malformed expression whose earlier words name find's own standard error (or output) as an
        // action's file: the rejection still reaches standard error
        for head in [vec!["-fprint", "/dev/stderr"], vec!["-fprintf", "/dev/stderr", "%p"], vec!["-fls", "/dev/stderr"], vec!["-fprint0", "/dev/fd/2"], vec!["-fprint", "/dev/stdout"], vec!["-fprint", "/dev/null"]] {
            for tail in [vec!["-bogus"], vec!["("], vec!["-name"], vec!["-o"], vec!["-size", "x"]] {
                let mut args: Vec<&str> = vec!["r"];
                args.extend(head.iter().copied());
                args.extend(tail.iter().copied());
                let os: Vec<&OsStr> = args.iter().map(OsStr::new).collect();
                let (code, sig, hung, err) = run_bin_raw(&os, &sbx);
                ctx.rep.evaluations += 1;
                ctx.rep.nontrivial += 1;
                ctx.rep.count("own_stream_as_action_file_cases", 1);
                if hung || sig.is_some() || matches!(code, Some(101) | Some(134)) {
                    ctx.rep.violation("C11 find binary died", format!("find {:?}: code {:?} signal {:?}", args, code, sig), json!({"prop":"C11","argv":args,"binary":true}));
                } else if code == Some(0) || err.is_empty() {
                    ctx.rep.violation(
                        "C11 malformed expression after an action whose file is find's own standard error: rejected without a diagnostic (or accepted)",
                        format!("find {:?} 2>pipe: exit status {:?}, {} bytes on standard error", args, code, err.len()),
                        json!({"prop":"C11","argv":args,"binary":true,"must_reject":true}),
                    );
                }
            }
        }
    }
    if ctx.shard == 0 {
        // argv containing a byte that is not UTF-8
        for raw in [&b"r/\xff"[..], &b"\xff"[..], &b"-name\xff"[..]] {
            for pos in 0..2 {
                let bad = OsStr::from_bytes(raw);
                let args: Vec<&OsStr> = if pos == 0 { vec![bad] } else { vec![OsStr::new("r"), OsStr::new("-name"), bad] };
                let (code, sig, hung, err) = run_bin_raw(&args, &sbx);
                ctx.rep.evaluations += 1;
                ctx.rep.nontrivial += 1;
                if hung || sig.is_some() || matches!(code, Some(101) | Some(134)) {
                    ctx.rep.violation(
                        "C11 find binary panics on a non-UTF-8 argument",
                        format!("find {:?}: code {:?} signal {:?} stderr {:?}", args, code, sig, String::from_utf8_lossy(&err)),
                        json!({"prop":"C11","argv_bytes":raw,"binary":true}),
                    );
                }
            }
        }
    }
}

fn run(ctx: &mut Ctx) {
    let sbx = ctx.sbx.clone();
    build_c01(&sbx);
    let mut global = 0u64;
    let n = glen(ctx.tier);
    grammar(ctx, &ALPHABET16, n, "plain", &mut global);
    // variant alphabet with a destructive action in place of -noleaf
    let mut with_delete = ALPHABET16.to_vec();
    for t in with_delete.iter_mut() {
        if *t == Tok::Noleaf {
            *t = Tok::Prune; // placeholder, replaced below
        }
    }
    let _ = with_delete;
    grammar_delete(ctx, n - 1, &mut global);
    build_c01(&sbx);
    operand_sweeps(ctx, &mut global);
    fixed_vectors(ctx, &mut global);
    odd_trees(ctx, &mut global);
    binary_slice(ctx, &mut global);
    scale_vectors(ctx, &mut global);
    unwritable_output(ctx, &mut global);
    unwritable_stderr(ctx, &mut global);
    timezone_vectors(ctx, &mut global);
    undecodable_names(ctx, &mut global);
}

/// Names (and a link target) that are not valid UTF-8 — a lone continuation byte first, 0xff last, a
/// truncated 3-byte sequence, a directory and entries below it — under every primary that reads,
/// cuts, pads or matches the name: no run ends in a panic (what is printed for such bytes is not
/// judged here).
fn undecodable_names(ctx: &mut Ctx, global: &mut u64) {
    use std::os::unix::ffi::OsStrExt;
    let base = ctx.sbx.join("un");
    let _ = crate::sandbox::force_remove(&base);
    std::fs::create_dir_all(&base).unwrap();
    let os = |b: &[u8]| std::ffi::OsStr::from_bytes(b).to_os_string();
    for n in [&b"\x80x"[..], b"ab\xff", b"abc\xe6\x97", b"\xc3", b"\xf0\x9f\x98"] {
        std::fs::write(base.join(os(n)), b"").unwrap();
    }
    std::fs::create_dir(base.join(os(b"d\xfe"))).unwrap();
    std::fs::write(base.join(os(b"d\xfe")).join("inner"), b"").unwrap();
    std::fs::write(base.join(os(b"d\xfe")).join(os(b"\xff")), b"").unwrap();
    std::fs::create_dir(base.join(os(b"e\x80"))).unwrap();
    std::os::unix::fs::symlink(os(b"t\xff\xfe"), base.join(os(b"l\xff"))).unwrap();
    std::os::unix::fs::symlink(os(b"ab\xff"), base.join("lok")).unwrap();
    std::env::set_current_dir(&ctx.sbx).unwrap();
    let mut exprs: Vec<Vec<String>> = vec![];
    for a in [vec!["-print"], vec!["-print0"], vec!["-ls"], vec!["-empty"], vec!["-size", "-1k"], vec!["-newer", "un"], vec!["-samefile", "un"], vec!["-exec", "true", "{}", ";"], vec!["-execdir", "true", "{}", "+"], vec!["-exec", "true", "x{}y{}", ";"], vec!["-fprint", "/dev/null"], vec!["-fls", "/dev/null"], vec!["-depth"], vec!["-xtype", "l"], vec!["-lname", "*"], vec!["-ilname", "T?*"]] {
        exprs.push(a.iter().map(|s| s.to_string()).collect());
    }
    for d in "pfhHPdsniUGmyYl".chars() {
        for spec in ["", "5", "-5", "40"] {
            exprs.push(vec!["-printf".into(), format!("[%{spec}{d}]\\n")]);
        }
    }
    for prim in ["-name", "-iname", "-path", "-ipath", "-regex", "-iregex"] {
        for pat in ["*", "?", "*x", "[a-z]*", "??", "*[!a]", ".*", ".*x", "un/.", "un/..*"] {
            exprs.push(vec![prim.into(), pat.into()]);
        }
    }
    for flag in ["-P", "-L"] {
        for e in &exprs {
            *global += 1;
            if !ctx.mine(*global) {
                continue;
            }
            let mut args: Vec<&str> = vec![flag, "un", "-sorted"];
            args.extend(e.iter().map(|s| s.as_str()));
            let got = run_find(&args);
            ctx.rep.evaluations += 1;
            ctx.rep.nontrivial += 1;
            ctx.rep.count("undecodable_name_runs", 1);
            if let Err(p) = &got.code {
                ctx.rep.violation(&format!("C11 panic at {} (names that are not valid UTF-8)", ploc(p)), format!("find {:?}: {p}", args), json!({"prop":"C11","argv":args,"undecodable":true}));
            }
        }
    }
    let _ = crate::sandbox::force_remove(&base);
}

/// -newerXt dates and the time-printing directives under time zones with daylight saving (POSIX
/// rules, no tzdata needed): a wall-clock time that does not exist (spring forward) or exists twice
/// (fall back) must not end find in a panic.
fn timezone_vectors(ctx: &mut Ctx, global: &mut u64) {
    let sbx = ctx.sbx.clone();
    build_c01(&sbx);
    let zones = ["CET-1CEST,M3.5.0,M10.5.0/3", "EST5EDT,M3.2.0,M11.1.0", "GMT0BST,M3.5.0/1,M10.5.0", "<+1345>-13:45", "UTC0"];
    let dates = ["mar 30, 2025 02:30:00", "mar 30, 2025 01:30:00", "mar 09, 2025 02:30:00", "oct 26, 2025 02:30:00", "oct 26, 2025 01:30:00", "nov 02, 2025 01:30:00", "mar 30, 2025", "dec 31, 1969 23:59:59"];
    for zone in zones {
        for date in dates {
            for prim in ["-newermt", "-newerat", "-newerct"] {
                *global += 1;
                if !ctx.mine(*global) {
                    continue;
                }
                let got = crate::findrun::run_find_bin_env(&["r", prim, date, "-printf", "%t %TY-%Tm-%Td %TH:%TM %Tc\\n"], &sbx, None, &[("TZ", zone)]);
                ctx.rep.evaluations += 1;
                ctx.rep.nontrivial += 1;
                ctx.rep.count("timezone_vectors", 1);
                if got.code.is_err() || matches!(got.code, Ok(c) if c == 134) {
                    ctx.rep.violation(
                        &format!("C11 find panics on a date operand / time directive under a time zone with daylight saving [{prim}]"),
                        format!("TZ={zone} find r {prim} {date:?} -printf '%t ...': {}", got.brief()),
                        json!({"prop":"C11","tz":zone,"argv":["r", prim, date],"binary":true}),
                    );
                }
            }
        }
    }
}

/// Diagnostics that cannot be written (standard error is /dev/full) must not turn into a panic;
/// the exit status is what it would be otherwise.
fn unwritable_stderr(ctx: &mut Ctx, global: &mut u64) {
    use std::os::unix::process::ExitStatusExt;
    use std::process::{Command, Stdio};
    let sbx = ctx.sbx.clone();
    crate::sandbox::clear_dir(&sbx);
    if let Err(e) = crate::sandbox::materialize(&odd_fs(), 0, &sbx) {
        ctx.rep.machinery(format!("odd tree builder: {e}"));
        return;
    }
    let exe = crate::engine::repo_bin_dir().join("find");
    // (arguments, expected exit status if it is determined)
    // (not a diagnostics-to-/dev/full case, but the same runner fits:) a starting-point list that can be
    // opened but not read — a directory — must be refused, not retried for ever
    for (args, stdin_dir) in [(&["-files0-from", "t"][..], false), (&["-files0-from", "-"][..], true), (&["-files0-from", "t", "-print"][..], false)] {
        *global += 1;
        if !ctx.mine(*global) {
            continue;
        }
        let stdin = if stdin_dir { std::fs::File::open(sbx.join("t")).map(Stdio::from).unwrap_or(Stdio::null()) } else { Stdio::null() };
        let child = Command::new(&exe).args(args).current_dir(&sbx).env_clear().stdin(stdin).stdout(Stdio::null()).stderr(Stdio::piped()).spawn();
        let Ok(mut child) = child else {
            ctx.rep.machinery("spawn find".into());
            continue;
        };
        let t0 = std::time::Instant::now();
        let status = loop {
            match child.try_wait() {
                Ok(Some(st)) => break Some(st),
                Ok(None) if t0.elapsed().as_secs() >= 10 => {
                    let _ = child.kill();
                    let _ = child.wait();
                    break None;
                }
                Ok(None) => std::thread::sleep(std::time::Duration::from_millis(2)),
                Err(_) => break None,
            }
        };
        ctx.rep.evaluations += 1;
        ctx.rep.nontrivial += 1;
        ctx.rep.count("unreadable_starting_point_list_runs", 1);
        let ok = status.is_some_and(|st| matches!(st.code(), Some(c) if c != 0 && c != 101 && c != 134));
        if !ok {
            ctx.rep.violation(
                &format!("C11 find {} on a -files0-from list that cannot be read (a directory)", if status.is_none() { "hangs (>10 s)" } else { "does not end with an ordinary non-zero status" }),
                format!("find {:?}{}: {:?}", args, if stdin_dir { " < DIRECTORY" } else { "" }, status),
                json!({"prop":"C11","argv":args,"files0_dir":true,"binary":true}),
            );
        }
    }
    let cases: [(&[&str], Option<i32>); 12] = [
        (&["missing-root"], Some(1)),
        (&["missing-root", "t", "-maxdepth", "0"], Some(1)),
        (&["t", "-exec", "/nonexistent/cmd", "{}", ";"], Some(0)),
        (&["t", "-execdir", "/nonexistent/cmd", "{}", ";"], Some(0)),
        (&["t", "-exec", "/nonexistent/cmd", "{}", "+"], Some(1)),
        (&["t/sub", "-maxdepth", "0", "-delete"], Some(1)),
        (&["t", "-name", "a", "-o"], Some(1)),
        (&["t", "-newer", "missing-ref"], Some(1)),
        (&["t", "-printf", "%"], Some(1)),
        (&["-L", "t", "-name", "loop"], None),
        (&["t", "-empty", "-samefile", "out/f", "-o", "-size", "+0", "-perm", "-0", "-lname", "*", "-mtime", "0", "-newer", "out/f"], Some(0)),
        (&["t", "-regextype", "nosuch"], Some(1)),
    ];
    for (args, want) in cases {
        *global += 1;
        if !ctx.mine(*global) {
            continue;
        }
        let err = match std::fs::OpenOptions::new().write(true).open("/dev/full") {
            Ok(f) => Stdio::from(f),
            Err(e) => {
                ctx.rep.machinery(format!("open /dev/full: {e}"));
                return;
            }
        };
        let Ok(o) = Command::new(&exe).args(args).current_dir(&sbx).env_clear().stdin(Stdio::null()).stdout(Stdio::null()).stderr(err).output() else {
            ctx.rep.machinery("spawn find".into());
            continue;
        };
        ctx.rep.evaluations += 1;
        ctx.rep.nontrivial += 1;
        ctx.rep.count("unwritable_stderr_runs", 1);
        let (code, sig) = (o.status.code(), o.status.signal());
        let died = matches!(code, Some(101) | Some(134)) || sig.is_some();
        if died || want.is_some_and(|w| code != Some(w)) {
            ctx.rep.violation(
                &format!("C11 find {} when its diagnostics cannot be written (standard error is /dev/full)", if died { "panicked / aborted" } else { "changed its exit status" }),
                format!("find {:?} 2>/dev/full: code {:?} signal {:?} (expected {:?})", args, code, sig, want),
                json!({"prop":"C11","argv":args,"stderr_full":true,"binary":true}),
            );
        }
    }
}

/// The output actions when their destination cannot be written: standard output is /dev/full
/// (ENOSPC) or a pipe whose reader has gone (EPIPE; the read end is closed before find starts, so
/// every write fails), and the -f... actions write to /dev/full. find must end with an ordinary,
/// non-zero exit status (death by SIGPIPE would also be conventional) — not with a panic, and not
/// with status 0 as if the output had been delivered; ENOSPC must be diagnosed.
fn unwritable_output(ctx: &mut Ctx, global: &mut u64) {
    use std::os::unix::io::FromRawFd;
    use std::os::unix::process::ExitStatusExt;
    use std::process::{Command, Stdio};
    let sbx = ctx.sbx.clone();
    build_c01(&sbx);
    let exe = crate::engine::repo_bin_dir().join("find");
    let actions: [(&[&str], bool); 9] = [
        (&["-print"], true),
        (&["-print0"], true),
        (&["-printf", "%p\\n"], true),
        (&["-printf", "%p "], true),
        (&["-printf", "%p\\c"], true),
        (&["-fprint", "/dev/full"], false),
        (&["-fprint0", "/dev/full"], false),
        (&["-fprintf", "/dev/full", "%p\\n"], false),
        (&["-ls"], true),
    ];
    for (action, to_stdout) in actions {
        for dest in ["/dev/full", "closed pipe", "/dev/null"] {
            *global += 1;
            if !ctx.mine(*global) {
                continue;
            }
            if !to_stdout && dest != "/dev/null" {
                continue;
            }
            let out: Stdio = match dest {
                "closed pipe" => {
                    let mut fds = [0i32; 2];
                    if unsafe { libc::pipe(fds.as_mut_ptr()) } != 0 {
                        ctx.rep.machinery("pipe()".into());
                        continue;
                    }
                    unsafe { libc::close(fds[0]) };
                    unsafe { Stdio::from(std::fs::File::from_raw_fd(fds[1])) }
                }
                d => match std::fs::OpenOptions::new().write(true).open(d) {
                    Ok(f) => Stdio::from(f),
                    Err(e) => {
                        ctx.rep.machinery(format!("open {d}: {e}"));
                        continue;
                    }
                },
            };
            let mut args: Vec<&str> = vec!["r"];
            args.extend(action.iter());
            let o = Command::new(&exe).args(&args).current_dir(&sbx).env_clear().stdin(Stdio::null()).stdout(out).stderr(Stdio::piped()).output();
            let Ok(o) = o else {
                ctx.rep.machinery("spawn find".into());
                continue;
            };
            ctx.rep.evaluations += 1;
            ctx.rep.nontrivial += 1;
            ctx.rep.count("unwritable_output_runs", 1);
            let (code, sig) = (o.status.code(), o.status.signal());
            let err = String::from_utf8_lossy(&o.stderr).to_string();
            let lost = (to_stdout && dest != "/dev/null") || !to_stdout;
            let died = matches!(code, Some(101) | Some(134)) || matches!(sig, Some(s) if s != libc::SIGPIPE);
            // -ls is not the subject of any property here: only "no panic" is judged for it
            let judged_status = action[0] != "-ls";
            let problem = if died {
                Some("panicked / aborted")
            } else if judged_status && lost && code == Some(0) {
                Some("reports success although the output could not be written")
            } else if judged_status && lost && dest != "closed pipe" && sig.is_none() && err.is_empty() {
                Some("failed without a diagnostic")
            } else if !lost && code != Some(0) {
                Some("fails although the output could be written")
            } else {
                None
            };
            if let Some(what) = problem {
                ctx.rep.violation(
                    &format!("C11 find {what}: {} with its output going to {}", action[0], if to_stdout { dest } else { "/dev/full (the action's own file)" }),
                    format!("find {:?} (standard output: {dest}): code {:?} signal {:?} stderr {:?}", args, code, sig, err.chars().take(300).collect::<String>()),
                    json!({"prop":"C11","unwritable":dest,"argv":args,"binary":true}),
                );
            }
        }
    }
}

/// Argument vectors of a size the exhaustive slices never reach, through the find binary (a stack
/// overflow kills the process): N nested parentheses, N '!' in a row, chains of N terms joined by
/// -o / -a / ',', right-nested `( T -o ( T -o ( ...`, N starting points, one operand of N bytes for
/// -name / -regex / -printf — N up to 10^5 (bounded by the kernel's argv budget). Whatever find
/// thinks of them, it must end with an ordinary exit status: 0, or non-zero with a diagnostic.
fn scale_vectors(ctx: &mut Ctx, global: &mut u64) {
    use std::ffi::OsStr;
    let sbx = ctx.sbx.clone();
    let rep = |w: &[&str], n: usize| -> Vec<String> { (0..n).flat_map(|_| w.iter().map(|s| s.to_string())).collect() };
    let mut cases: Vec<(String, Vec<String>)> = vec![];
    for n in [100usize, 1000, 3000, 10_000, 30_000, 100_000] {
        let mut v = vec!["r".to_string()];
        v.extend(rep(&["("], n));
        v.push("-true".into());
        v.extend(rep(&[")"], n));
        cases.push((format!("{n} nested parentheses"), v));
        let mut v = vec!["r".to_string()];
        v.extend(rep(&["!", "("], n));
        v.push("-true".into());
        v.extend(rep(&[")"], n));
        cases.push((format!("{n} nested negated parentheses"), v));
        let mut v = vec!["r".to_string()];
        v.extend(rep(&["(", "-false", "-o"], n));
        v.push("-true".into());
        v.extend(rep(&[")"], n));
        cases.push((format!("{n} right-nested -o groups"), v));
        let mut v = vec!["r".to_string()];
        v.extend(rep(&["(", "-true", ","], n));
        v.push("-true".into());
        v.extend(rep(&[")"], n));
        cases.push((format!("{n} right-nested comma groups"), v));
        let mut v = vec!["r".to_string()];
        v.extend(rep(&["!"], n));
        v.push("-true".into());
        cases.push((format!("{n} '!' in a row"), v));
        for op in ["-o", "-a", ","] {
            let mut v = vec!["r".to_string(), "-false".to_string()];
            v.extend(rep(&[op, "-false"], n));
            cases.push((format!("chain of {n} terms joined by {op}"), v));
        }
        let mut v = rep(&["r"], n);
        v.extend(["-maxdepth", "0", "-false"].map(String::from));
        cases.push((format!("{n} starting points"), v));
        if n <= 100_000 {
            for prim in ["-name", "-regex", "-printf", "-path"] {
                cases.push((format!("{prim} with an operand of {n} bytes"), vec!["r".into(), prim.into(), "a".repeat(n)]));
                if n <= 10_000 {
                    // (the glob translation is quadratic in the number of unclosed '[': 26 s for 50 000 —
                    // slow, not a hang; kept below the 10 s watchdog here)
                    cases.push((format!("{prim} with an operand of {n} '[' / '(' / '%'"), vec!["r".into(), prim.into(), (if prim == "-printf" { "%%" } else if prim == "-regex" { "\\(" } else { "[" }).repeat(n / 2)]));
                }
            }
        }
    }
    for (what, argv) in cases {
        *global += 1;
        if !ctx.mine(*global) {
            continue;
        }
        // the kernel's budget for argv (2 MiB with the default 8 MiB stack, 8 bytes per pointer,
        // 128 KiB per string): vectors that cannot be passed at all are not cases
        let bytes: usize = argv.iter().map(|a| a.len() + 1 + 8).sum();
        if bytes > 1_500_000 || argv.iter().any(|a| a.len() >= 131_000) {
            ctx.rep.count("scale_vectors_beyond_the_kernel_argv_budget", 1);
            continue;
        }
        let os: Vec<&OsStr> = argv.iter().map(OsStr::new).collect();
        let (code, sig, hung, err) = run_bin_raw(&os, &sbx);
        ctx.rep.evaluations += 1;
        ctx.rep.nontrivial += 1;
        ctx.rep.count("scale_vectors", 1);
        ctx.rep.class(&format!("scale status={:?}", code.map(|c| c.min(2))));
        let died = hung || sig.is_some() || matches!(code, Some(101) | Some(134)) || code.is_none();
        let silent_failure = matches!(code, Some(c) if c != 0) && err.is_empty();
        if died || silent_failure {
            let kind = what.split_once(' ').map(|(a, b)| if a.chars().all(|c| c.is_ascii_digit()) { b.to_string() } else { what.clone() }).unwrap_or(what.clone());
            let kind: String = kind.split(" of ").next().unwrap_or(&kind).to_string();
            ctx.rep.violation(
                &format!("C11 find binary {} on a very long argument vector ({kind})", if hung { "hung (>10 s)".to_string() } else if died { "died (panic / abort / signal)".to_string() } else { "failed without a diagnostic".to_string() }),
                format!("{what}: code {:?} signal {:?} stderr {:?}", code, sig, String::from_utf8_lossy(&err).chars().take(300).collect::<String>()),
                json!({"prop":"C11","scale":what,"binary":true}),
            );
        }
    }
}

/// Grammar complement over {( ) ! -a -o , -true -false -delete -print}: a rejected vector must
/// leave the tree untouched.
fn grammar_delete(ctx: &mut Ctx, maxlen: usize, global: &mut u64) {
    let words: [&[&str]; 10] = [&["("], &[")"], &["!"], &["-a"], &["-o"], &[","], &["-true"], &["-false"], &["-delete"], &["-print"]];
    let toks: [Tok; 10] = [Tok::LP, Tok::RP, Tok::Not, Tok::And, Tok::Or, Tok::Comma, Tok::True, Tok::False, Tok::Noleaf, Tok::Print];
    let sbx = ctx.sbx.clone();
    let mut seq: Vec<usize> = vec![];
    for len in 1..=maxlen {
        let total = 10u64.pow(len as u32);
        for idx in 0..total {
            *global += 1;
            if !ctx.mine(*global) {
                continue;
            }
            seq.clear();
            let mut x = idx;
            for _ in 0..len {
                seq.push((x % 10) as usize);
                x /= 10;
            }
            if !seq.contains(&8) {
                continue; // covered by the plain sweep
            }
            let tk: Vec<Tok> = seq.iter().map(|&i| toks[i]).collect();
            if expr::parse(&tk).is_some() {
                continue; // valid: would really delete; C10 owns that
            }
            if matches!(tk[0], Tok::Comma | Tok::RP) {
                continue; // leading ',' / ')' are starting points (see above)
            }
            let mut args = vec!["r"];
            for &i in &seq {
                args.extend(words[i].iter());
            }
            ctx.rep.evaluations += 1;
            ctx.rep.nontrivial += 1;
            ctx.rep.count("invalid_sequences_delete", 1);
            let got = run_find(&args);
            if let Err(p) = &got.code {
                ctx.rep.violation(&format!("C11 panic at {}", ploc(p)), format!("find {:?}: {p}", args), json!({"prop":"C11","argv":args}));
            } else if let Some((why, detail)) = not_rejected(&got) {
                ctx.rep.violation(&format!("C11 malformed expression {why}: {}", bad_pair(&tk).replace("-noleaf", "-delete")), format!("find {:?}\n{detail}", args), json!({"prop":"C11","argv":args,"must_reject":true}));
            }
            if !tree_intact(&sbx) {
                ctx.rep.violation("C11 malformed expression with -delete removed files", format!("find {:?}", args), json!({"prop":"C11","argv":args,"must_reject":true}));
                build_c01(&sbx);
            }
        }
    }
}

fn replay(case: &Value, ctx: &mut Ctx) -> Option<String> {
    let sbx = ctx.sbx.clone();
    if case["tree"] == "odd" {
        crate::sandbox::clear_dir(&sbx);
        crate::sandbox::materialize(&odd_fs(), 0, &sbx).ok()?;
    } else {
        build_c01(&sbx);
    }
    if case["binary"] == true {
        println!("binary-level cases are replayed by re-running the check");
        return None;
    }
    let av: Vec<String> = case["argv"].as_array()?.iter().map(|v| v.as_str().unwrap_or("").to_string()).collect();
    let args: Vec<&str> = av.iter().map(|s| s.as_str()).collect();
    let got = run_find(&args);
    if let Err(p) = &got.code {
        let sig = format!("C11 panic at {}", ploc(p));
        ctx.rep.violation(&sig, format!("find {:?}: {p}", args), case.clone());
        return Some(sig);
    }
    if case["must_reject"] == true {
        if let Some((why, detail)) = not_rejected(&got) {
            let sig = format!("C11 vector that must be rejected was {why}");
            ctx.rep.violation(&sig, format!("find {:?}\n{detail}", args), case.clone());
            return Some(sig);
        }
    }
    None
}
