//! Reference fnmatch (no flags / case-fold) written from the statement of C12, plus the libc
//! fnmatch(3) bridge. Bytes only (ASCII scope). `Undecided` marks patterns on which POSIX leaves
//! the result unspecified or the statement is silent; such patterns are not judged.

#[derive(Clone, Debug, PartialEq)]
pub enum Item {
    Char(u8),
    Range(u8, u8),
    Class(&'static str),
}

#[derive(Clone, Debug, PartialEq)]
pub enum Tok {
    Any,
    Star,
    Lit(u8),
    Set { neg: bool, items: Vec<Item> },
}

#[derive(Clone, Debug, PartialEq)]
pub enum Parsed {
    Toks(Vec<Tok>),
    /// pattern ends in a lone backslash: matches nothing
    Never,
}

#[derive(Clone, Copy, Debug, PartialEq, Eq)]
pub struct Undecided(pub &'static str);

const CLASSES: [&str; 12] = ["alpha", "digit", "alnum", "upper", "lower", "space", "blank", "punct", "print", "graph", "cntrl", "xdigit"];

fn class_has(name: &str, c: u8) -> bool {
    match name {
        "alpha" => c.is_ascii_alphabetic(),
        "digit" => c.is_ascii_digit(),
        "alnum" => c.is_ascii_alphanumeric(),
        "upper" => c.is_ascii_uppercase(),
        "lower" => c.is_ascii_lowercase(),
        "space" => matches!(c, b' ' | b'\t' | b'\n' | 0x0b | 0x0c | b'\r'),
        "blank" => matches!(c, b' ' | b'\t'),
        "punct" => c.is_ascii_punctuation(),
        "print" => (0x20..0x7f).contains(&c),
        "graph" => (0x21..0x7f).contains(&c),
        "cntrl" => c < 0x20 || c == 0x7f,
        "xdigit" => c.is_ascii_hexdigit(),
        _ => false,
    }
}

/// Ok(Some((set, index after ']'))) | Ok(None): no closing bracket, '[' is literal
fn bracket(p: &[u8], i: usize) -> Result<Option<(Tok, usize)>, Undecided> {
    let n = p.len();
    let mut j = i + 1;
    let mut neg = false;
    if j < n && p[j] == b'!' {
        neg = true;
        j += 1;
    } else if j < n && p[j] == b'^' {
        return Err(Undecided("bracket expression starting with ^ (unspecified by POSIX)"));
    }
    let mut first = true;
    let mut items = vec![];
    loop {
        if j >= n {
            return Ok(None);
        }
        let c = p[j];
        if c == b']' && !first {
            return Ok(Some((Tok::Set { neg, items }, j + 1)));
        }
        first = false;
        if c == b'[' && j + 1 < n && matches!(p[j + 1], b':' | b'.' | b'=') {
            let delim = p[j + 1];
            let mut k = j + 2;
            let mut found = None;
            while k + 1 < n {
                if p[k] == delim && p[k + 1] == b']' {
                    found = Some(k);
                    break;
                }
                k += 1;
            }
            let Some(k) = found else {
                return Err(Undecided("unterminated [: [. or [= inside a bracket"));
            };
            if delim != b':' {
                return Err(Undecided("collating symbol / equivalence class"));
            }
            let name = std::str::from_utf8(&p[j + 2..k]).unwrap_or("");
            let Some(cl) = CLASSES.iter().find(|c| **c == name) else {
                return Err(Undecided("unknown character class"));
            };
            items.push(Item::Class(cl));
            j = k + 2;
            // a class as a range endpoint is undefined
            if j + 1 < n && p[j] == b'-' && p[j + 1] != b']' {
                return Err(Undecided("character class as range endpoint"));
            }
            continue;
        }
        let lo;
        if c == b'\\' {
            if j + 1 >= n {
                return Ok(None);
            }
            lo = p[j + 1];
            j += 2;
        } else {
            lo = c;
            j += 1;
        }
        if j + 1 < n && p[j] == b'-' && p[j + 1] != b']' {
            let mut k = j + 1;
            let hi;
            if p[k] == b'\\' {
                if k + 1 >= n {
                    return Ok(None);
                }
                hi = p[k + 1];
                k += 2;
            } else if p[k] == b'[' && k + 1 < n && matches!(p[k + 1], b':' | b'.' | b'=') {
                return Err(Undecided("class/collating element as range endpoint"));
            } else {
                hi = p[k];
                k += 1;
            }
            if lo > hi {
                return Err(Undecided("reversed range"));
            }
            items.push(Item::Range(lo, hi));
            j = k;
        } else {
            items.push(Item::Char(lo));
        }
    }
}

pub fn parse(p: &[u8]) -> Result<Parsed, Undecided> {
    let mut toks = vec![];
    let mut i = 0;
    while i < p.len() {
        match p[i] {
            b'?' => {
                toks.push(Tok::Any);
                i += 1;
            }
            b'*' => {
                toks.push(Tok::Star);
                i += 1;
            }
            b'\\' => {
                if i + 1 < p.len() {
                    toks.push(Tok::Lit(p[i + 1]));
                    i += 2;
                } else {
                    return Ok(Parsed::Never);
                }
            }
            b'[' => match bracket(p, i)? {
                Some((t, next)) => {
                    toks.push(t);
                    i = next;
                }
                None => {
                    toks.push(Tok::Lit(b'['));
                    i += 1;
                }
            },
            c => {
                toks.push(Tok::Lit(c));
                i += 1;
            }
        }
    }
    Ok(Parsed::Toks(toks))
}

fn tok_matches(t: &Tok, c: u8, fold: bool) -> bool {
    let lc = |x: u8| if fold { x.to_ascii_lowercase() } else { x };
    match t {
        Tok::Any => true,
        Tok::Star => unreachable!(),
        Tok::Lit(l) => lc(*l) == lc(c),
        Tok::Set { neg, items } => {
            let hit = items.iter().any(|it| match it {
                Item::Char(x) => lc(*x) == lc(c),
                Item::Range(lo, hi) => (*lo..=*hi).contains(&c) || (fold && ((*lo..=*hi).contains(&c.to_ascii_lowercase()) || (*lo..=*hi).contains(&c.to_ascii_uppercase()))),
                Item::Class(n) => class_has(n, c),
            });
            hit != *neg
        }
    }
}

fn m(toks: &[Tok], s: &[u8], fold: bool) -> bool {
    match toks.first() {
        None => s.is_empty(),
        Some(Tok::Star) => (0..=s.len()).any(|k| m(&toks[1..], &s[k..], fold)),
        Some(t) => !s.is_empty() && tok_matches(t, s[0], fold) && m(&toks[1..], &s[1..], fold),
    }
}

pub fn matches(p: &Parsed, s: &[u8], fold: bool) -> bool {
    match p {
        Parsed::Never => false,
        Parsed::Toks(t) => m(t, s, fold),
    }
}

pub fn has_class(p: &Parsed) -> bool {
    match p {
        Parsed::Never => false,
        Parsed::Toks(t) => t.iter().any(|t| matches!(t, Tok::Set { items, .. } if items.iter().any(|i| matches!(i, Item::Class(_))))),
    }
}

const FNM_CASEFOLD: i32 = 1 << 4;

/// glibc fnmatch(3) in the C locale: Some(true/false), None on error return
pub fn libc_fnmatch(p: &std::ffi::CStr, s: &std::ffi::CStr, fold: bool) -> Option<bool> {
    let r = unsafe { libc::fnmatch(p.as_ptr(), s.as_ptr(), if fold { FNM_CASEFOLD } else { 0 }) };
    match r {
        0 => Some(true),
        libc::FNM_NOMATCH => Some(false),
        _ => None,
    }
}
