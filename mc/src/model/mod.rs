pub mod expr;
pub mod tree;
pub mod xargs;
