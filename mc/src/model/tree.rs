//! Abstract file trees: an arena file system with a path resolver (the "stat oracle"),
//! a reference walker implementing find's documented traversal, and an enumerator of
//! all small trees. Nothing in here looks at the code under test.

use std::collections::BTreeSet;

#[derive(Clone, Debug, PartialEq, Eq, Hash)]
pub enum K {
    File,
    Dir,
    Link(String),
    Fifo,
    Sock,
}

#[derive(Clone, Debug)]
pub struct N {
    pub name: String,
    pub kind: K,
    pub parent: usize,
    pub children: Vec<usize>,
    pub mode: u32,
    pub size: u64,
    pub uid: u32,
    pub gid: u32,
    /// hard-link group: nodes with the same non-zero group share an inode
    pub hl: u32,
}

#[derive(Clone, Debug)]
pub struct Fs {
    pub nodes: Vec<N>,
}

#[derive(Clone, Copy, Debug, PartialEq, Eq)]
pub enum Errno {
    NoEnt,
    NotDir,
    Loop,
}

impl Fs {
    pub fn new() -> Fs {
        Fs {
            nodes: vec![N {
                name: String::new(),
                kind: K::Dir,
                parent: 0,
                children: vec![],
                mode: 0o755,
                size: 0,
                uid: 0,
                gid: 0,
                hl: 0,
            }],
        }
    }

    pub fn add(&mut self, parent: usize, name: &str, kind: K) -> usize {
        assert!(self.nodes[parent].kind == K::Dir);
        let id = self.nodes.len();
        let mode = match kind {
            K::Dir => 0o755,
            K::Link(_) => 0o777,
            _ => 0o644,
        };
        self.nodes.push(N {
            name: name.to_string(),
            kind,
            parent,
            children: vec![],
            mode,
            size: 0,
            uid: 0,
            gid: 0,
            hl: 0,
        });
        // keep children sorted by name bytes
        let pos = self.nodes[parent]
            .children
            .iter()
            .position(|&c| self.nodes[c].name.as_bytes() > name.as_bytes())
            .unwrap_or(self.nodes[parent].children.len());
        self.nodes[parent].children.insert(pos, id);
        id
    }

    pub fn child(&self, dir: usize, name: &str) -> Option<usize> {
        self.nodes[dir]
            .children
            .iter()
            .copied()
            .find(|&c| self.nodes[c].name == name)
    }

    pub fn is_dir(&self, n: usize) -> bool {
        self.nodes[n].kind == K::Dir
    }
    pub fn is_link(&self, n: usize) -> bool {
        matches!(self.nodes[n].kind, K::Link(_))
    }

    /// Resolve `path` (relative to directory `start`, or absolute = relative to node 0).
    /// `follow_last`: whether a symlink in the last component is followed (stat vs lstat).
    pub fn resolve(&self, start: usize, path: &str, follow_last: bool) -> Result<usize, Errno> {
        let mut budget = 40;
        self.resolve_b(start, path, follow_last, &mut budget)
    }

    fn resolve_b(
        &self,
        start: usize,
        path: &str,
        follow_last: bool,
        budget: &mut i32,
    ) -> Result<usize, Errno> {
        if path.is_empty() {
            return Err(Errno::NoEnt);
        }
        let mut cur = if path.starts_with('/') { 0 } else { start };
        let comps: Vec<&str> = path.split('/').filter(|c| !c.is_empty()).collect();
        let trailing_slash = path.ends_with('/');
        for (i, c) in comps.iter().enumerate() {
            let last = i + 1 == comps.len();
            if !self.is_dir(cur) {
                return Err(Errno::NotDir);
            }
            if *c == "." {
                continue;
            }
            if *c == ".." {
                cur = self.nodes[cur].parent;
                continue;
            }
            let Some(ch) = self.child(cur, c) else {
                return Err(Errno::NoEnt);
            };
            if let K::Link(t) = &self.nodes[ch].kind {
                if !last || follow_last || trailing_slash {
                    *budget -= 1;
                    if *budget < 0 {
                        return Err(Errno::Loop);
                    }
                    cur = self.resolve_b(cur, t, true, budget)?;
                    continue;
                }
            }
            cur = ch;
        }
        if trailing_slash && !self.is_dir(cur) {
            return Err(Errno::NotDir);
        }
        Ok(cur)
    }

    /// path of node `n` relative to node 0 (no leading slash)
    pub fn path_of(&self, n: usize) -> String {
        let mut parts = vec![];
        let mut c = n;
        while c != 0 {
            parts.push(self.nodes[c].name.clone());
            c = self.nodes[c].parent;
        }
        parts.reverse();
        parts.join("/")
    }

    /// compact textual form, for samples and replay files
    pub fn describe(&self, n: usize) -> String {
        let nd = &self.nodes[n];
        match &nd.kind {
            K::File => nd.name.clone(),
            K::Fifo => format!("{}|", nd.name),
            K::Sock => format!("{}=", nd.name),
            K::Link(t) => format!("{}->{}", nd.name, t),
            K::Dir => format!(
                "{}/{{{}}}",
                nd.name,
                nd.children
                    .iter()
                    .map(|&c| self.describe(c))
                    .collect::<Vec<_>>()
                    .join(",")
            ),
        }
    }
}

#[derive(Clone, Copy, Debug, PartialEq, Eq, Hash)]
pub enum Follow {
    P,
    H,
    L,
}

impl Follow {
    pub fn flag(self) -> &'static str {
        match self {
            Follow::P => "-P",
            Follow::H => "-H",
            Follow::L => "-L",
        }
    }
    pub fn at(self, depth: usize) -> bool {
        match self {
            Follow::P => false,
            Follow::H => depth == 0,
            Follow::L => true,
        }
    }
}

#[derive(Clone, Debug)]
pub struct WalkCfg {
    pub follow: Follow,
    pub mindepth: usize,
    pub maxdepth: usize,
    pub depth_first: bool,
}

#[derive(Clone, Debug, PartialEq, Eq)]
pub struct Visit {
    pub path: String,
    pub depth: usize,
    /// the directory entry itself (lstat identity)
    pub node: usize,
    /// node whose record the follow mode selects (== node unless a link was followed)
    pub eff: usize,
    /// true if the entry is a link that the follow mode resolved
    pub followed: bool,
}

/// Things the reference walker cannot pin down from the statement (see DESIGN "R")
#[derive(Clone, Debug, Default)]
pub struct WalkNotes {
    /// paths of links that close a directory cycle (must be diagnosed; printing optional)
    pub cycle_links: Vec<String>,
    /// paths of links whose resolution is ELOOP (self-referential); printing optional
    pub eloop_links: Vec<String>,
    /// roots that could not be examined
    pub missing_roots: Vec<String>,
}

pub fn join(path: &str, name: &str) -> String {
    if path.ends_with('/') {
        format!("{path}{name}")
    } else {
        format!("{path}/{name}")
    }
}

/// Decision callback result for one visited entry (pre-order evaluation point).
pub struct Decision {
    pub prune: bool,
    pub quit: bool,
}

/// Reference walk of one starting point. `cwd` is the directory relative paths start at.
/// `on_visit` is called at the moment the entry is evaluated (pre-order, or post-order with
/// depth_first); its Decision can prune (pre-order only, directories only) or quit.
/// Returns false if quit was requested.
pub fn walk<F: FnMut(&Visit) -> Decision>(
    fs: &Fs,
    cwd: usize,
    root: &str,
    cfg: &WalkCfg,
    notes: &mut WalkNotes,
    on_visit: &mut F,
) -> bool {
    // lstat the root
    let Ok(node) = fs.resolve(cwd, root, false) else {
        notes.missing_roots.push(root.to_string());
        return true;
    };
    let mut anc: Vec<usize> = vec![];
    walk_rec(fs, cwd, root.to_string(), 0, node, cfg, notes, on_visit, &mut anc)
}

#[allow(clippy::too_many_arguments)]
fn walk_rec<F: FnMut(&Visit) -> Decision>(
    fs: &Fs,
    cwd: usize,
    path: String,
    depth: usize,
    node: usize,
    cfg: &WalkCfg,
    notes: &mut WalkNotes,
    on_visit: &mut F,
    anc: &mut Vec<usize>,
) -> bool {
    let mut eff = node;
    let mut followed = false;
    let mut eloop = false;
    if fs.is_link(node) && cfg.follow.at(depth) {
        match fs.resolve(cwd, &path, true) {
            Ok(t) => {
                eff = t;
                followed = true;
            }
            Err(Errno::Loop) => {
                eloop = true;
            }
            Err(_) => {} // dangling: visited as the link itself
        }
    }
    if eloop {
        notes.eloop_links.push(path.clone());
    }
    let is_dir = fs.is_dir(eff);
    // a followed link that leads to one of the directories we are inside closes a cycle
    if followed && is_dir && anc.contains(&eff) {
        notes.cycle_links.push(path.clone());
        return true;
    }
    let in_range = depth >= cfg.mindepth && depth <= cfg.maxdepth;
    let v = Visit {
        path: path.clone(),
        depth,
        node,
        eff,
        followed,
    };
    let mut pruned = false;
    if !cfg.depth_first && in_range {
        let d = on_visit(&v);
        if d.quit {
            return false;
        }
        pruned = d.prune && is_dir;
    }
    if is_dir && depth < cfg.maxdepth && !pruned {
        anc.push(eff);
        let kids = fs.nodes[eff].children.clone();
        for c in kids {
            let p = join(&path, &fs.nodes[c].name);
            if !walk_rec(fs, cwd, p, depth + 1, c, cfg, notes, on_visit, anc) {
                anc.pop();
                return false;
            }
        }
        anc.pop();
    }
    if cfg.depth_first && in_range {
        let d = on_visit(&v);
        if d.quit {
            return false;
        }
    }
    true
}

/// Convenience: the list of visits with no prune/quit.
pub fn walk_all(fs: &Fs, cwd: usize, root: &str, cfg: &WalkCfg, notes: &mut WalkNotes) -> Vec<Visit> {
    let mut out = vec![];
    walk(fs, cwd, root, cfg, notes, &mut |v: &Visit| {
        out.push(v.clone());
        Decision {
            prune: false,
            quit: false,
        }
    });
    out
}

// ---------------------------------------------------------------------------------------
// Enumeration of all small trees
// ---------------------------------------------------------------------------------------

/// Leaf labels for the tree enumerator.
#[derive(Clone, Copy, Debug, PartialEq, Eq, Hash)]
pub enum Leaf {
    File,
    EmptyDir,
    /// link to a regular file outside the starting point
    LnFile,
    /// link to a directory outside the starting point (containing one file)
    LnDir,
    LnDangling,
    /// link to "." : the directory containing it (closes a cycle when followed)
    LnDot,
    /// link to its own name (ELOOP)
    LnSelf,
    /// link to the previous sibling
    LnSib,
    Fifo,
}

/// A shape: ordered forest encoded as nested vectors; leaves carry a label.
#[derive(Clone, Debug, PartialEq, Eq, Hash)]
pub enum Shape {
    Leaf(Leaf),
    Dir(Vec<Shape>),
}

/// All ordered forests with exactly `n` nodes whose leaves are labelled from `labels`
/// (internal nodes are directories). The callback gets each forest once.
pub fn forests(n: usize, labels: &[Leaf], f: &mut dyn FnMut(&[Shape])) {
    let mut cur: Vec<Shape> = vec![];
    forests_rec(n, labels, &mut cur, f);
}

fn forests_rec(n: usize, labels: &[Leaf], cur: &mut Vec<Shape>, f: &mut dyn FnMut(&[Shape])) {
    if n == 0 {
        f(cur);
        return;
    }
    // first tree of the remaining forest has k nodes (1..=n)
    for k in 1..=n {
        let mut firsts: Vec<Shape> = vec![];
        trees(k, labels, &mut |t| firsts.push(t.clone()));
        for t in firsts {
            // LnSib needs a previous sibling
            if matches!(t, Shape::Leaf(Leaf::LnSib)) && cur.is_empty() {
                continue;
            }
            cur.push(t);
            forests_rec(n - k, labels, cur, f);
            cur.pop();
        }
    }
}

/// All trees with exactly `k` nodes.
fn trees(k: usize, labels: &[Leaf], f: &mut dyn FnMut(&Shape)) {
    if k == 1 {
        for &l in labels {
            f(&Shape::Leaf(l));
        }
        return;
    }
    // a directory with k-1 nodes beneath it
    let mut subs: Vec<Vec<Shape>> = vec![];
    forests(k - 1, labels, &mut |fo| subs.push(fo.to_vec()));
    for s in subs {
        f(&Shape::Dir(s));
    }
}

pub const NAMES: [&str; 8] = ["a", "b", "c", "d", "e", "f", "g", "h"];

/// Instantiate a forest under directory `dir` of `fs`. `up` is the relative path from `dir`
/// to the sandbox root (e.g. "../" for depth 1) so that outside targets can be addressed.
pub fn instantiate(fs: &mut Fs, dir: usize, forest: &[Shape], up: &str) {
    for (i, s) in forest.iter().enumerate() {
        let name = NAMES[i];
        match s {
            Shape::Dir(sub) => {
                let d = fs.add(dir, name, K::Dir);
                instantiate(fs, d, sub, &format!("../{up}"));
            }
            Shape::Leaf(l) => {
                let kind = match l {
                    Leaf::File => K::File,
                    Leaf::EmptyDir => K::Dir,
                    Leaf::Fifo => K::Fifo,
                    Leaf::LnFile => K::Link(format!("{up}out/f")),
                    Leaf::LnDir => K::Link(format!("{up}out/d")),
                    Leaf::LnDangling => K::Link("nowhere".into()),
                    Leaf::LnDot => K::Link(".".into()),
                    Leaf::LnSelf => K::Link(name.into()),
                    Leaf::LnSib => K::Link(NAMES[i - 1].into()),
                };
                fs.add(dir, name, kind);
            }
        }
    }
}

/// Standard sandbox layout: `r/` = the enumerated forest, `out/f` a file, `out/d/g` a file.
pub fn standard_fs(forest: &[Shape]) -> Fs {
    let mut fs = Fs::new();
    let out = fs.add(0, "out", K::Dir);
    let f = fs.add(out, "f", K::File);
    fs.nodes[f].size = 3;
    let d = fs.add(out, "d", K::Dir);
    fs.add(d, "g", K::File);
    let r = fs.add(0, "r", K::Dir);
    instantiate(&mut fs, r, forest, "../");
    fs
}

pub fn forest_has_link(forest: &[Shape]) -> bool {
    forest.iter().any(|s| match s {
        Shape::Leaf(l) => !matches!(l, Leaf::File | Leaf::EmptyDir | Leaf::Fifo),
        Shape::Dir(sub) => forest_has_link(sub),
    })
}

pub fn multiset(paths: &[String]) -> BTreeSet<(String, usize)> {
    let mut m: std::collections::BTreeMap<String, usize> = Default::default();
    for p in paths {
        *m.entry(p.clone()).or_insert(0) += 1;
    }
    m.into_iter().collect()
}

// ---------------------------------------------------------------------------------------
// Text encoding of forests (replay files, samples)
// ---------------------------------------------------------------------------------------

impl Leaf {
    pub fn code(self) -> &'static str {
        match self {
            Leaf::File => "F",
            Leaf::EmptyDir => "E",
            Leaf::LnFile => "lf",
            Leaf::LnDir => "ld",
            Leaf::LnDangling => "lx",
            Leaf::LnDot => "l.",
            Leaf::LnSelf => "ls",
            Leaf::LnSib => "lb",
            Leaf::Fifo => "P",
        }
    }
    pub fn from_code(c: &str) -> Option<Leaf> {
        Some(match c {
            "F" => Leaf::File,
            "E" => Leaf::EmptyDir,
            "lf" => Leaf::LnFile,
            "ld" => Leaf::LnDir,
            "lx" => Leaf::LnDangling,
            "l." => Leaf::LnDot,
            "ls" => Leaf::LnSelf,
            "lb" => Leaf::LnSib,
            "P" => Leaf::Fifo,
            _ => return None,
        })
    }
}

pub fn encode_forest(f: &[Shape]) -> String {
    f.iter()
        .map(|s| match s {
            Shape::Leaf(l) => l.code().to_string(),
            Shape::Dir(sub) => format!("({})", encode_forest(sub)),
        })
        .collect::<Vec<_>>()
        .join(",")
}

pub fn decode_forest(s: &str) -> Option<Vec<Shape>> {
    let b: Vec<char> = s.chars().collect();
    let mut i = 0;
    let f = dec(&b, &mut i)?;
    if i == b.len() {
        Some(f)
    } else {
        None
    }
}

fn dec(b: &[char], i: &mut usize) -> Option<Vec<Shape>> {
    let mut out = vec![];
    loop {
        if *i >= b.len() || b[*i] == ')' {
            return Some(out);
        }
        if b[*i] == '(' {
            *i += 1;
            let sub = dec(b, i)?;
            if *i >= b.len() || b[*i] != ')' {
                return None;
            }
            *i += 1;
            out.push(Shape::Dir(sub));
        } else {
            let mut tok = String::new();
            while *i < b.len() && b[*i] != ',' && b[*i] != ')' {
                tok.push(b[*i]);
                *i += 1;
            }
            out.push(Shape::Leaf(Leaf::from_code(&tok)?));
        }
        if *i < b.len() && b[*i] == ',' {
            *i += 1;
        }
    }
}
