pub mod expr;
pub mod tree;
