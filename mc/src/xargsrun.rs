//! In-process binding to `findutils::xargs::xargs_main` (real option parser, readers,
//! limiters, process_input) with the verif-hooks: H2 answers Command::status() from a
//! script, H3 records the batching state after every accepted argument.

use findutils::xargs::verif_hooks::{self as hooks, Invocation, Snapshot};
use findutils::xargs::xargs_main;
use std::cell::RefCell;
use std::os::unix::ffi::OsStrExt;
use std::os::unix::process::ExitStatusExt;
use std::process::ExitStatus;
use std::rc::Rc;

#[derive(Clone, Copy, Debug, PartialEq, Eq, Hash, PartialOrd, Ord)]
pub enum Outcome {
    Exit(i32),
    Signal(i32),
    /// exec fails with this errno
    Errno(i32),
    /// let the real Command::status() run
    Real,
}

impl Outcome {
    fn answer(self) -> Option<std::io::Result<ExitStatus>> {
        match self {
            Outcome::Exit(c) => Some(Ok(ExitStatus::from_raw((c & 0xff) << 8))),
            Outcome::Signal(s) => Some(Ok(ExitStatus::from_raw(s & 0x7f))),
            Outcome::Errno(e) => Some(Err(std::io::Error::from_raw_os_error(e))),
            Outcome::Real => None,
        }
    }
}

#[derive(Clone, Debug, PartialEq, Eq)]
pub struct XOut {
    pub code: Result<i32, String>,
    /// argv of every invocation started (program first)
    pub inv: Vec<Vec<Vec<u8>>>,
    pub snaps: Vec<Snapshot>,
    pub out: Vec<u8>,
    pub err: Vec<u8>,
}

/// Run xargs in-process. `args` excludes argv[0]. `outcome(k, argv)` scripts the k-th invocation.
pub fn run_xargs(args: &[&str], outcome: &mut dyn FnMut(usize, &[Vec<u8>]) -> Outcome) -> XOut {
    let inv: Rc<RefCell<Vec<Vec<Vec<u8>>>>> = Rc::new(RefCell::new(vec![]));
    let snaps: Rc<RefCell<Vec<Snapshot>>> = Rc::new(RefCell::new(vec![]));
    // The hook must be 'static; smuggle the borrowed closure through a raw pointer that does
    // not outlive this call (the hook is cleared before returning).
    let outcome_ptr: *mut (dyn FnMut(usize, &[Vec<u8>]) -> Outcome + '_) = outcome;
    let outcome_ptr: *mut (dyn FnMut(usize, &[Vec<u8>]) -> Outcome + 'static) = unsafe { std::mem::transmute(outcome_ptr) };
    let inv2 = inv.clone();
    hooks::set_status_hook(Some(Box::new(move |i: &Invocation| {
        let mut argv: Vec<Vec<u8>> = vec![i.program.as_bytes().to_vec()];
        argv.extend(i.args.iter().map(|a| a.as_bytes().to_vec()));
        let k = inv2.borrow().len();
        let o = unsafe { (*outcome_ptr)(k, &argv) };
        inv2.borrow_mut().push(argv);
        o.answer()
    })));
    let snaps2 = snaps.clone();
    hooks::set_observer(Some(Box::new(move |s: Snapshot| snaps2.borrow_mut().push(s))));
    let mut argv: Vec<&str> = vec!["xargs"];
    argv.extend_from_slice(args);
    if crate::engine::fd_size(2) > 0 {
        crate::engine::fd_take(2);
    }
    if crate::engine::fd_size(1) > 0 {
        crate::engine::fd_take(1);
    }
    let r = std::panic::catch_unwind(std::panic::AssertUnwindSafe(|| xargs_main(&argv)));
    hooks::set_status_hook(None);
    hooks::set_observer(None);
    {
        use std::io::Write;
        let _ = std::io::stdout().flush();
    }
    let err = crate::engine::fd_take(2);
    let out = crate::engine::fd_take(1);
    let code = match r {
        Ok(c) => Ok(c),
        Err(_) => Err(crate::findrun::last_panic().unwrap_or_else(|| "panic".into())),
    };
    let inv = inv.borrow().clone();
    let snaps = snaps.borrow().clone();
    XOut { code, inv, snaps, out, err }
}

/// Run the hooks-off xargs binary; stdin is fed by `feed` (which may write in pieces).
pub fn run_xargs_bin(
    args: &[&std::ffi::OsStr],
    cwd: &std::path::Path,
    env: &[(&str, &str)],
    feed: &mut dyn FnMut(&mut std::process::ChildStdin),
) -> (Result<i32, String>, Vec<u8>, Vec<u8>) {
    use std::process::{Command, Stdio};
    let exe = crate::engine::repo_bin_dir().join("xargs");
    let mut c = Command::new(exe);
    c.args(args)
        .current_dir(cwd)
        .env_clear()
        .env("PATH", "/usr/bin:/bin")
        .env("LC_ALL", "C")
        .stdin(Stdio::piped())
        .stdout(Stdio::piped())
        .stderr(Stdio::piped());
    for (k, v) in env {
        c.env(k, v);
    }
    let mut ch = match c.spawn() {
        Ok(c) => c,
        Err(e) => return (Err(format!("spawn: {e}")), vec![], vec![]),
    };
    {
        let mut si = ch.stdin.take().unwrap();
        feed(&mut si);
    }
    let o = ch.wait_with_output().unwrap();
    let code = match o.status.code() {
        Some(101) => Err("exit status 101 (panic)".to_string()),
        Some(c) => Ok(c),
        None => Err(format!("killed by signal {:?}", o.status.signal())),
    };
    (code, o.stdout, o.stderr)
}
