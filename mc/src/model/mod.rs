pub mod expr;
pub mod tree;
pub mod xargs;
pub mod glob;
