//! In-process binding to `findutils::find::find_main` with captured stdout, stderr
//! (fd 2 of the shard is a file), injected clock and panic capture.

use findutils::find::{find_main, Dependencies};
use std::cell::RefCell;
use std::io::Write;
use std::time::{Duration, SystemTime};

thread_local! {
    static LAST_PANIC: RefCell<Option<String>> = const { RefCell::new(None) };
}

pub fn install_panic_hook() {
    std::panic::set_hook(Box::new(|info| {
        let loc = info
            .location()
            .map(|l| format!("{}:{}", l.file(), l.line()))
            .unwrap_or_default();
        let msg = if let Some(s) = info.payload().downcast_ref::<&str>() {
            s.to_string()
        } else if let Some(s) = info.payload().downcast_ref::<String>() {
            s.clone()
        } else {
            "<non-string panic>".to_string()
        };
        LAST_PANIC.with(|c| *c.borrow_mut() = Some(format!("{loc}: {msg}")));
    }));
}

pub fn last_panic() -> Option<String> {
    LAST_PANIC.with(|c| c.borrow_mut().take())
}

struct CapDeps {
    out: RefCell<Vec<u8>>,
    now: SystemTime,
}

impl Dependencies for CapDeps {
    fn get_output(&self) -> &RefCell<dyn Write> {
        &self.out
    }
    fn now(&self) -> SystemTime {
        self.now
    }
}

#[derive(Clone, Debug, PartialEq, Eq)]
pub struct FindOut {
    /// Ok(exit status) or Err(panic location+message)
    pub code: Result<i32, String>,
    pub out: Vec<u8>,
    pub err: Vec<u8>,
}

impl FindOut {
    pub fn panicked(&self) -> bool {
        self.code.is_err()
    }
    pub fn status(&self) -> i32 {
        match &self.code {
            Ok(c) => *c,
            Err(_) => 101,
        }
    }
    pub fn brief(&self) -> String {
        format!(
            "status={:?} stdout={:?} stderr={:?}",
            self.code,
            String::from_utf8_lossy(&self.out),
            String::from_utf8_lossy(&self.err)
        )
    }
}

pub fn default_now() -> SystemTime {
    SystemTime::UNIX_EPOCH + Duration::from_secs(1_900_000_000)
}

/// Run find in-process. `args` excludes argv[0].
pub fn run_find_at(args: &[&str], now: SystemTime) -> FindOut {
    let mut argv: Vec<&str> = Vec::with_capacity(args.len() + 1);
    argv.push("find");
    argv.extend_from_slice(args);
    let deps = CapDeps {
        out: RefCell::new(Vec::new()),
        now,
    };
    // drop anything stale
    if crate::engine::fd_size(2) > 0 {
        crate::engine::fd_take(2);
    }
    let r = std::panic::catch_unwind(std::panic::AssertUnwindSafe(|| find_main(&argv, &deps)));
    let err = crate::engine::fd_take(2);
    // help/version text goes to the real stdout (fd 1): keep the file from growing
    if crate::engine::fd_size(1) > 0 {
        crate::engine::fd_take(1);
    }
    let code = match r {
        Ok(c) => Ok(c),
        Err(_) => Err(last_panic().unwrap_or_else(|| "panic".into())),
    };
    let out = match deps.out.try_borrow_mut() {
        Ok(mut o) => std::mem::take(&mut *o),
        Err(_) => vec![],
    };
    FindOut { code, out, err }
}

pub fn run_find(args: &[&str]) -> FindOut {
    run_find_at(args, default_now())
}

/// Run the hooks-off `find` binary built from /repo (binary-level binding).
pub fn run_find_bin(args: &[&str], cwd: &std::path::Path, stdin: Option<&[u8]>) -> FindOut {
    run_find_bin_env(args, cwd, stdin, &[])
}

/// The same with extra environment variables (set after the fixed ones, so they may override them).
pub fn run_find_bin_env(args: &[&str], cwd: &std::path::Path, stdin: Option<&[u8]>, env: &[(&str, &str)]) -> FindOut {
    use std::process::{Command, Stdio};
    let exe = crate::engine::repo_bin_dir().join("find");
    let mut c = Command::new(exe);
    c.args(args)
        .current_dir(cwd)
        .env_clear()
        .env("LC_ALL", "C")
        .env("TZ", "UTC")
        .env("PATH", "/usr/bin:/bin")
        .envs(env.iter().copied())
        .stdout(Stdio::piped())
        .stderr(Stdio::piped())
        .stdin(if stdin.is_some() {
            Stdio::piped()
        } else {
            Stdio::null()
        });
    let mut ch = match c.spawn() {
        Ok(c) => c,
        Err(e) => {
            return FindOut {
                code: Err(format!("spawn: {e}")),
                out: vec![],
                err: vec![],
            }
        }
    };
    if let Some(data) = stdin {
        let mut si = ch.stdin.take().unwrap();
        let _ = si.write_all(data);
    }
    let o = ch.wait_with_output().unwrap();
    use std::os::unix::process::ExitStatusExt;
    let code = match o.status.code() {
        Some(101) => Err("exit status 101 (panic)".to_string()),
        Some(c) => Ok(c),
        None => Err(format!("killed by signal {:?}", o.status.signal())),
    };
    FindOut {
        code,
        out: o.stdout,
        err: o.stderr,
    }
}

/// Binary-level cross-validation of one in-process run: the hooks-off find binary, same argv and
/// cwd, must produce the same stdout and exit status. Returns Err(description) on disagreement
/// (a machinery error: the two bindings to the code must coincide).
pub fn cross_check_bin(args: &[&str], inproc: &FindOut) -> Result<(), String> {
    let cwd = std::env::current_dir().map_err(|e| e.to_string())?;
    let b = run_find_bin(args, &cwd, None);
    if b.out != inproc.out || b.code != inproc.code {
        return Err(format!(
            "in-process and binary bindings disagree on find {:?}: in-process status {:?} / {} bytes, binary status {:?} / {} bytes; first binary stderr line {:?}",
            args.iter().take(12).collect::<Vec<_>>(),
            inproc.code,
            inproc.out.len(),
            b.code,
            b.out.len(),
            String::from_utf8_lossy(&b.err).lines().next().unwrap_or("")
        ));
    }
    Ok(())
}
