//! C02 traversal completeness — all small trees x follow mode x depth window x order x roots,
//! real find (in-process) vs reference walker; plus an unreadable-directory fault slice that
//! runs the hooks-off binary as an unprivileged user.

use crate::engine::{Ctx, Prop, Spec, Tier};
use crate::findrun::{run_find, FindOut};
use crate::model::tree::{self, Follow, Fs, Leaf, Shape, WalkCfg, WalkNotes, K};
use serde_json::{json, Value};

pub const PROP: Prop = Prop {
    id: "C02",
    spec,
    run,
    replay,
};

const LABELS: [Leaf; 8] = [
    Leaf::File,
    Leaf::EmptyDir,
    Leaf::LnFile,
    Leaf::LnDir,
    Leaf::LnDangling,
    Leaf::LnDot,
    Leaf::LnSelf,
    Leaf::LnSib,
];
const LABELS_REDUCED: [Leaf; 4] = [Leaf::File, Leaf::LnDir, Leaf::LnDot, Leaf::LnDangling];

fn bounds(t: Tier) -> (usize, usize) {
    // (max nodes with the full label set, max nodes with the reduced label set)
    t.pick((3, 4), (4, 5))
}

fn spec(t: Tier) -> Spec {
    let (full, red) = bounds(t);
    Spec {
        id: "C02",
        level: "exploration",
        rule: format!("every ordered forest with <= {full} nodes over leaf labels {:?} (and <= {red} nodes over {:?}) is materialised under r/ on tmpfs and walked by find_main under every configuration: follow in {{-P,-H,-L,-follow,-H -follow}} x (mindepth,maxdepth) in {{absent,0,1,2,3}}^2 (incl. min>max) x -depth on/off x -sorted on/off x 8 starting-point lists (dir, link to dir, dangling link, file, link to file, the same root twice, two roots, missing+dir); the -print0 output must equal the reference walker's visit list (sequence with -sorted, multiset + parent/child order without); diagnostics required for cycle-closing links and missing roots; non-trivial = (tree,config) whose expected visit list differs from the plain -P listing of r; scale slice: a chain 12 directories deep (file at every level, a link to an outside directory at level 5, a link back to the top at level 9), a directory of 300 files and 20 sub-directories, and link chains (l1 -> l2 -> l3 -> directory, k1 -> k2 -> k1), each under -P/-H/-L x mindepth in {{absent,0,3,5,11,12,13,2^32,2^32+3}} x maxdepth in {{absent,0,4,11,12,13,2^32,2^32+4,2^63-1}} x -depth on/off from r and lr; low-descriptor slice: a chain 40 directories deep walked by the binary under RLIMIT_NOFILE = 16 (-P/-L, -depth on/off, -sorted on/off); fault slice: trees with one or two mode-000 directories walked by the hooks-off binary running as uid 65534; undecodable-names slice: dangling links, a directory and a link target whose names are not valid UTF-8 under -P/-H/-L x (plain, -follow, -depth, -mindepth 1): one record per entry, status 0, no diagnostic",
            LABELS.iter().map(|l| l.code()).collect::<Vec<_>>(), LABELS_REDUCED.iter().map(|l| l.code()).collect::<Vec<_>>()),
        bound: json!({"max_nodes_full_labels": full, "max_nodes_reduced_labels": red, "configs_per_tree": 5*25*2*2*8}),
        assumptions: vec![
            "whether a cycle-closing link or an ELOOP link is itself printed is not judged (statement: 'diagnosed')".into(),
            "tmpfs; running as root (so the unreadable-directory slice uses the binary under setuid 65534)".into(),
        ],
        shards: 0,
        wall_cap_s: t.pick(300, 3600),
    }
}

#[derive(Clone, Debug)]
pub struct Cfg {
    pub follow: Follow,
    pub follow_word: bool, // -follow in the expression (after an optional -H flag)
    pub h_flag_too: bool,  // "-H ... -follow": -follow wins, i.e. -L semantics
    pub min: Option<usize>,
    pub max: Option<usize>,
    pub depth: bool,
    pub sorted: bool,
    pub roots: Vec<&'static str>,
}

impl Cfg {
    pub fn argv(&self) -> Vec<String> {
        let mut a: Vec<String> = vec![];
        if !self.follow_word {
            a.push(self.follow.flag().to_string());
        } else if self.h_flag_too {
            a.push("-H".to_string());
        }
        for r in &self.roots {
            a.push(r.to_string());
        }
        if self.follow_word {
            a.push("-follow".into());
        }
        if let Some(m) = self.min {
            a.push("-mindepth".into());
            a.push(m.to_string());
        }
        if let Some(m) = self.max {
            a.push("-maxdepth".into());
            a.push(m.to_string());
        }
        if self.depth {
            // (-d is the other spelling of -depth: used whenever -sorted is not)
            a.push(if self.sorted { "-depth" } else { "-d" }.into());
        }
        if self.sorted {
            a.push("-sorted".into());
        }
        a.push("-print0".into());
        a
    }
    pub fn walkcfg(&self) -> WalkCfg {
        WalkCfg {
            follow: self.follow,
            mindepth: self.min.unwrap_or(0),
            maxdepth: self.max.unwrap_or(usize::MAX),
            depth_first: self.depth,
        }
    }
}

pub const ROOT_LISTS: [&[&str]; 8] = [
    &["r"],
    &["lr"],
    &["lx"],
    &["out/f"],
    &["lf"],
    &["r", "r"],
    &["out/d", "r"],
    &["missing", "r"],
];

/// standard_fs plus root-level links: lr -> r, lf -> out/f, lx -> nowhere
pub fn c02_fs(forest: &[Shape]) -> Fs {
    let mut fs = tree::standard_fs(forest);
    fs.add(0, "lr", K::Link("r".into()));
    fs.add(0, "lf", K::Link("out/f".into()));
    fs.add(0, "lx", K::Link("nowhere".into()));
    fs
}

pub struct Expect {
    pub paths: Vec<String>,
    pub notes: WalkNotes,
}

pub fn expect(fs: &Fs, cfg: &Cfg) -> Expect {
    let mut notes = WalkNotes::default();
    let mut paths = vec![];
    let wc = cfg.walkcfg();
    for r in &cfg.roots {
        for v in tree::walk_all(fs, 0, r, &wc, &mut notes) {
            paths.push(v.path);
        }
    }
    Expect { paths, notes }
}

fn split0(out: &[u8]) -> Vec<String> {
    let mut v: Vec<String> = out
        .split(|&b| b == 0)
        .map(|s| String::from_utf8_lossy(s).to_string())
        .collect();
    if v.last().is_some_and(|s| s.is_empty()) {
        v.pop();
    }
    v
}

/// Compare one run with the reference. Returns (signature, detail).
pub fn judge(cfg: &Cfg, exp: &Expect, got: &FindOut) -> Option<(String, String)> {
    let cfgs = cfg_sig(cfg);
    if let Err(p) = &got.code {
        return Some((format!("C02 panic at {}", loc(p)), format!("panic: {p}")));
    }
    let optional: Vec<&String> = exp
        .notes
        .cycle_links
        .iter()
        .chain(exp.notes.eloop_links.iter())
        .collect();
    let actual: Vec<String> = split0(&got.out)
        .into_iter()
        .filter(|p| !optional.contains(&p))
        .collect();
    let want: Vec<String> = exp.paths.iter().filter(|p| !optional.contains(p)).cloned().collect();
    let mut problem: Option<String> = None;
    if cfg.sorted {
        if actual != want {
            problem = Some(diff_kind(&want, &actual));
        }
    } else {
        let (a, w) = (tree::multiset(&actual), tree::multiset(&want));
        if a != w {
            problem = Some(diff_kind(&want, &actual));
        } else if !order_ok(&actual, cfg.depth, cfg.roots.len()) {
            problem = Some("parent/child order wrong".into());
        }
    }
    if let Some(p) = problem {
        return Some((
            format!("C02 {p} [{cfgs}]"),
            format!("expected {:?}\nactual   {:?}\nstderr {:?}", want, split0(&got.out), String::from_utf8_lossy(&got.err)),
        ));
    }
    let anomalies = !exp.notes.cycle_links.is_empty() || !exp.notes.missing_roots.is_empty();
    if anomalies && got.err.is_empty() {
        return Some((
            format!("C02 no diagnostic for {} [{cfgs}]", if exp.notes.missing_roots.is_empty() { "a cycle-closing link" } else { "a missing starting point" }),
            format!("cycle links {:?}, missing roots {:?}, stderr empty", exp.notes.cycle_links, exp.notes.missing_roots),
        ));
    }
    if !exp.notes.missing_roots.is_empty() && got.code == Ok(0) {
        return Some((
            format!("C02 exit status 0 despite a missing starting point [{cfgs}]"),
            format!("missing roots {:?}", exp.notes.missing_roots),
        ));
    }
    if !anomalies && exp.notes.eloop_links.is_empty() && got.code != Ok(0) {
        return Some((
            format!("C02 non-zero exit status on a fully readable tree [{cfgs}]"),
            format!("status {:?} stderr {:?}", got.code, String::from_utf8_lossy(&got.err)),
        ));
    }
    None
}

fn loc(p: &str) -> String {
    p.split(':').take(2).collect::<Vec<_>>().join(":")
}

fn diff_kind(want: &[String], actual: &[String]) -> String {
    let (a, w) = (tree::multiset(actual), tree::multiset(want));
    let extra = a.iter().filter(|x| !w.contains(x)).count();
    let missing = w.iter().filter(|x| !a.contains(x)).count();
    match (extra > 0, missing > 0) {
        (true, true) => "entries missing and extra".into(),
        (true, false) => "extra entries (visited out of range, twice, or not in the tree)".into(),
        (false, true) => "entries skipped".into(),
        (false, false) => "visit order differs from sorted reference".into(),
    }
}

/// Signature part: the configuration dimensions that matter, coarse enough to be stable.
fn cfg_sig(c: &Cfg) -> String {
    let mm = match (c.min, c.max) {
        (Some(a), Some(b)) if a > b => " mindepth>maxdepth",
        _ => "",
    };
    format!(
        "{}{} {}{} roots={}",
        c.follow.flag(),
        if c.h_flag_too { "(-H -follow)" } else if c.follow_word { "(-follow)" } else { "" },
        if c.depth { "-depth" } else { "pre-order" },
        mm,
        c.roots.join("+")
    )
}

/// Without -sorted: a directory's entry must come before (after, with -depth) everything below it.
fn order_ok(actual: &[String], depth_first: bool, nroots: usize) -> bool {
    if nroots > 1 {
        return true; // the same root twice makes prefixes ambiguous; sequence checked under -sorted
    }
    for (i, p) in actual.iter().enumerate() {
        let prefix = format!("{}/", p.trim_end_matches('/'));
        for (j, q) in actual.iter().enumerate() {
            if q.starts_with(&prefix) && ((!depth_first && j < i) || (depth_first && j > i)) {
                return false;
            }
        }
    }
    true
}

pub fn all_cfgs() -> Vec<Cfg> {
    let mut v = vec![];
    let depths = [None, Some(0), Some(1), Some(2), Some(3)];
    for (follow, word, htoo) in [
        (Follow::P, false, false),
        (Follow::H, false, false),
        (Follow::L, false, false),
        (Follow::L, true, false),
        (Follow::L, true, true),
    ] {
        for min in depths {
            for max in depths {
                for depth in [false, true] {
                    for sorted in [true, false] {
                        for roots in ROOT_LISTS {
                            v.push(Cfg {
                                follow,
                                follow_word: word,
                                h_flag_too: htoo,
                                min,
                                max,
                                depth,
                                sorted,
                                roots: roots.to_vec(),
                            });
                        }
                    }
                }
            }
        }
    }
    v
}

fn run_tree(ctx: &mut Ctx, forest: &[Shape], cfgs: &[Cfg], plain_cache: &mut Vec<String>) {
    let fs = c02_fs(forest);
    let sbx = ctx.sbx.clone();
    crate::sandbox::clear_dir(&sbx);
    if let Err(e) = crate::sandbox::materialize(&fs, 0, &sbx).and_then(|_| crate::sandbox::validate(&fs, 0, &sbx)) {
        ctx.rep.machinery(format!("tree builder: {e}"));
        return;
    }
    let enc = tree::encode_forest(forest);
    ctx.progress_note(&enc);
    ctx.rep.count("trees", 1);
    if tree::forest_has_link(forest) {
        ctx.rep.count("trees_with_links", 1);
    }
    // plain listing for the non-triviality rule
    let plain = expect(
        &fs,
        &Cfg { follow: Follow::P, follow_word: false, h_flag_too: false, min: None, max: None, depth: false, sorted: true, roots: vec!["r"] },
    );
    *plain_cache = plain.paths;
    for cfg in cfgs {
        ctx.rep.evaluations += 1;
        let exp = expect(&fs, cfg);
        if exp.paths != *plain_cache {
            ctx.rep.nontrivial += 1;
        }
        let argv = cfg.argv();
        let args: Vec<&str> = argv.iter().map(|s| s.as_str()).collect();
        let got = run_find(&args);
        ctx.rep.class(&format!(
            "visits={} cyc={} eloop={} missing={} status={:?}",
            exp.paths.len().min(9),
            exp.notes.cycle_links.len().min(2),
            exp.notes.eloop_links.len().min(2),
            exp.notes.missing_roots.len(),
            got.code.as_ref().map(|c| *c).unwrap_or(101)
        ));
        if ctx.rep.evaluations % 40_000 == 7 {
            ctx.rep.sample(json!({"tree": fs.describe(0), "argv": argv, "expected_visits": exp.paths}));
        }
        if let Some((sig, detail)) = judge(cfg, &exp, &got) {
            let again = run_find(&args);
            match judge(cfg, &exp, &again) {
                Some((s2, _)) if s2 == sig => ctx.rep.violation(
                    &sig,
                    format!("tree {} ; find {:?}\n{}", fs.describe(0), argv, detail),
                    json!({"prop":"C02","forest":enc,"argv":argv,"cfg":cfg_json(cfg)}),
                ),
                _ => ctx.rep.machinery(format!("nondeterministic verdict: tree {enc} argv {:?}", argv)),
            }
        }
    }
}

fn cfg_json(c: &Cfg) -> Value {
    json!({"follow": c.follow.flag(), "follow_word": c.follow_word, "h_flag_too": c.h_flag_too, "min": c.min, "max": c.max, "depth": c.depth, "sorted": c.sorted, "roots": c.roots})
}

fn cfg_from_json(v: &Value) -> Option<Cfg> {
    let follow = match v["follow"].as_str()? {
        "-P" => Follow::P,
        "-H" => Follow::H,
        _ => Follow::L,
    };
    let roots: Vec<&'static str> = v["roots"]
        .as_array()?
        .iter()
        .filter_map(|r| {
            let s = r.as_str()?;
            ["r", "lr", "lx", "out/f", "lf", "out/d", "missing"].into_iter().find(|k| *k == s)
        })
        .collect();
    Some(Cfg {
        follow,
        follow_word: v["follow_word"].as_bool()?,
        h_flag_too: v["h_flag_too"].as_bool().unwrap_or(false),
        min: v["min"].as_u64().map(|x| x as usize),
        max: v["max"].as_u64().map(|x| x as usize),
        depth: v["depth"].as_bool()?,
        sorted: v["sorted"].as_bool()?,
        roots,
    })
}

fn run(ctx: &mut Ctx) {
    let (full, red) = bounds(ctx.tier);
    let cfgs = all_cfgs();
    let mut plain = vec![];
    let mut seen_reduced_dupe = 0u64;
    for n in 0..=full {
        let mut todo: Vec<Vec<Shape>> = vec![];
        tree::forests(n, &LABELS, &mut |f| {
            if ctx.next_mine() {
                todo.push(f.to_vec());
            }
        });
        for f in todo {
            run_tree(ctx, &f, &cfgs, &mut plain);
        }
    }
    for n in (full + 1)..=red {
        let mut todo: Vec<Vec<Shape>> = vec![];
        tree::forests(n, &LABELS_REDUCED, &mut |f| {
            if ctx.next_mine() {
                todo.push(f.to_vec());
            }
        });
        for f in todo {
            run_tree(ctx, &f, &cfgs, &mut plain);
            seen_reduced_dupe += 1;
        }
    }
    ctx.rep.count("trees_reduced_labels", seen_reduced_dupe);
    scale_slice(ctx);
    if ctx.shard == 6 % ctx.nshards {
        low_nofile_slice(ctx);
    }
    if ctx.shard == 5 % ctx.nshards {
        undecodable_names_slice(ctx);
    }
    if ctx.shard == 4 % ctx.nshards {
        low_descriptor_slice(ctx);
    }
    fault_slice(ctx);
}

/// A chain 40 directories deep (a file at every level) walked by the find binary with
/// RLIMIT_NOFILE = 16: find must not need one open descriptor per level. -P/-L, pre-order and
/// -depth, -sorted on/off.
fn low_nofile_slice(ctx: &mut Ctx) {
    use std::ffi::OsStr;
    let mut fs = Fs::new();
    let r = fs.add(0, "r", K::Dir);
    let mut cur = r;
    for _ in 0..40 {
        fs.add(cur, "f", K::File);
        cur = fs.add(cur, "d", K::Dir);
    }
    fs.add(cur, "leaf", K::File);
    let sbx = ctx.sbx.clone();
    crate::sandbox::clear_dir(&sbx);
    if let Err(e) = crate::sandbox::materialize(&fs, 0, &sbx) {
        ctx.rep.machinery(format!("tree builder (deep chain): {e}"));
        return;
    }
    for follow in [Follow::P, Follow::L] {
        for depth in [false, true] {
            for sorted in [true, false] {
                let cfg = Cfg { follow, follow_word: false, h_flag_too: false, min: None, max: None, depth, sorted, roots: vec!["r"] };
                let exp = expect(&fs, &cfg);
                let argv = cfg.argv();
                let aos: Vec<&OsStr> = argv.iter().map(OsStr::new).collect();
                let o = crate::binrun::run(&crate::binrun::repo_bin("find"), &aos, &sbx, &crate::binrun::Opts { nofile: Some(16), timeout_s: 60, ..Default::default() });
                let got = FindOut { code: if o.died() { Err(format!("died: code {:?} signal {:?}", o.code, o.signal)) } else { Ok(o.code.unwrap_or(-1)) }, out: o.out, err: o.err };
                ctx.rep.evaluations += 1;
                ctx.rep.nontrivial += 1;
                ctx.rep.count("low_descriptor_limit_runs", 1);
                if let Some((sig, detail)) = judge(&cfg, &exp, &got) {
                    let d: String = detail.chars().take(900).collect();
                    ctx.rep.violation(&format!("{sig} [RLIMIT_NOFILE 16, 40 levels]"), format!("find {:?} with RLIMIT_NOFILE=16 on a chain 40 directories deep\n{d}", argv), json!({"prop":"C02","nofile":true}));
                }
            }
        }
    }
}

/// Three hand-built trees far beyond the exhaustive bound: a chain 12 directories deep (a file at
/// every level, a link to an outside directory at level 5, a link back to the top at level 9), a wide
/// directory (300 files, 20 sub-directories of 3 files), and chains of links (l1 -> l2 -> l3 -> a
/// directory; k1 -> k2 -> k1). Each under -P/-H/-L x mindepth in {absent,0,3,5,11,12,13,2^32,2^32+3} x maxdepth in
/// {absent,0,4,11,12,13,2^32,2^32+4,2^63-1} x -depth on/off, from r and from a link to r, -sorted.
fn scale_slice(ctx: &mut Ctx) {
    fn base() -> (Fs, usize) {
        let mut fs = Fs::new();
        let out = fs.add(0, "out", K::Dir);
        let d = fs.add(out, "d", K::Dir);
        fs.add(d, "g", K::File);
        fs.add(out, "f", K::File);
        let r = fs.add(0, "r", K::Dir);
        fs.add(0, "lr", K::Link("r".into()));
        (fs, r)
    }
    let mut trees: Vec<(&str, Fs)> = vec![];
    {
        let (mut fs, r) = base();
        let mut cur = r;
        let mut up = String::from("../");
        for lvl in 1..=12 {
            fs.add(cur, "f", K::File);
            if lvl == 5 {
                fs.add(cur, "lo", K::Link(format!("{up}out/d")));
            }
            if lvl == 9 {
                fs.add(cur, "lup", K::Link(format!("{up}r")));
            }
            cur = fs.add(cur, "a", K::Dir);
            up.push_str("../");
        }
        fs.add(cur, "leaf", K::File);
        trees.push(("deep chain", fs));
    }
    {
        let (mut fs, r) = base();
        for i in 0..300 {
            fs.add(r, &format!("n{i:03}"), K::File);
        }
        for i in 0..20 {
            let d = fs.add(r, &format!("d{i:02}"), K::Dir);
            for j in 0..3 {
                fs.add(d, &format!("m{j}"), K::File);
            }
        }
        trees.push(("wide directory", fs));
    }
    {
        let (mut fs, r) = base();
        let t = fs.add(r, "t", K::Dir);
        fs.add(t, "x", K::File);
        fs.add(r, "l3", K::Link("t".into()));
        fs.add(r, "l2", K::Link("l3".into()));
        fs.add(r, "l1", K::Link("l2".into()));
        fs.add(r, "k1", K::Link("k2".into()));
        fs.add(r, "k2", K::Link("k1".into()));
        let s = fs.add(r, "s", K::Dir);
        fs.add(s, "l1", K::Link("../l1".into()));
        trees.push(("link chains", fs));
    }
    let mins = [None, Some(0), Some(3), Some(5), Some(11), Some(12), Some(13), Some(1usize << 32), Some((1usize << 32) + 3)];
    let maxs = [None, Some(0), Some(4), Some(11), Some(12), Some(13), Some(1usize << 32), Some((1usize << 32) + 4), Some(usize::MAX >> 1)];
    for (ti, (name, fs)) in trees.iter().enumerate() {
        if ctx.shard != (ti as u64 + 3) % ctx.nshards {
            continue;
        }
        let sbx = ctx.sbx.clone();
        crate::sandbox::clear_dir(&sbx);
        if let Err(e) = crate::sandbox::materialize(fs, 0, &sbx).and_then(|_| crate::sandbox::validate(fs, 0, &sbx)) {
            ctx.rep.machinery(format!("tree builder (scale slice, {name}): {e}"));
            continue;
        }
        ctx.rep.count("scale_trees", 1);
        for follow in [Follow::P, Follow::H, Follow::L] {
            for min in mins {
                for max in maxs {
                    for depth in [false, true] {
                        for roots in [vec!["r"], vec!["lr"]] {
                            let cfg = Cfg { follow, follow_word: false, h_flag_too: false, min, max, depth, sorted: true, roots };
                            let exp = expect(fs, &cfg);
                            let argv = cfg.argv();
                            let args: Vec<&str> = argv.iter().map(|s| s.as_str()).collect();
                            let got = run_find(&args);
                            ctx.rep.evaluations += 1;
                            ctx.rep.nontrivial += 1;
                            ctx.rep.count("scale_runs", 1);
                            if let Some((sig, detail)) = judge(&cfg, &exp, &got) {
                                let d = if detail.len() > 1500 { format!("{}...", &detail[..detail.char_indices().take_while(|(i, _)| *i < 1500).last().map(|(i, _)| i).unwrap_or(0)]) } else { detail };
                                ctx.rep.violation(&sig, format!("scale slice, {name}; find {:?}\n{d}", argv), json!({"prop":"C02","scale":true}));
                            }
                        }
                    }
                }
            }
        }
    }
}

// ---------------------------------------------------------------------------------------
// Fault slice: unreadable directories, binary-level, uid 65534
// ---------------------------------------------------------------------------------------

pub fn run_find_as_nobody(args: &[&str], cwd: &std::path::Path) -> FindOut {
    use std::os::unix::process::CommandExt;
    use std::process::{Command, Stdio};
    // uid 65534 may not be able to reach the build directory (e.g. under /root): run a private
    // copy of the binary that lives next to the sandbox
    let src = crate::engine::repo_bin_dir().join("find");
    let exe = cwd.join(".mc-find-bin");
    let stale = match (std::fs::metadata(&src), std::fs::metadata(&exe)) {
        (Ok(a), Ok(b)) => a.len() != b.len() || a.modified().ok() > b.modified().ok(),
        _ => true,
    };
    if stale {
        use std::os::unix::fs::PermissionsExt;
        let _ = std::fs::remove_file(&exe);
        if std::fs::copy(&src, &exe).is_ok() {
            let _ = std::fs::set_permissions(&exe, std::fs::Permissions::from_mode(0o755));
        }
    }
    let mut c = Command::new(exe);
    c.args(args)
        .current_dir(cwd)
        .env_clear()
        .env("LC_ALL", "C")
        .stdin(Stdio::null())
        .stdout(Stdio::piped())
        .stderr(Stdio::piped())
        .uid(65534)
        .gid(65534);
    match c.output() {
        Ok(o) => FindOut {
            code: match o.status.code() {
                Some(101) => Err("exit 101 (panic)".into()),
                Some(c) => Ok(c),
                None => Err("killed by signal".into()),
            },
            out: o.stdout,
            err: o.stderr,
        },
        Err(e) => FindOut { code: Err(format!("spawn: {e}")), out: vec![], err: vec![] },
    }
}

/// Trees of directories and files (<= 4 nodes); every choice of one or two directories made
/// mode 000; walked as nobody with one and with two starting points.
fn fault_slice(ctx: &mut Ctx) {
    let maxn = ctx.tier.pick(3, 4);
    let labels = [Leaf::File, Leaf::EmptyDir];
    // the sandbox path must be searchable by uid 65534
    let sbx = ctx.sbx.clone();
    use std::os::unix::fs::PermissionsExt;
    let _ = std::fs::set_permissions(&sbx, std::fs::Permissions::from_mode(0o755));
    for n in 1..=maxn {
        let mut todo: Vec<Vec<Shape>> = vec![];
        tree::forests(n, &labels, &mut |f| {
            if ctx.next_mine() {
                todo.push(f.to_vec());
            }
        });
        for f in todo {
            let base = tree::standard_fs(&f);
            // directories below r (not r itself)
            let r = base.child(0, "r").unwrap();
            let mut dirs = vec![];
            collect_dirs(&base, r, &mut dirs);
            if dirs.is_empty() {
                continue;
            }
            let mut subsets: Vec<Vec<usize>> = dirs.iter().map(|&d| vec![d]).collect();
            for i in 0..dirs.len() {
                for j in (i + 1)..dirs.len() {
                    subsets.push(vec![dirs[i], dirs[j]]);
                }
            }
            for sub in subsets {
                let mut fs = base.clone();
                for &d in &sub {
                    fs.nodes[d].mode = 0;
                }
                crate::sandbox::clear_dir(&sbx);
                if let Err(e) = crate::sandbox::materialize(&fs, 0, &sbx) {
                    ctx.rep.machinery(format!("fault slice builder: {e}"));
                    continue;
                }
                for roots in [vec!["r"], vec!["r", "out"]] {
                    for depth in [false, true] {
                        ctx.rep.evaluations += 1;
                        ctx.rep.nontrivial += 1;
                        ctx.rep.count("fault_cases", 1);
                        // expected: everything not strictly below an unreadable directory
                        let mut want = vec![];
                        for root in &roots {
                            let n0 = fs.resolve(0, root, false).unwrap();
                            visible(&fs, n0, root.to_string(), &sub, &mut want);
                        }
                        let mut args: Vec<&str> = roots.clone();
                        if depth {
                            args.push("-depth");
                        }
                        args.push("-print0");
                        let got = run_find_as_nobody(&args, &sbx);
                        let actual = split0(&got.out);
                        // the unreadable directories themselves may or may not be printed
                        let unread: Vec<String> = sub.iter().map(|&d| fs.path_of(d)).collect();
                        let a: std::collections::BTreeSet<_> = actual.iter().filter(|p| !unread.contains(p)).cloned().collect();
                        let w: std::collections::BTreeSet<_> = want.iter().filter(|p| !unread.contains(p)).cloned().collect();
                        let nonempty_unreadable = sub.iter().any(|&d| !fs.nodes[d].children.is_empty()) || true;
                        let mut v: Option<(String, String)> = None;
                        if let Err(p) = &got.code {
                            v = Some((format!("C02 fault slice: find died: {}", loc(p)), p.clone()));
                        } else if a != w {
                            v = Some((
                                format!("C02 unreadable directory: {} ", if w.is_subset(&a) { "extra entries" } else { "siblings or later starting points dropped" }),
                                format!("expected {:?} actual {:?}", w, a),
                            ));
                        } else if nonempty_unreadable && (got.err.is_empty() || got.code == Ok(0)) {
                            v = Some((
                                "C02 unreadable directory: no diagnostic or exit status 0".into(),
                                format!("status {:?} stderr {:?}", got.code, String::from_utf8_lossy(&got.err)),
                            ));
                        }
                        ctx.rep.class(&format!("fault status={:?}", got.code.as_ref().map(|c| *c).unwrap_or(101)));
                        if let Some((sig, detail)) = v {
                            ctx.rep.violation(
                                &sig,
                                format!("tree {} unreadable {:?} ; as uid 65534: find {:?}\n{}", fs.describe(0), unread, args, detail),
                                json!({"prop":"C02","kind":"fault","forest":tree::encode_forest(&f),"unreadable":unread,"argv":args}),
                            );
                        }
                    }
                }
                // make removable again
                crate::sandbox::clear_dir(&sbx);
            }
        }
    }
}

fn collect_dirs(fs: &Fs, n: usize, out: &mut Vec<usize>) {
    for &c in &fs.nodes[n].children {
        if fs.is_dir(c) {
            out.push(c);
            collect_dirs(fs, c, out);
        }
    }
}

fn visible(fs: &Fs, n: usize, path: String, unreadable: &[usize], out: &mut Vec<String>) {
    out.push(path.clone());
    if fs.is_dir(n) && !unreadable.contains(&n) {
        for &c in &fs.nodes[n].children {
            visible(fs, c, tree::join(&path, &fs.nodes[c].name), unreadable, out);
        }
    }
}

/// Entries whose names are not valid UTF-8 — dangling links among them, and a directory so named with
/// a dangling link below it: under -L a dangling link "is still visited as a link" whatever its bytes.
/// The paths are counted (one record per entry), not compared: how such bytes are printed is not the
/// subject here.
fn undecodable_names_slice(ctx: &mut Ctx) {
    use std::os::unix::ffi::OsStrExt;
    let base = ctx.sbx.join("ud");
    let _ = crate::sandbox::force_remove(&base);
    let os = |b: &[u8]| std::ffi::OsStr::from_bytes(b).to_os_string();
    std::fs::create_dir_all(base.join("r").join(os(b"dir\xfe"))).unwrap();
    std::fs::write(base.join("r").join(os(b"dir\xfe")).join("f"), b"").unwrap();
    let ln = |t: &[u8], p: std::path::PathBuf| std::os::unix::fs::symlink(os(t), p).unwrap();
    ln(b"nowhere", base.join("r/ok"));
    ln(b"nowhere", base.join("r").join(os(b"l\xff")));
    ln(b"missing/x", base.join("r").join(os(b"\x80")));
    ln(b"nowhere", base.join("r").join(os(b"dir\xfe")).join("dang"));
    ln(b"f/x", base.join("r").join(os(b"dir\xfe")).join(os(b"e\xe2\x82")));
    ln(b"no\xffwhere", base.join("r/bt"));
    std::env::set_current_dir(&base).unwrap();
    // r, ok, l\xff, \x80, bt, dir\xfe, dir\xfe/f, dir\xfe/dang, dir\xfe/e...
    let total = 9usize;
    for pre in [vec!["-P"], vec!["-H"], vec!["-L"], vec![]] {
        for tail in [vec![], vec!["-follow"], vec!["-depth"], vec!["-mindepth", "1"]] {
            let mut args: Vec<&str> = pre.clone();
            args.push("r");
            args.extend(tail.iter().copied());
            args.push("-print0");
            let got = run_find(&args);
            ctx.rep.evaluations += 1;
            ctx.rep.nontrivial += 1;
            ctx.rep.count("undecodable_name_runs", 1);
            let want = if tail == ["-mindepth", "1"] { total - 1 } else { total };
            let n = got.out.iter().filter(|&&c| c == 0).count();
            if n != want || got.code != Ok(0) || !got.err.is_empty() {
                ctx.rep.violation(
                    "C02 entries whose names are not valid UTF-8 (dangling links among them) are not each visited exactly once",
                    format!("find {:?}: {n} entries printed, expected {want}; status {:?}; stderr {:?}", args, got.code, String::from_utf8_lossy(&got.err)),
                    json!({"prop":"C02","undecodable":true}),
                );
            }
        }
    }
    std::env::set_current_dir(&ctx.sbx).unwrap();
    let _ = crate::sandbox::force_remove(&base);
}

/// 150 directories with 64 file descriptors (see props/lowfd.rs): every entry is visited.
fn low_descriptor_slice(ctx: &mut Ctx) {
    use crate::props::lowfd;
    let _ = lowfd::build(ctx);
    let cases: Vec<(Vec<&str>, usize)> = vec![(vec!["lf"], 451), (vec!["-L", "lf"], 451), (vec!["lf", "-depth"], 451), (vec!["-H", "lf", "-mindepth", "2"], 300), (vec!["lf", "-follow", "-maxdepth", "1"], 151)];
    for (args, want) in cases {
        let o = lowfd::find(ctx, &args, 64, vec![]);
        ctx.rep.evaluations += 1;
        ctx.rep.nontrivial += 1;
        ctx.rep.count("low_descriptor_limit_cases", 1);
        let got = lowfd::lines(&o.out).len();
        if o.died() || o.code != Some(0) || got != want {
            ctx.rep.violation(
                "C02 over 150 directories with 64 file descriptors: the later entries are not handled like the first",
                format!("find {:?} under RLIMIT_NOFILE=64: {got} lines, expected {want}; status {:?}; stderr {:?}", args, o.code, String::from_utf8_lossy(&o.err).lines().take(2).collect::<Vec<_>>()),
                json!({"prop":"C02","low_descriptor":true}),
            );
        }
    }
    lowfd::remove(ctx);
}

fn replay(case: &Value, ctx: &mut Ctx) -> Option<String> {
    if case["low_descriptor"] == true {
        low_descriptor_slice(ctx);
        return ctx.rep.violations.keys().next().cloned();
    }
    if case["undecodable"] == true {
        undecodable_names_slice(ctx);
        return ctx.rep.violations.keys().next().cloned();
    }
    if case["nofile"] == true {
        low_nofile_slice(ctx);
        return ctx.rep.violations.keys().next().cloned();
    }
    if case["scale"] == true {
        let (s0, n0) = (ctx.shard, ctx.nshards);
        for k in 0..3 {
            ctx.nshards = 3;
            ctx.shard = k;
            scale_slice(ctx);
        }
        ctx.shard = s0;
        ctx.nshards = n0;
        return ctx.rep.violations.keys().next().cloned();
    }
    if case["kind"] == "fault" {
        println!("fault-slice cases are replayed by re-running the check (binary under uid 65534)");
        return None;
    }
    let forest = tree::decode_forest(case["forest"].as_str()?)?;
    let cfg = cfg_from_json(&case["cfg"])?;
    let fs = c02_fs(&forest);
    let sbx = ctx.sbx.clone();
    crate::sandbox::clear_dir(&sbx);
    crate::sandbox::materialize(&fs, 0, &sbx).ok()?;
    let exp = expect(&fs, &cfg);
    let argv = cfg.argv();
    let args: Vec<&str> = argv.iter().map(|s| s.as_str()).collect();
    let got = run_find(&args);
    match judge(&cfg, &exp, &got) {
        Some((sig, detail)) => {
            ctx.rep.violation(&sig, format!("tree {} ; find {:?}\n{}", fs.describe(0), argv, detail), case.clone());
            Some(sig)
        }
        None => None,
    }
}
